// Package c15 decides C15: all encoders agree on how a Go value is encoded.
package c15

import (
	"encoding/json"
	"fmt"
	"math"
	"reflect"
	"sort"
	"strconv"
	"strings"
	"testing"
	"time"

	"github.com/ohler55/ojg"
	"github.com/ohler55/ojg/alt"
	"github.com/ohler55/ojg/oj"
	"github.com/ohler55/ojg/pretty"
	"github.com/ohler55/ojg/sen"
	"pgregory.net/rapid"

	"verif/internal/canon"
	"verif/internal/tyx"
	"verif/internal/vrt"
	"verif/internal/wx"
)

var suite = vrt.NewSuite("C15", "(struct type recipe, value, option record): struct types are synthesised with reflect.StructOf from generated recipes (1-6 fields; every scalar kind, []byte, slices, maps, pointers, pointer-to-pointer, interfaces, [3]int64, nested structs / pointers / slices / maps of structs to depth 2; tag forms none, name, name+omitempty, ',omitempty', '-', ',string', '-,'; a per-attempt counter in an unused tag key makes every type new to the plan caches) plus a named catalogue with embedded structs; options UseTags, KeyExact, NestEmbed, OmitNil, OmitEmpty, BytesAs, Indent. oj.JSON, oj.Marshal, oj.Write, sen.String (parsed back), pretty.JSON and alt.Decompose must each denote the tree a naive reflective reference encoder (written from the option documentation) prescribes; with the Go-compatible options the result is also compared with encoding/json. Non-trivial = type with >=3 exported fields of >=2 kinds and a tag, pointer/interface, nested struct or embedded struct; distinct = distinct (type, value, options)")

type Case struct {
	Type   *tyx.TypeR  `json:"type,omitempty"`
	Named  int         `json:"named,omitempty"` // catalogue index + 1 (0 = use Type)
	Opt    tyx.EncOpts `json:"opt"`
	Indent int         `json:"indent,omitempty"`
	Ptr    bool        `json:"ptr,omitempty"` // pass a pointer to the struct
	// History: option records the same type is encoded under first (the per-type field
	// plans are cached; the outcome must not depend on what was encoded before).
	History []tyx.EncOpts `json:"history,omitempty"`
}

func TestMain(m *testing.M) {
	vrt.InitRapid()
	vrt.RegisterReplay(suite, "encode", Run)
	suite.Register(classifiers...)
	vrt.Main(m, suite)
}

func options(eo tyx.EncOpts, indent int) *ojg.Options {
	o := ojg.DefaultOptions
	o.UseTags = eo.UseTags
	o.KeyExact = eo.KeyExact
	o.NestEmbed = eo.NestEmbed
	o.OmitNil = eo.OmitNil
	o.OmitEmpty = eo.OmitEmpty
	o.Sort = true
	o.Indent = indent
	o.CreateKey = eo.CreateKey
	o.FullTypePath = eo.FullTypePath
	switch eo.BytesAs {
	case 0:
		o.BytesAs = ojg.BytesAsString
	case 1:
		o.BytesAs = ojg.BytesAsBase64
	default:
		o.BytesAs = ojg.BytesAsArray
	}
	return &o
}

func num(v any) (f float64, i int64, u uint64, kind int) { // 1 int 2 uint 3 float 4 big
	switch tv := v.(type) {
	case int64:
		return 0, tv, 0, 1
	case int:
		return 0, int64(tv), 0, 1
	case int8:
		return 0, int64(tv), 0, 1
	case int16:
		return 0, int64(tv), 0, 1
	case int32:
		return 0, int64(tv), 0, 1
	case uint:
		return 0, 0, uint64(tv), 2
	case uint8:
		return 0, 0, uint64(tv), 2
	case uint16:
		return 0, 0, uint64(tv), 2
	case uint32:
		return 0, 0, uint64(tv), 2
	case uint64:
		return 0, 0, tv, 2
	case float64:
		return tv, 0, 0, 3
	case float32:
		return float64(tv), 0, 0, 3
	case json.Number:
		if x, err := strconv.ParseInt(string(tv), 10, 64); err == nil {
			return 0, x, 0, 1
		}
		if x, err := strconv.ParseUint(string(tv), 10, 64); err == nil {
			return 0, 0, x, 2
		}
		if x, err := strconv.ParseFloat(string(tv), 64); err == nil {
			return x, 0, 0, 3
		}
	}
	return 0, 0, 0, 0
}

func numEqualInt(got any, want int64) bool {
	f, i, u, k := num(got)
	switch k {
	case 1:
		return i == want
	case 2:
		return want >= 0 && u == uint64(want)
	case 3:
		return f == float64(want) && math.Abs(f) < 1<<53
	}
	return false
}

// match compares an encoder's tree with the expectation. choices records, for every
// member in an open zone that was reached, whether the encoder wrote it; decomp marks
// the alt.Decompose family (pretty.JSON decomposes first).
func match(e *tyx.ENode, got any, path string, out *[]string, choices map[string]bool, decomp bool) {
	if len(*out) > 4 {
		return
	}
	bad := func(f string, a ...any) { *out = append(*out, path+": "+fmt.Sprintf(f, a...)) }
	switch e.Kind {
	case "null":
		if got != nil {
			bad("want null got %T %v", got, got)
		}
	case "bool":
		if b, ok := got.(bool); !ok || b != e.B {
			bad("want %v got %T %v", e.B, got, got)
		}
	case "int":
		if !numEqualInt(got, e.I) {
			bad("want int %d got %T %v", e.I, got, got)
		}
	case "uint":
		f, i, u, k := num(got)
		switch {
		case k == 1 && i >= 0 && uint64(i) == e.U, k == 2 && u == e.U:
		case k == 3 && e.U > math.MaxInt64 && f == float64(e.U):
		default:
			bad("want uint %d got %T %v", e.U, got, got)
		}
	case "float":
		f, i, u, k := num(got)
		switch k {
		case 1:
			f = float64(i)
		case 2:
			f = float64(u)
		case 3:
		default:
			bad("want float %v got %T %v", e.F, got, got)
			return
		}
		if e.Bits == 32 {
			if float32(f) != float32(e.F) {
				bad("want float32 %v got %v", float32(e.F), f)
			}
		} else if f != e.F {
			bad("want float %s got %s", strconv.FormatFloat(e.F, 'g', -1, 64), strconv.FormatFloat(f, 'g', -1, 64))
		}
	case "string":
		want := wx.ReplaceInvalid(e.S)
		if len(e.Feature) > 0 && e.Feature[0] == "float-as-string" {
			s, _ := got.(string)
			a, err1 := strconv.ParseFloat(s, 64)
			b, _ := strconv.ParseFloat(e.S, 64)
			if err1 != nil || a != b {
				bad("want float-as-string %q got %T %v", e.S, got, got)
			}
			return
		}
		if s, ok := got.(string); !ok || (s != want && s != e.S) {
			bad("want string %q got %T %v", want, got, got)
		}
	case "array":
		if len(e.Feature) > 0 && e.Feature[0] == "nil" {
			if a, ok := got.([]any); got != nil && !(ok && len(a) == 0) {
				bad("nil slice written as %T %v", got, got)
			}
			return
		}
		a, ok := got.([]any)
		if !ok {
			bad("want array got %T %v", got, got)
			return
		}
		if len(a) != len(e.Elems) {
			bad("want %d elements got %d", len(e.Elems), len(a))
			return
		}
		for i, c := range e.Elems {
			match(c, a[i], fmt.Sprintf("%s[%d]", path, i), out, choices, decomp)
		}
	case "object":
		if len(e.Feature) > 0 && e.Feature[0] == "nil" {
			if m, ok := got.(map[string]any); got != nil && !(ok && len(m) == 0) {
				bad("nil map written as %T %v", got, got)
			}
			return
		}
		m, ok := got.(map[string]any)
		if !ok {
			bad("want object got %T %v", got, got)
			return
		}
		want := map[string]bool{}
		for i, k := range e.Keys {
			wk := wx.ReplaceInvalid(k)
			want[wk] = true
			g, present := m[wk]
			switch e.Rules[i] {
			case tyx.MustDrop:
				if present {
					bad("member %q must be omitted but was written as %v", k, g)
				}
			case tyx.MayDrop:
				choices[e.Zones[i]+":"+path+"."+k] = present
				if present {
					match(e.Elems[i], g, path+"."+k, out, choices, decomp)
				}
			case tyx.BecomesEmpty:
				if !present && !decomp {
					bad("member %q is missing (only its members are empty)", k)
				}
				if decomp {
					choices["becomes-empty:"+path+"."+k] = present
				}
				if present {
					match(e.Elems[i], g, path+"."+k, out, choices, decomp)
				}
			default:
				if !present {
					if x := e.Elems[i]; (x.Kind == "array" && len(x.Elems) == 0) || (x.Kind == "object" && allDroppable(x)) {
						if e.IsMap {
							bad("[missing-empty-container][in-typed-map] member %q is missing", k)
						} else {
							bad("[missing-empty-container] member %q is missing", k)
						}
					} else {
						bad("member %q is missing", k)
					}
				} else {
					match(e.Elems[i], g, path+"."+k, out, choices, decomp)
				}
			}
		}
		for k := range m {
			if !want[k] {
				bad("unexpected member %q (%v)", k, m[k])
			}
		}
	}
}

// allDroppable: an object none of whose members has to be written, or whose members
// that have to be written are themselves empty arrays or such objects.
func allDroppable(e *tyx.ENode) bool {
	for i, r := range e.Rules {
		if r == tyx.Keep {
			x := e.Elems[i]
			if (x.Kind == "array" && len(x.Elems) == 0) || (x.Kind == "object" && allDroppable(x)) {
				continue
			}
			return false
		}
	}
	return true
}

type encoder struct {
	name string
	f    func(v any, o *ojg.Options) (any, error)
}

func parseJSON(s []byte) (any, error) { p := oj.Parser{}; return p.Parse(s) }

var encoders = []encoder{
	{"oj.JSON", func(v any, o *ojg.Options) (any, error) {
		s := oj.JSON(v, o)
		if s == "" {
			return nil, fmt.Errorf("oj.JSON returned an empty string")
		}
		return parseJSON([]byte(s))
	}},
	{"oj.Marshal", func(v any, o *ojg.Options) (any, error) {
		b, err := oj.Marshal(v, o)
		if err != nil {
			return nil, err
		}
		return parseJSON(b)
	}},
	{"oj.Write", func(v any, o *ojg.Options) (any, error) {
		r := &wx.Rec{}
		if err := oj.Write(r, v, o); err != nil {
			return nil, err
		}
		return parseJSON(r.Buf)
	}},
	{"sen.String", func(v any, o *ojg.Options) (any, error) {
		s := sen.String(v, o)
		if s == "" {
			return nil, fmt.Errorf("sen.String returned an empty string")
		}
		p := sen.Parser{}
		return p.Parse([]byte(s))
	}},
	{"pretty.JSON", func(v any, o *ojg.Options) (any, error) {
		s := pretty.JSON(v, o)
		if s == "" {
			return nil, fmt.Errorf("pretty.JSON returned an empty string")
		}
		return parseJSON([]byte(s))
	}},
	{"alt.Decompose", func(v any, o *ojg.Options) (any, error) {
		return canon.Norm(alt.Decompose(v, o)), nil
	}},
}

func Run(cs Case, c *vrt.Ctx) {
	tyx.ResetCache()
	var v any
	var rv reflect.Value
	if cs.Named > 0 {
		if cs.Named > tyx.CatalogueSize {
			v = tyx.EncodeOnly(cs.Named - 1 - tyx.CatalogueSize)
		} else {
			v = tyx.Catalogue(cs.Named - 1)
		}
		rv = reflect.ValueOf(v)
		if cs.Ptr && rv.Kind() == reflect.Struct {
			// addressable: the encoders then read fields through unsafe offsets
			p := reflect.New(rv.Type())
			p.Elem().Set(rv)
			v = p.Interface()
			rv = p.Elem()
		}
		c.Class("named-catalogue")
	} else {
		rt := cs.Type.Build()
		rv = cs.Type.New(rt)
		if cs.Ptr {
			p := reflect.New(rt)
			p.Elem().Set(rv)
			v = p.Interface()
		} else {
			v = rv.Interface()
		}
	}
	// a field of a type that writes itself (time.Time is a json.Marshaler and a TextMarshaler): oj
	// and sen hand it to the type, alt and pretty follow TimeFormat, and no document says which is
	// meant - so only this is asked here: sen writes what oj writes, for the struct held by value
	// (not addressable) as for a pointer to it. Every fourth case carries the comparison.
	if cs.Opt.UseTags == cs.Opt.KeyExact {
		st := tyx.Stamped{When: time.Date(2021, 3, 4, 5, 6, 7, 0, time.UTC), N: 1, Later: &tyx.Stamped{N: 2}}
		for _, sv := range []any{st, &st, []any{st}, map[string]tyx.Stamped{"k": st}} {
			for _, indent := range []int{0, 2} {
				o := options(cs.Opt, indent)
				var a, b string
				if pv, stack := vrt.Catch(func() { a, b = oj.JSON(sv, o), sen.String(sv, o) }); pv != nil {
					c.Fail("panic", "sen.String(self-writing field)", fmt.Sprintf("%v at %s", pv, stack))
					continue
				}
				av, aerr := oj.ParseString(a)
				bv, berr := sen.Parse([]byte(b))
				if a == "" || b == "" || aerr != nil || berr != nil || !canon.Same(av, bv) {
					c.Fail("self-writing-field-differs", "sen.String", fmt.Sprintf("%T indent %d: oj.JSON %q sen.String %q (%v %v)", sv, indent, a, b, aerr, berr))
				}
			}
		}
		// a time as element of a typed slice, array or map is the same tree as in a []any or a
		// map[string]any with the same elements, for each writer by itself
		when := time.Date(2021, 3, 4, 5, 6, 7, 0, time.UTC)
		for _, pair := range [][2]any{
			{[]time.Time{when, when.Add(time.Hour)}, []any{when, when.Add(time.Hour)}},
			{[2]time.Time{when, when}, []any{when, when}},
			{map[string]time.Time{"k": when}, map[string]any{"k": when}},
			{struct{ L []time.Time }{[]time.Time{when}}, map[string]any{"L": []any{when}}},
		} {
			o := options(cs.Opt, 0)
			o.KeyExact = true
			o.CreateKey = "" // a map has no type to name
			for _, w := range []struct {
				name string
				f    func(any) string
			}{{"oj.JSON", func(v any) string { return oj.JSON(v, o) }}, {"sen.String", func(v any) string { return sen.String(v, o) }}} {
				var a, b string
				if pv, stack := vrt.Catch(func() { a, b = w.f(pair[0]), w.f(pair[1]) }); pv != nil {
					c.Fail("panic", w.name+"(typed container of times)", fmt.Sprintf("%v at %s", pv, stack))
					continue
				}
				if a != b || a == "" {
					c.Fail("typed-container-of-times-differs", w.name, fmt.Sprintf("%T gives %q, the same elements in %T give %q", pair[0], a, pair[1], b))
				}
			}
		}
		// a pointer to a time is written as the time is (a pointer anywhere encodes what it points
		// to): as a struct field for every encoder, as an element of a typed slice or map for oj,
		// alt and pretty (sen hands such an element to the type's marshaler and a plain time
		// element not - seen, not decided by any document, left out)
		type pq struct{ Q *time.Time }
		type vq struct{ Q time.Time }
		for _, pair := range []struct {
			ptr, val any
			sen      bool
		}{
			{pq{&when}, vq{when}, true},
			{&pq{&when}, &vq{when}, true},
			{[]*time.Time{&when, &when}, []time.Time{when, when}, false},
			{map[string]*time.Time{"k": &when}, map[string]time.Time{"k": when}, false},
		} {
			o := options(cs.Opt, 0)
			o.CreateKey = ""
			ws := []struct {
				name string
				f    func(any) string
			}{
				{"oj.JSON", func(v any) string { return oj.JSON(v, o) }},
				{"alt.Decompose", func(v any) string { return oj.JSON(alt.Decompose(v, o), &ojg.Options{Sort: true}) }},
				{"pretty.JSON", func(v any) string { return pretty.JSON(v, o) }},
			}
			if pair.sen {
				ws = append(ws, struct {
					name string
					f    func(any) string
				}{"sen.String", func(v any) string { return sen.String(v, o) }})
			}
			for _, w := range ws {
				var a, b string
				if pv, stack := vrt.Catch(func() { a, b = w.f(pair.ptr), w.f(pair.val) }); pv != nil {
					c.Fail("panic", w.name+"(pointer to a time)", fmt.Sprintf("%v at %s", pv, stack))
					continue
				}
				if a != b || a == "" {
					c.Fail("pointer-to-time-differs", w.name, fmt.Sprintf("%T gives %q, %T gives %q", pair.ptr, a, pair.val, b))
				}
			}
		}
		c.Class("self-writing-field(oj vs sen)")
	}
	feats := map[string]bool{}
	want := tyx.Encode(rv, cs.Opt, feats)
	senFragile(rv, feats)
	if hasDashKey(want) {
		feats["key-dash"] = true
	}
	for f := range feats {
		c.Tag(f)
	}
	var tags []string
	for f := range feats {
		tags = append(tags, f)
	}
	sort.Strings(tags)
	if cs.Opt.OmitNil {
		tags = append(tags, "opt:omitnil")
	}
	if cs.Opt.OmitEmpty {
		tags = append(tags, "opt:omitempty")
	}
	if cs.Opt.NestEmbed {
		tags = append(tags, "opt:nestembed")
	}
	nontrivial(cs, rv, c)
	for _, h := range cs.History {
		ho := options(h, cs.Indent)
		for _, e := range encoders {
			vrt.Catch(func() { _, _ = e.f(v, ho) })
		}
		c.Class("with-history")
	}
	o := options(cs.Opt, cs.Indent)
	c.Sample(map[string]any{"type": rv.Type().String(), "value": fmt.Sprintf("%+v", v), "opt": cs.Opt})
	results := map[string]string{}
	choices := map[string]map[string]bool{}
	for _, e := range encoders {
		if e.name == "sen.String" && (feats["sen-bare-spelling(C10)"] || feats["key-dash"]) {
			c.Class("sen-skipped(C10 known bare spellings)")
			continue
		}
		var got any
		var err error
		pv, stack := vrt.Catch(func() { got, err = e.f(v, o) })
		if pv != nil {
			c.Fail("panic", e.name, fmt.Sprintf("%v at %s; %s %+v opt=%+v", pv, stack, rv.Type(), v, cs.Opt), tags...)
			continue
		}
		if err != nil {
			c.Fail("encode-error", e.name, fmt.Sprintf("%v; %s %+v opt=%+v", err, rv.Type(), v, cs.Opt), tags...)
			continue
		}
		results[e.name] = canon.String(got, canon.Value)
		var ms []string
		choices[e.name] = map[string]bool{}
		match(want, got, "$", &ms, choices[e.name], e.name == "pretty.JSON" || e.name == "alt.Decompose")
		for _, m := range ms {
			t := tags
			if i := strings.Index(m, "[missing-empty-container]"); i >= 0 {
				t = append(append([]string{}, tags...), "missing-empty-container")
				if strings.Contains(m, "[in-typed-map]") {
					t = append(t, "in-typed-map")
				}
			}
			c.Fail("wrong-encoding", e.name, fmt.Sprintf("%s; type %s value %+v opt=%+v; got %s", m, rv.Type(), v, cs.Opt, clip(canon.String(got, canon.Value))), t...)
		}
	}
	// where the documentation leaves a member open the encoders still have to agree
	var names []string
	for n := range choices {
		names = append(names, n)
	}
	sort.Strings(names)
	for i, a := range names {
		for _, b := range names[i+1:] {
			var diff []string
			for k, pa := range choices[a] {
				if pb, ok := choices[b][k]; ok && pa != pb {
					diff = append(diff, fmt.Sprintf("%s %s=%v %s=%v", k, a, pa, b, pb))
				}
			}
			if len(diff) > 0 {
				sort.Strings(diff)
				zones := map[string]bool{}
				for _, d := range diff {
					zones["zone:"+d[:strings.Index(d, ":")]] = true
					if strings.Contains(d, " "+a+"=true ") {
						zones["wrote:"+a] = true
					} else {
						zones["wrote:"+b] = true
					}
				}
				t := append([]string{}, tags...)
				for z := range zones {
					t = append(t, z)
				}
				sort.Strings(t)
				c.Fail("encoders-disagree", a+" vs "+b, fmt.Sprintf("%s; type %s value %+v opt=%+v: %s=%s %s=%s", diff[0], rv.Type(), v, cs.Opt, a, clip(results[a]), b, clip(results[b])), t...)
			}
		}
	}
	if feats["untagged-field-with-usetags-and-keyexact-false"] {
		c.Fail("keyexact-ignored-with-usetags", "all encoders", fmt.Sprintf("type %s opt=%+v: fields without a json tag keep their exact name although KeyExact is false", rv.Type(), cs.Opt), tags...)
	}
	// Go-compatible options: compare with encoding/json for the features both support
	if cs.Named == 0 && cs.Opt.UseTags && cs.Opt.KeyExact && !cs.Opt.OmitNil && !cs.Opt.OmitEmpty && cs.Opt.BytesAs == 1 && !feats["uint64-above-maxint64"] && !hasInvalidUTF8(rv) {
		c.Class("compared-with-encoding/json")
		jb, jerr := json.Marshal(v)
		ob, oerr := oj.Marshal(v)
		if jerr == nil && oerr == nil {
			jt, _ := parseJSON(jb)
			ot, _ := parseJSON(ob)
			if !sameModuloNil(jt, ot) {
				c.Fail("differs-from-encoding/json", "oj.Marshal", fmt.Sprintf("type %s value %+v: encoding/json %s ojg %s", rv.Type(), v, jb, ob), tags...)
			}
		} else if (jerr == nil) != (oerr == nil) {
			c.Fail("differs-from-encoding/json", "oj.Marshal", fmt.Sprintf("type %s value %+v: encoding/json err=%v ojg err=%v", rv.Type(), v, jerr, oerr), tags...)
		}
	}
}

// senFragile tags strings that the SEN writer is known (C10) not to round-trip.
func senFragile(rv reflect.Value, feats map[string]bool) {
	var walk func(rv reflect.Value)
	walk = func(rv reflect.Value) {
		switch rv.Kind() {
		case reflect.String:
			s := rv.String()
			if s == "true" || s == "false" || s == "null" || (s != "" && (s[0] == '-' || s[0] == '+')) {
				feats["sen-bare-spelling(C10)"] = true
			}
		case reflect.Ptr, reflect.Interface:
			if !rv.IsNil() {
				walk(rv.Elem())
			}
		case reflect.Struct:
			for i := 0; i < rv.NumField(); i++ {
				walk(rv.Field(i))
			}
		case reflect.Slice, reflect.Array:
			if rv.Type().Elem().Kind() == reflect.Uint8 {
				return
			}
			for i := 0; i < rv.Len(); i++ {
				walk(rv.Index(i))
			}
		case reflect.Map:
			it := rv.MapRange()
			for it.Next() {
				walk(it.Value())
			}
		}
	}
	walk(rv)
}

func hasDashKey(e *tyx.ENode) bool {
	for i, k := range e.Keys {
		if k == "-" || hasDashKey(e.Elems[i]) {
			return true
		}
	}
	if len(e.Keys) == 0 {
		for _, c := range e.Elems {
			if hasDashKey(c) {
				return true
			}
		}
	}
	return false
}

func hasInvalidUTF8(rv reflect.Value) bool {
	return canon.String(rv.Interface(), canon.Value) != canon.String(rv.Interface(), canon.Value) || containsFF(fmt.Sprintf("%+v", rv.Interface()))
}

func containsFF(s string) bool {
	for i := 0; i < len(s); i++ {
		if s[i] == 0xff {
			return true
		}
	}
	return false
}

// sameModuloNil: equal trees where null / empty array / empty object are interchangeable
// (nil slices and maps may appear as empty ones).
func sameModuloNil(a, b any) bool {
	empty := func(v any) bool {
		switch tv := v.(type) {
		case nil:
			return true
		case string:
			return tv == "" // nil []byte: null in encoding/json, empty base64 text in ojg
		case []any:
			return len(tv) == 0
		case map[string]any:
			return len(tv) == 0
		}
		return false
	}
	if empty(a) && empty(b) {
		return true
	}
	switch ta := a.(type) {
	case []any:
		tb, ok := b.([]any)
		if !ok || len(ta) != len(tb) {
			return false
		}
		for i := range ta {
			if !sameModuloNil(ta[i], tb[i]) {
				return false
			}
		}
		return true
	case map[string]any:
		tb, ok := b.(map[string]any)
		if !ok {
			return false
		}
		for k, va := range ta {
			if vb, has := tb[k]; has {
				if !sameModuloNil(va, vb) {
					return false
				}
			} else if !empty(va) {
				return false
			}
		}
		for k, vb := range tb {
			if _, has := ta[k]; !has && !empty(vb) {
				return false
			}
		}
		return true
	}
	if sa, ok := a.(string); ok {
		if sb, ok := b.(string); ok && sa != sb {
			// a float written as text (",string"): the spelling of the number may differ
			fa, ea := strconv.ParseFloat(sa, 64)
			fb, eb := strconv.ParseFloat(sb, 64)
			return ea == nil && eb == nil && fa == fb
		}
	}
	return canon.Same(a, b)
}

func nontrivial(cs Case, rv reflect.Value, c *vrt.Ctx) {
	if cs.Named > 0 {
		c.NonTrivial()
		return
	}
	kinds := map[string]bool{}
	special := false
	for _, f := range cs.Type.Fields {
		kinds[f.Kind] = true
		if f.Tag != "" || f.Sub != nil || f.Kind == "any" || f.Kind == "pint" || f.Kind == "pstr" || f.Kind == "ppint" {
			special = true
		}
	}
	if len(cs.Type.Fields) >= 3 && len(kinds) >= 2 && special {
		c.NonTrivial()
	}
	for k := range kinds {
		c.Class("kind:" + k)
	}
}

func clip(s string) string {
	if len(s) > 400 {
		return s[:400] + "…"
	}
	return s
}

func drawCase(t *rapid.T) Case {
	cs := Case{
		Opt: tyx.EncOpts{
			UseTags:   rapid.IntRange(0, 3).Draw(t, "usetags") != 0,
			KeyExact:  rapid.Bool().Draw(t, "keyexact"),
			NestEmbed: rapid.IntRange(0, 2).Draw(t, "nestembed") == 0,
			OmitNil:   rapid.IntRange(0, 2).Draw(t, "omitnil") == 0,
			OmitEmpty: rapid.IntRange(0, 3).Draw(t, "omitempty") == 0,
			BytesAs:   rapid.IntRange(0, 2).Draw(t, "bytesas"),
			// a type member in every struct ("^" and "~t" are no field or tag names here)
			CreateKey:    rapid.SampledFrom([]string{"", "", "", "^", "~t"}).Draw(t, "createkey"),
			FullTypePath: rapid.IntRange(0, 2).Draw(t, "fulltypepath") == 0,
		},
		Indent: rapid.SampledFrom([]int{0, 0, 2}).Draw(t, "indent"),
		Ptr:    rapid.Bool().Draw(t, "ptr"),
	}
	if rapid.IntRange(0, 4).Draw(t, "named") == 0 {
		cs.Named = rapid.IntRange(1, tyx.CatalogueSize+tyx.EncodeOnlySize).Draw(t, "catalogue")
		return cs
	}
	cs.Type = tyx.DrawType(t, 2)
	if cs.Opt.OmitEmpty {
		// the generated struct types have no name: their type member would be an empty string,
		// which the encoders that write directly keep and the decomposing ones drop under
		// OmitEmpty - a corner without meaning (the member is there to find the type again)
		cs.Opt.CreateKey = ""
	}
	if rapid.IntRange(0, 3).Draw(t, "history") == 0 {
		n := rapid.IntRange(1, 2).Draw(t, "nhist")
		for i := 0; i < n; i++ {
			cs.History = append(cs.History, tyx.EncOpts{
				UseTags:   rapid.Bool().Draw(t, "h-usetags"),
				KeyExact:  rapid.Bool().Draw(t, "h-keyexact"),
				NestEmbed: rapid.Bool().Draw(t, "h-nestembed"),
				OmitNil:   rapid.Bool().Draw(t, "h-omitnil"),
				OmitEmpty: rapid.Bool().Draw(t, "h-omitempty"),
				BytesAs:   rapid.IntRange(0, 2).Draw(t, "h-bytesas"),
			})
		}
	}
	return cs
}

func TestPropRandom(t *testing.T) {
	vrt.Rapid(t, suite, "encode", vrt.Scale(20000, 80000), drawCase, Run)
}

func TestReplay(t *testing.T) { suite.ReplayAll(t) }

func has(d vrt.Disc, t string) bool {
	for _, x := range d.Tags {
		if x == t {
			return true
		}
	}
	return false
}

// only reports whether every tag of d with the given prefix is one of allowed (and at
// least one is present).
func only(d vrt.Disc, prefix string, allowed ...string) bool {
	n := 0
	for _, x := range d.Tags {
		if !strings.HasPrefix(x, prefix) {
			continue
		}
		ok := false
		for _, a := range allowed {
			if x == prefix+a {
				ok = true
			}
		}
		if !ok {
			return false
		}
		n++
	}
	return n > 0
}

func crossFamily(d vrt.Disc) bool {
	dec := strings.Contains(d.Where, "alt.Decompose") || strings.Contains(d.Where, "pretty.JSON")
	wr := strings.Contains(d.Where, "oj.") || strings.Contains(d.Where, "sen.")
	return dec && wr
}

var classifiers = []vrt.Classifier{
	// C15-K1: options.go says of UseTags "If no tag is present then the KeyExact flag is
	// referenced to determine the key", but every encoder keeps the exact field name for an
	// untagged field when UseTags is set (the tag plans are shared between KeyExact on and off).
	{ID: "C15-K1", Match: func(d vrt.Disc, c *vrt.Ctx) bool { return d.Kind == "keyexact-ignored-with-usetags" }},
	// C15-K2: with OmitNil (and not OmitEmpty) pretty.JSON also omits empty and nil slices and
	// maps and objects left without members; oj, sen and alt.Decompose write them - except that
	// oj and sen also drop empty (non-nil) containers that are members of a typed map
	// ((wr.OmitNil || wr.OmitEmpty) && rm.Len() == 0 in tightMap / appendMap).
	{ID: "C15-K2", Match: func(d vrt.Disc, c *vrt.Ctx) bool {
		if !has(d, "opt:omitnil") || has(d, "opt:omitempty") {
			return false
		}
		if d.Kind == "wrong-encoding" && has(d, "missing-empty-container") {
			// pretty.JSON: everywhere; oj and sen: for the members of typed maps only
			if d.Where == "pretty.JSON" || (has(d, "in-typed-map") && (strings.HasPrefix(d.Where, "oj.") || d.Where == "sen.String")) {
				return true
			}
		}
		return d.Kind == "encoders-disagree" && strings.Contains(d.Where, "pretty.JSON") &&
			only(d, "zone:", "nil-container-under-omitnil") && !has(d, "wrote:pretty.JSON")
	}},
	// C15-K3: with OmitEmpty a non-nil pointer to (or interface holding) an empty string, zero
	// number, false or empty container is written by oj and sen and omitted by alt.Decompose
	// and pretty.JSON.
	// C15-K4: with OmitEmpty a zero number in a typed map is written by oj and sen and
	// omitted by alt.Decompose and pretty.JSON.
	{ID: "C15-K3", Match: func(d vrt.Disc, c *vrt.Ctx) bool {
		return d.Kind == "encoders-disagree" && crossFamily(d) && has(d, "zone:pointer-to-empty-under-omitempty") &&
			only(d, "zone:", "pointer-to-empty-under-omitempty", "zero-map-entry-under-omitempty") &&
			only(d, "wrote:", "oj.JSON", "oj.Marshal", "oj.Write", "sen.String")
	}},
	{ID: "C15-K4", Match: func(d vrt.Disc, c *vrt.Ctx) bool {
		return d.Kind == "encoders-disagree" && crossFamily(d) && only(d, "zone:", "zero-map-entry-under-omitempty") &&
			only(d, "wrote:", "oj.JSON", "oj.Marshal", "oj.Write", "sen.String")
	}},
}
