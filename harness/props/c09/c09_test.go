// Package c09 decides C09: parse errors point at the first offending byte.
package c09

import (
	"bytes"
	"errors"
	"fmt"
	"hash/fnv"
	"strings"
	"sync"
	"testing"

	"github.com/ohler55/ojg/gen"
	"github.com/ohler55/ojg/oj"
	"pgregory.net/rapid"

	"verif/internal/gx"
	"verif/internal/ref"
	"verif/internal/vet"
	"verif/internal/vrt"
)

var suite = vrt.NewSuite("C09", "rejected BOM-less inputs from (1) the exhaustive grammar-state x 256-byte matrix (with and without multi-line prefixes), (2) rapid: multi-line grammar texts mutated or truncated, each given to 8 front-ends, the reader variants under a generated chunking. Expected (line, column) is computed from the reference viable-prefix automaton's first dead offset. Non-trivial = error not at 1:1; distinct = distinct (input, chunking)")

type Case struct {
	Input []byte      `json:"input"`
	Chunk gx.Chunking `json:"chunk"`
}

func TestMain(m *testing.M) {
	vrt.InitRapid()
	vrt.RegisterReplay(suite, "position", Run)
	suite.Register(classifiers...)
	vrt.Main(m, suite)
}

type frontEnd struct {
	name   string
	reader bool
	f      func(d []byte, c gx.Chunking) error
}

var frontEnds = []frontEnd{
	{"oj.Parser.Parse", false, func(d []byte, c gx.Chunking) error { p := oj.Parser{}; _, err := p.Parse(d); return err }},
	{"oj.Parser.ParseReader", true, func(d []byte, c gx.Chunking) error {
		p := oj.Parser{}
		_, err := p.ParseReader(c.Reader(d))
		return err
	}},
	{"oj.Validator.Validate", false, func(d []byte, c gx.Chunking) error { v := oj.Validator{OnlyOne: true}; return v.Validate(d) }},
	{"oj.Validator.ValidateReader", true, func(d []byte, c gx.Chunking) error {
		v := oj.Validator{OnlyOne: true}
		return v.ValidateReader(c.Reader(d))
	}},
	{"oj.Tokenizer.Parse", false, func(d []byte, c gx.Chunking) error {
		t := oj.Tokenizer{}
		t.OnlyOne = true
		return t.Parse(d, &oj.ZeroHandler{})
	}},
	{"oj.Tokenizer.Load", true, func(d []byte, c gx.Chunking) error {
		t := oj.Tokenizer{}
		t.OnlyOne = true
		return t.Load(c.Reader(d), &oj.ZeroHandler{})
	}},
	{"gen.Parser.Parse", false, func(d []byte, c gx.Chunking) error { p := gen.Parser{}; _, err := p.Parse(d); return err }},
	{"gen.Parser.ParseReader", true, func(d []byte, c gx.Chunking) error {
		p := gen.Parser{}
		_, err := p.ParseReader(c.Reader(d))
		return err
	}},
	// instances with a history of failed multi-line documents (internal/vet): line and column
	// start again with every document
	{"oj.Parser(veteran).Parse", false, func(d []byte, c gx.Chunking) error { _, err := vet.OjParser().Parse(d); return err }},
	{"oj.Parser(veteran).ParseReader", true, func(d []byte, c gx.Chunking) error {
		_, err := vet.OjParser().ParseReader(c.Reader(d))
		return err
	}},
	{"oj.Tokenizer(veteran).Parse", false, func(d []byte, c gx.Chunking) error {
		t := vet.OjTokenizer()
		t.OnlyOne = true
		return t.Parse(d, &oj.ZeroHandler{})
	}},
	{"oj.Tokenizer(veteran).Load", true, func(d []byte, c gx.Chunking) error {
		t := vet.OjTokenizer()
		t.OnlyOne = true
		return t.Load(c.Reader(d), &oj.ZeroHandler{})
	}},
	{"gen.Parser(veteran).Parse", false, func(d []byte, c gx.Chunking) error { _, err := vet.GenParser().Parse(d); return err }},
	{"gen.Parser(veteran).ParseReader", true, func(d []byte, c gx.Chunking) error {
		_, err := vet.GenParser().ParseReader(c.Reader(d))
		return err
	}},
}

func position(err error) (line, col int, ok bool) {
	var pe *oj.ParseError
	if errors.As(err, &pe) {
		return pe.Line, pe.Column, true
	}
	var ge *gen.ParseError
	if errors.As(err, &ge) {
		return ge.Line, ge.Column, true
	}
	return 0, 0, false
}

func Run(cs Case, c *vrt.Ctx) {
	data := cs.Input
	if len(data) > 0 && data[0] == 0xEF {
		c.DontCare("starts-with-0xEF(BOM zone)")
		return
	}
	empty, complete, deadAt := ref.ScanFast(data)
	if empty || complete {
		c.Class("not-rejected")
		return
	}
	p := deadAt
	line := 1 + bytes.Count(data[:p], []byte{'\n'})
	col := p - bytes.LastIndexByte(data[:p], '\n')
	bounds := cs.Chunk.Boundaries(len(data))
	afterRefill := len(bounds) > 0 && bounds[0] <= p
	if line > 1 || col > 1 {
		c.NonTrivial()
	}
	if line > 1 {
		c.Class("line>=2")
	}
	if afterRefill {
		c.Class("error-after-refill")
	}
	if p == len(data) {
		c.Class("incomplete")
	} else {
		c.Class("dead-byte")
	}
	c.Sample(map[string]any{"input": string(data), "chunk": cs.Chunk, "want": fmt.Sprintf("%d:%d", line, col)})
	vh := fnv.New32a()
	_, _ = vh.Write(data)
	veterans := vh.Sum32()%4 == 0 // the veteran instances cost a history of calls each
	if veterans {
		c.Class("veteran-instances")
	}
	for _, fe := range frontEnds {
		if !veterans && strings.Contains(fe.name, "(veteran)") {
			continue
		}
		var err error
		pv, stack := vrt.Catch(func() { err = fe.f(gx.Exact(data), cs.Chunk) })
		if pv != nil {
			c.Fail("panic", fe.name, fmt.Sprintf("%v at %s on %q", pv, stack, data))
			continue
		}
		if err == nil {
			c.Class("accepted-invalid(C01)") // belongs to C01, skipped here
			continue
		}
		gl, gc, ok := position(err)
		if !ok {
			c.Fail("not-a-parse-error", fe.name, fmt.Sprintf("%T %v on %q", err, err, data))
			continue
		}
		if gl != line || gc != col {
			tags := []string{}
			if fe.reader && afterRefill {
				tags = append(tags, "after-refill")
			}
			if p == len(data) {
				tags = append(tags, "incomplete")
			}
			if line > 1 {
				tags = append(tags, "multiline")
			}
			st := ref.Scan(data).EndState
			if i := strings.IndexByte(st, '@'); i >= 0 {
				st = st[:i]
			}
			tags = append(tags, "st:"+st)
			c.Fail("wrong-position", fe.name, fmt.Sprintf("got %d:%d want %d:%d (%v) on %q chunk=%+v", gl, gc, line, col, err, data, cs.Chunk), tags...)
		}
	}
}

var prefixes = []string{
	"", " ", "[", "[ ", "{", `{"a"`, `{"a":`, `[1,`, `{"a":1,`, `[1`, `[1 `, `{"a":1`, `[[]`, `{"a":{}`, `1`, `1 `, `[]`, `"a"`, `null`,
	`"`, `"a`, `["a`, `{"a`, `"\`, `"\u`, `"\u1`, `"\u12`, `"\u123`, `-`, `0`, `[0`, `-0`, `12`, `[12`, `1.`, `1.5`, `[1.5`, `1e`, `1e+`, `1e5`, `[1e5`, `0e`, `0.5e-`,
	`n`, `nu`, `nul`, `[n`, `[nu`, `[nul`, `t`, `tr`, `tru`, `[tru`, `f`, `fa`, `fal`, `fals`, `[fals`, `[true`, `{"a":null`, `true`,
	`[[1,2],`, `{"a":[1],`, `[1,2,3`,
}
var leads = []string{"", "\n", "[\n  ", "{\"k\":\n[1,\r\n 2,\n\n", "  \n\t  \n      ", "[\"a\\nb\",\n"}

func TestEnumMatrix(t *testing.T) {
	var mu sync.Mutex
	total := 0
	chunks := []gx.Chunking{{}, {Sizes: []int{1}}, {Sizes: []int{3}}, {Sizes: []int{2, 5, 1}, EOFWithData: true}}
	vrt.Workers(func(si, sn int) {
		n := 0
		for pi, p := range prefixes {
			if pi%sn != si {
				continue
			}
			for li, lead := range leads {
				if !vrt.Thorough() && li > 2 && pi%3 != 0 {
					continue
				}
				var m ref.Machine
				for i := 0; i < len(lead)+len(p); i++ {
					m.Feed((lead + p)[i])
				}
				if m.Dead() {
					continue
				}
				for b := 0; b < 256; b++ {
					for _, suf := range []string{"", "]", "1]", "\n}"} {
						in := append([]byte(lead+p), byte(b))
						in = append(in, suf...)
						ch := chunks[(b+li+len(suf))%len(chunks)]
						vrt.Eval(suite, "position", Case{Input: in, Chunk: ch}, Run)
						n++
					}
				}
			}
		}
		mu.Lock()
		total += n
		mu.Unlock()
	})
	suite.AddExtra("matrix_cases", int64(total))
}

func drawCase(t *rapid.T) Case {
	o := gx.DefaultText
	o.Newlines = true
	if rapid.IntRange(0, 9).Draw(t, "pad") == 0 {
		o.PadTo = rapid.SampledFrom([]int{4090, 4096, 4100, 8200}).Draw(t, "padto")
	}
	text := gx.JSONText(t, o)
	if rapid.IntRange(0, 3).Draw(t, "trunc") == 0 && len(text) > 0 {
		text = text[:rapid.IntRange(0, len(text)-1).Draw(t, "tpos")]
	} else {
		text = gx.Mutate(t, text)
	}
	var cuts []int
	for i, b := range text {
		if b == '\n' {
			cuts = append(cuts, i, i+1)
		}
	}
	_, _, dead := ref.ScanFast(text)
	if dead > 0 {
		cuts = append(cuts, dead, dead-1, dead+1)
	}
	return Case{Input: text, Chunk: gx.DrawChunking(t, len(text), cuts)}
}

func TestPropRandom(t *testing.T) {
	vrt.Rapid(t, suite, "position", vrt.Scale(20000, 150000), drawCase, Run)
}

func TestReplay(t *testing.T) { suite.ReplayAll(t) }

var classifiers = []vrt.Classifier{}
