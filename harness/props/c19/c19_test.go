// Package c19 decides C19: alt.Diff, alt.Compare and alt.Match report exactly the
// real differences.
package c19

import (
	"fmt"
	"math"
	"math/big"
	"sort"
	"strconv"
	"strings"
	"testing"
	"time"

	"github.com/ohler55/ojg/alt"
	"github.com/ohler55/ojg/gen"
	"pgregory.net/rapid"

	"verif/internal/canon"
	"verif/internal/gx"
	"verif/internal/vrt"
	"verif/internal/wx"
)

var suite = vrt.NewSuite("C19", "(tree a, edit script, ignore paths, form): b is derived from a by 0-4 generated edits (change a scalar, replace a subtree by another kind, delete / add a member, set a member to null, append / drop array elements, no-op edits) and optionally by re-typing its numbers to other widths with the same value (int8..uint64, float32/64), or by planting numbers at and beyond the edges of int64 (uint64 / uint above MaxInt64, MinInt64, 2^63 and 2^64 as floats) in the same or different kinds on the two sides; both are compared as simple trees or, converted node by node, as gen trees; ignore paths are drawn from prefixes of paths that exist in a or b with wildcards mixed in. Oracle: a reference recursive comparison written from the documentation (numbers by exact value, a null member equals an absent one, extra array elements are differences at their index). Diff must return exactly the reference differences that no ignore path covers (for a length difference: at least one of the uncovered extra indexes, and nothing else); Compare must be nil exactly when Diff is empty and otherwise one of Diff's paths; Match(f, t) with f a generated sub-fingerprint of t (possibly edited) must equal the reference subset relation. plus every pair out of a pool of 16 values of one Go struct type (string, interface, slice, pointer and map fields, nil and not), by value and by pointer, against the same reference on the value trees they stand for. Non-trivial = at least one real difference below the root, or an ignore path that covers a real difference; distinct = distinct (a, b, ignores, form)")

// El is a path element: key, index or wildcard.
type El struct {
	T string `json:"t"` // k | i | w
	K string `json:"k,omitempty"`
	I int    `json:"i,omitempty"`
}

type Edit struct {
	Path []El   `json:"path"`
	Op   string `json:"op"` // set | del | nil | append | drop | noop
	Val  any    `json:"val,omitempty"`
}

type Case struct {
	A       any    `json:"a"` // wx.Enc form
	Edits   []Edit `json:"edits,omitempty"`
	Ignores [][]El `json:"ignores,omitempty"`
	Form    string `json:"form"`             // simple | gen
	Retype  int    `json:"retype,omitempty"` // 0 = keep, otherwise seed for re-typing b's numbers
	Swap    bool   `json:"swap,omitempty"`   // compare (b, a) instead of (a, b)
	// Wide: a number beyond int64 (or at its edges) planted at one leaf of both sides before the
	// edits, each side with a value and a Go kind of its own (simple form only)
	Wide *Wide `json:"wide,omitempty"`
	// Match check: f = subset(a, FPSeed) with FPEdits applied, t = a
	FPSeed  int    `json:"fpseed,omitempty"`
	FPEdits []Edit `json:"fpedits,omitempty"`
}

type Wide struct {
	Path []El   `json:"path"`
	A    string `json:"a"` // decimal text
	KA   string `json:"ka"`
	B    string `json:"b"`
	KB   string `json:"kb"`
}

// wideVal builds the Go value of the named kind for the decimal text.
func wideVal(text, kind string) any {
	switch kind {
	case "uint64":
		u, _ := strconv.ParseUint(text, 10, 64)
		return u
	case "uint":
		u, _ := strconv.ParseUint(text, 10, 64)
		return uint(u)
	case "int64":
		i, _ := strconv.ParseInt(text, 10, 64)
		return i
	case "int":
		i, _ := strconv.ParseInt(text, 10, 64)
		return int(i)
	}
	f, _ := strconv.ParseFloat(text, 64)
	return f
}

var widePool = []struct{ text, kind string }{
	{"9223372036854775808", "uint64"}, {"9223372036854775808", "uint"}, {"9223372036854775809", "uint64"}, {"18446744073709551615", "uint64"},
	{"18446744073709551615", "uint"}, {"18446744073709551614", "uint64"}, {"9223372036854775807", "uint64"}, {"9223372036854775807", "int64"},
	{"-9223372036854775808", "int64"}, {"-9223372036854775808", "int"}, {"-1", "int64"}, {"-2", "int"}, {"9223372036854775808", "float64"}, {"18446744073709551616", "float64"},
	{"-9223372036854775808", "float64"}, {"0", "uint64"}, {"1", "uint"},
}

func TestMain(m *testing.M) {
	vrt.InitRapid()
	vrt.RegisterReplay(suite, "diff", Run)
	vrt.RegisterReplay(suite, "rec", RunRec)
	suite.Register(classifiers...)
	vrt.Main(m, suite)
}

// ---- tree helpers ----

type absent struct{}

func get(v any, e El) any {
	switch tv := v.(type) {
	case map[string]any:
		if e.T == "k" {
			if x, ok := tv[e.K]; ok {
				return x
			}
		}
	case []any:
		if e.T == "i" && 0 <= e.I && e.I < len(tv) {
			return tv[e.I]
		}
	}
	return absent{}
}

// apply returns v with the edit applied (v is not modified).
func apply(v any, path []El, op string, val any) any {
	if len(path) == 0 {
		switch op {
		case "set":
			return canon.Copy(val)
		case "append":
			if a, ok := v.([]any); ok {
				return append(append([]any{}, a...), canon.Copy(val))
			}
		case "drop":
			if a, ok := v.([]any); ok && len(a) > 0 {
				return append([]any{}, a[:len(a)-1]...)
			}
		}
		return v
	}
	e := path[0]
	switch tv := v.(type) {
	case map[string]any:
		if e.T != "k" {
			return v
		}
		out := make(map[string]any, len(tv)+1)
		for k, x := range tv {
			out[k] = x
		}
		if len(path) == 1 {
			switch op {
			case "del":
				delete(out, e.K)
				return out
			case "nil":
				out[e.K] = nil
				return out
			case "set":
				out[e.K] = canon.Copy(val)
				return out
			}
		}
		if x, ok := tv[e.K]; ok {
			out[e.K] = apply(x, path[1:], op, val)
		}
		return out
	case []any:
		if e.T != "i" || e.I < 0 || e.I >= len(tv) {
			return v
		}
		out := append([]any{}, tv...)
		if len(path) == 1 {
			switch op {
			case "nil":
				out[e.I] = nil
				return out
			case "set":
				out[e.I] = canon.Copy(val)
				return out
			case "del":
				return append(out[:e.I], out[e.I+1:]...)
			}
		}
		out[e.I] = apply(tv[e.I], path[1:], op, val)
		return out
	}
	return v
}

// retype gives every number another Go type with exactly the same value.
func retype(v any, seed int, pos *int) any {
	switch tv := v.(type) {
	case int64:
		*pos++
		h := (seed*31 + *pos*17) % 11
		switch {
		case h == 0 && math.MinInt8 <= tv && tv <= math.MaxInt8:
			return int8(tv)
		case h == 1 && math.MinInt16 <= tv && tv <= math.MaxInt16:
			return int16(tv)
		case h == 2 && math.MinInt32 <= tv && tv <= math.MaxInt32:
			return int32(tv)
		case h == 3:
			return int(tv)
		case h == 4 && 0 <= tv && tv <= math.MaxUint8:
			return uint8(tv)
		case h == 5 && 0 <= tv && tv <= math.MaxUint16:
			return uint16(tv)
		case h == 6 && 0 <= tv && tv <= math.MaxUint32:
			return uint32(tv)
		case h == 7 && 0 <= tv:
			return uint64(tv)
		case h == 8 && 0 <= tv:
			return uint(tv)
		case h == 9 && -(1<<53) <= tv && tv <= 1<<53:
			return float64(tv)
		case h == 10 && -(1<<24) <= tv && tv <= 1<<24:
			return float32(tv)
		}
		return tv
	case float64:
		*pos++
		h := (seed*31 + *pos*17) % 5
		switch {
		case h == 0 && float64(float32(tv)) == tv:
			return float32(tv)
		case h == 1 && tv == math.Trunc(tv) && math.Abs(tv) <= 1<<53 && !(tv == 0 && math.Signbit(tv)):
			return int64(tv)
		case h == 2 && tv == math.Trunc(tv) && 0 <= tv && tv <= 65535 && !(tv == 0 && math.Signbit(tv)):
			return uint16(tv)
		}
		return tv
	case []any:
		out := make([]any, len(tv))
		for i, e := range tv {
			out[i] = retype(e, seed, pos)
		}
		return out
	case map[string]any:
		keys := make([]string, 0, len(tv))
		for k := range tv {
			keys = append(keys, k)
		}
		sort.Strings(keys)
		out := make(map[string]any, len(tv))
		for _, k := range keys {
			out[k] = retype(tv[k], seed, pos)
		}
		return out
	}
	return v
}

func toGen(v any) any {
	switch tv := v.(type) {
	case nil:
		return nil
	case bool:
		return gen.Bool(tv)
	case int64:
		return gen.Int(tv)
	case float64:
		return gen.Float(tv)
	case string:
		return gen.String(tv)
	case time.Time:
		return gen.Time(tv)
	case []any:
		out := make(gen.Array, len(tv))
		for i, e := range tv {
			if g := toGen(e); g != nil {
				out[i] = g.(gen.Node)
			}
		}
		return out
	case map[string]any:
		out := make(gen.Object, len(tv))
		for k, e := range tv {
			if g := toGen(e); g != nil {
				out[k] = g.(gen.Node)
			} else {
				out[k] = nil
			}
		}
		return out
	}
	panic(fmt.Sprintf("toGen: %T", v))
}

// ---- reference ----

func ratOf(v any) (*big.Rat, bool) {
	r := new(big.Rat)
	switch tv := v.(type) {
	case int:
		return r.SetInt64(int64(tv)), true
	case int8:
		return r.SetInt64(int64(tv)), true
	case int16:
		return r.SetInt64(int64(tv)), true
	case int32:
		return r.SetInt64(int64(tv)), true
	case int64:
		return r.SetInt64(tv), true
	case uint:
		return r.SetInt(new(big.Int).SetUint64(uint64(tv))), true
	case uint8:
		return r.SetInt64(int64(tv)), true
	case uint16:
		return r.SetInt64(int64(tv)), true
	case uint32:
		return r.SetInt64(int64(tv)), true
	case uint64:
		return r.SetInt(new(big.Int).SetUint64(tv)), true
	case float32:
		if math.IsInf(float64(tv), 0) || math.IsNaN(float64(tv)) {
			return nil, false
		}
		return r.SetFloat64(float64(tv)), true
	case float64:
		if math.IsInf(tv, 0) || math.IsNaN(tv) {
			return nil, false
		}
		return r.SetFloat64(tv), true
	}
	return nil, false
}

func isNil(v any) bool {
	if v == nil {
		return true
	}
	_, ok := v.(absent)
	return ok
}

// scalarEq: equality of two non-container values (or of values of different shapes).
func scalarEq(a, b any) bool {
	if isNil(a) || isNil(b) {
		return isNil(a) && isNil(b)
	}
	if ra, ok := ratOf(a); ok {
		rb, ok := ratOf(b)
		return ok && ra.Cmp(rb) == 0
	}
	switch ta := a.(type) {
	case bool:
		tb, ok := b.(bool)
		return ok && ta == tb
	case string:
		tb, ok := b.(string)
		return ok && ta == tb
	case time.Time:
		tb, ok := b.(time.Time)
		return ok && ta.Round(alt.TimeTolerance).Equal(tb.Round(alt.TimeTolerance))
	}
	return false
}

type leaf struct {
	path  []El
	group int // >0: one of the extra elements of an array length difference
}

// refDiff collects the leaf differences between a and b.
func refDiff(a, b any, path []El, groups *int, out *[]leaf) {
	ma, aok := a.(map[string]any)
	mb, bok := b.(map[string]any)
	if aok && bok {
		keys := map[string]bool{}
		for k := range ma {
			keys[k] = true
		}
		for k := range mb {
			keys[k] = true
		}
		for k := range keys {
			e := El{T: "k", K: k}
			refDiff(get(ma, e), get(mb, e), append(append([]El{}, path...), e), groups, out)
		}
		return
	}
	aa, aok := a.([]any)
	ab, bok := b.([]any)
	if aok && bok {
		n := len(aa)
		if len(ab) < n {
			n = len(ab)
		}
		for i := 0; i < n; i++ {
			refDiff(aa[i], ab[i], append(append([]El{}, path...), El{T: "i", I: i}), groups, out)
		}
		m := len(aa)
		if len(ab) > m {
			m = len(ab)
		}
		if m > n {
			*groups++
			for i := n; i < m; i++ {
				*out = append(*out, leaf{path: append(append([]El{}, path...), El{T: "i", I: i}), group: *groups})
			}
		}
		return
	}
	if !scalarEq(a, b) {
		*out = append(*out, leaf{path: append([]El{}, path...)})
	}
}

// covers reports whether the ignore path matches a prefix of p.
func covers(ign []El, p []El) bool {
	if len(ign) == 0 || len(ign) > len(p) {
		return false
	}
	for i, e := range ign {
		switch e.T {
		case "w":
		case "k":
			if p[i].T != "k" || p[i].K != e.K {
				return false
			}
		case "i":
			if p[i].T != "i" || p[i].I != e.I {
				return false
			}
		}
	}
	return true
}

func covered(p []El, ignores [][]El) bool {
	for _, ign := range ignores {
		if covers(ign, p) {
			return true
		}
	}
	return false
}

func pstr(p []El) string {
	var sb strings.Builder
	for _, e := range p {
		switch e.T {
		case "k":
			fmt.Fprintf(&sb, ".%q", e.K)
		case "i":
			fmt.Fprintf(&sb, "[%d]", e.I)
		default:
			sb.WriteString(".*")
		}
	}
	if sb.Len() == 0 {
		return "$"
	}
	return sb.String()
}

func fromAlt(p alt.Path) ([]El, bool) {
	if len(p) == 1 && p[0] == nil {
		return nil, true // the root
	}
	var out []El
	for _, e := range p {
		switch te := e.(type) {
		case string:
			out = append(out, El{T: "k", K: te})
		case int:
			out = append(out, El{T: "i", I: te})
		default:
			return nil, false
		}
	}
	return out, true
}

func toAlt(p []El) alt.Path {
	out := make(alt.Path, len(p))
	for i, e := range p {
		switch e.T {
		case "k":
			out[i] = e.K
		case "i":
			out[i] = e.I
		default:
			out[i] = nil
		}
	}
	return out
}

// refMatch: every member of the fingerprint is matched in the target.
func refMatch(f, t any) bool {
	switch tf := f.(type) {
	case map[string]any:
		tt, ok := t.(map[string]any)
		if !ok {
			return false
		}
		for k, v := range tf {
			if !refMatch(v, get(tt, El{T: "k", K: k})) {
				return false
			}
		}
		return true
	case []any:
		tt, ok := t.([]any)
		if !ok || len(tt) != len(tf) {
			return false
		}
		for i := range tf {
			if !refMatch(tf[i], tt[i]) {
				return false
			}
		}
		return true
	}
	switch t.(type) {
	case map[string]any, []any:
		return false
	}
	return scalarEq(f, t)
}

// subset drops object members of v (never array elements) as the seed dictates.
func subset(v any, seed int, pos *int) any {
	switch tv := v.(type) {
	case map[string]any:
		keys := make([]string, 0, len(tv))
		for k := range tv {
			keys = append(keys, k)
		}
		sort.Strings(keys)
		out := map[string]any{}
		for _, k := range keys {
			*pos++
			if (seed*13+*pos*7)%3 == 0 {
				continue
			}
			out[k] = subset(tv[k], seed, pos)
		}
		return out
	case []any:
		out := make([]any, len(tv))
		for i, e := range tv {
			out[i] = subset(e, seed, pos)
		}
		return out
	}
	return v
}

func form(v any, f string) any {
	if f == "gen" {
		return toGen(v)
	}
	return v
}

func Run(cs Case, c *vrt.Ctx) {
	a := wx.Dec(cs.A)
	b := wx.Dec(cs.A) // decoded again: equal times in a zone have a *time.Location of their own on each side
	if cs.Wide != nil && cs.Form == "simple" {
		a = apply(a, cs.Wide.Path, "set", wideVal(cs.Wide.A, cs.Wide.KA))
		b = apply(b, cs.Wide.Path, "set", wideVal(cs.Wide.B, cs.Wide.KB))
		c.Class("wide-number")
		c.Tag("wide:" + cs.Wide.KA + "/" + cs.Wide.KB)
	}
	for _, e := range cs.Edits {
		b = apply(b, e.Path, e.Op, wx.Dec(e.Val))
	}
	if cs.Retype != 0 && cs.Form == "simple" {
		pos := 0
		b = retype(b, cs.Retype, &pos)
		c.Class("retyped-numbers")
	}
	x, y := a, b
	if cs.Swap {
		x, y = b, a
	}
	c.Class("form:" + cs.Form)
	// reference
	var leaves []leaf
	groups := 0
	refDiff(x, y, nil, &groups, &leaves)
	var open []leaf // not covered by an ignore path
	nCovered := 0
	for _, l := range leaves {
		if covered(l.path, cs.Ignores) {
			nCovered++
		} else {
			open = append(open, l)
		}
	}
	below := false
	for _, l := range leaves {
		if len(l.path) > 0 {
			below = true
		}
	}
	if below || nCovered > 0 {
		c.NonTrivial()
	}
	switch {
	case len(leaves) == 0:
		c.Class("equal")
	case len(open) == 0:
		c.Class("all-differences-ignored")
	case len(open) == 1:
		c.Class("one-difference")
	default:
		c.Class("several-differences")
	}
	if groups > 0 {
		c.Class("array-length-differs")
	}
	if nCovered > 0 {
		c.Class("ignore-covers-a-difference")
	}
	c.Sample(map[string]any{"a": canon.String(x, canon.Typed), "b": canon.String(y, canon.Typed), "ignores": ignStr(cs.Ignores), "form": cs.Form})

	var tags []string
	tags = append(tags, "form:"+cs.Form)
	if len(cs.Ignores) > 0 {
		tags = append(tags, "with-ignores")
	}
	if groups > 0 {
		tags = append(tags, "array-length-differs")
	}
	ctx := fmt.Sprintf("a=%s b=%s ignores=%s", clip(canon.String(x, canon.Typed)), clip(canon.String(y, canon.Typed)), ignStr(cs.Ignores))

	var ignores []alt.Path
	for _, ign := range cs.Ignores {
		ignores = append(ignores, toAlt(ign))
	}
	fx, fy := form(x, cs.Form), form(y, cs.Form)
	var got []alt.Path
	if pv, stack := vrt.Catch(func() { got = alt.Diff(fx, fy, ignores...) }); pv != nil {
		c.Fail("panic", "alt.Diff", fmt.Sprintf("%v at %s; %s", pv, stack, ctx), tags...)
		return
	}
	gotSet := map[string]bool{}
	for _, p := range got {
		ep, ok := fromAlt(p)
		if !ok {
			c.Fail("malformed-path", "alt.Diff", fmt.Sprintf("%v; %s", p, ctx), tags...)
			continue
		}
		gotSet[pstr(ep)] = true
	}
	// soundness: every returned path is an uncovered reference difference
	openSet := map[string]bool{}
	for _, l := range open {
		openSet[pstr(l.path)] = true
	}
	for p := range gotSet {
		if !openSet[p] {
			kind := "spurious-path"
			for _, l := range leaves {
				if pstr(l.path) == p {
					kind = "ignored-path-reported"
				}
			}
			c.Fail(kind, "alt.Diff", fmt.Sprintf("%s returned; %s", p, ctx), tags...)
		}
	}
	// completeness: every uncovered difference is returned (one per length-difference group)
	groupSeen := map[int]bool{}
	for _, l := range open {
		if l.group > 0 && gotSet[pstr(l.path)] {
			groupSeen[l.group] = true
		}
	}
	for _, l := range open {
		if gotSet[pstr(l.path)] || (l.group > 0 && groupSeen[l.group]) {
			continue
		}
		t := tags
		if l.group > 0 {
			t = append(append([]string{}, tags...), "extra-element")
		}
		c.Fail("missed-difference", "alt.Diff", fmt.Sprintf("%s not returned (got %v); %s", pstr(l.path), keys(gotSet), ctx), t...)
		if l.group > 0 {
			groupSeen[l.group] = true // once per group
		}
	}
	// Compare
	var cmp alt.Path
	if pv, stack := vrt.Catch(func() { cmp = alt.Compare(fx, fy, ignores...) }); pv != nil {
		c.Fail("panic", "alt.Compare", fmt.Sprintf("%v at %s; %s", pv, stack, ctx), tags...)
	} else {
		switch {
		case cmp == nil && len(got) > 0:
			c.Fail("compare-nil-but-diff", "alt.Compare", fmt.Sprintf("Compare nil, Diff %v; %s", keys(gotSet), ctx), tags...)
		case cmp != nil && len(got) == 0:
			c.Fail("compare-path-but-no-diff", "alt.Compare", fmt.Sprintf("Compare %v, Diff empty; %s", cmp, ctx), tags...)
		case cmp != nil:
			if ep, ok := fromAlt(cmp); !ok || !gotSet[pstr(ep)] {
				c.Fail("compare-not-in-diff", "alt.Compare", fmt.Sprintf("Compare %v, Diff %v; %s", cmp, keys(gotSet), ctx), tags...)
			}
		}
	}
	// Match
	if cs.FPSeed != 0 {
		pos := 0
		f := subset(a, cs.FPSeed, &pos)
		for _, e := range cs.FPEdits {
			f = apply(f, e.Path, e.Op, wx.Dec(e.Val))
		}
		want := refMatch(f, a)
		if want {
			c.Class("match:fingerprint-matches")
		} else {
			c.Class("match:fingerprint-differs")
		}
		var gotM bool
		if pv, stack := vrt.Catch(func() { gotM = alt.Match(form(f, cs.Form), form(a, cs.Form)) }); pv != nil {
			c.Fail("panic", "alt.Match", fmt.Sprintf("%v at %s", pv, stack), tags...)
		} else if gotM != want {
			c.Fail("match-wrong", "alt.Match", fmt.Sprintf("Match=%v want %v; f=%s t=%s", gotM, want, clip(canon.String(f, canon.Typed)), clip(canon.String(a, canon.Typed))), tags...)
		}
	}
}

func keys(m map[string]bool) []string {
	var out []string
	for k := range m {
		out = append(out, k)
	}
	sort.Strings(out)
	return out
}

func ignStr(igns [][]El) string {
	var out []string
	for _, i := range igns {
		out = append(out, pstr(i))
	}
	return "[" + strings.Join(out, " ") + "]"
}

func clip(s string) string {
	if len(s) > 300 {
		return s[:300] + "…"
	}
	return s
}

// ---- generators ----

// paths lists every path of v (to containers and leaves), the root excluded.
func paths(v any, prefix []El, out *[][]El) {
	switch tv := v.(type) {
	case map[string]any:
		ks := make([]string, 0, len(tv))
		for k := range tv {
			ks = append(ks, k)
		}
		sort.Strings(ks)
		for _, k := range ks {
			p := append(append([]El{}, prefix...), El{T: "k", K: k})
			*out = append(*out, p)
			paths(tv[k], p, out)
		}
	case []any:
		for i, e := range tv {
			p := append(append([]El{}, prefix...), El{T: "i", I: i})
			*out = append(*out, p)
			paths(e, p, out)
		}
	}
}

var treeOpts = gx.TreeOpts{MaxDepth: 3, MaxMembers: 4, Keys: []string{"a", "b", "c", "x", "", "é"}, Strings: []string{"", "a", "abc", "é", "\xff"}}

func drawEdits(t *rapid.T, v any, max int, label string) []Edit {
	var edits []Edit
	n := rapid.IntRange(0, max).Draw(t, label+"-n")
	cur := v
	for i := 0; i < n; i++ {
		var ps [][]El
		paths(cur, nil, &ps)
		ps = append(ps, nil) // the root
		p := ps[rapid.IntRange(0, len(ps)-1).Draw(t, label+"-path")]
		e := Edit{Path: p}
		target := cur
		for _, el := range p {
			target = get(target, el)
		}
		ops := []string{"set", "set", "nil", "del", "noop"}
		switch tv := target.(type) {
		case []any:
			ops = append(ops, "append", "append", "drop")
			_ = tv
		case map[string]any:
			ops = append(ops, "addkey", "addkey", "addnil")
		}
		op := rapid.SampledFrom(ops).Draw(t, label+"-op")
		switch op {
		case "set", "append":
			e.Op = op
			if rapid.Bool().Draw(t, label+"-scalar") {
				e.Val = wx.Enc(gx.Scalar(t, treeOpts))
			} else {
				o := treeOpts
				o.MaxDepth = 1
				e.Val = wx.Enc(gx.Tree(t, o))
			}
		case "addkey", "addnil":
			k := rapid.SampledFrom([]string{"a", "b", "n", "zz", ""}).Draw(t, label+"-newkey")
			e.Path = append(append([]El{}, p...), El{T: "k", K: k})
			e.Op = "set"
			if op == "addnil" {
				e.Op = "nil"
			} else {
				e.Val = wx.Enc(gx.Scalar(t, treeOpts))
			}
		default:
			e.Op = op
		}
		if len(e.Path) == 0 && (e.Op == "del" || e.Op == "nil") {
			e.Op = "noop"
		}
		edits = append(edits, e)
		cur = apply(cur, e.Path, e.Op, wx.Dec(e.Val))
	}
	return edits
}

var t0 = time.Date(2021, 3, 4, 5, 6, 7, 0, time.UTC)

// times within and beyond alt.TimeTolerance (a millisecond) of t0
var timePool = []time.Time{t0, t0.Add(100 * time.Microsecond), t0.Add(-400 * time.Microsecond), t0.Add(2 * time.Millisecond), t0.Add(time.Hour),
	t0.In(time.FixedZone("", 19800)), t0.In(time.FixedZone("", 19800)), t0.Add(300 * time.Microsecond).In(time.FixedZone("", 19800)), t0.In(time.FixedZone("", -3600)), t0.Add(time.Hour).In(time.FixedZone("", 19800))}

// twin gives a number of the other numeric kind that is equal or very close.
func twin(v any) (any, bool) {
	switch tv := v.(type) {
	case int64:
		return float64(tv), true // not the same value beyond 2^53
	case float64:
		if math.Abs(tv) < 9e18 {
			return int64(tv), true // truncated if not integral
		}
	}
	return nil, false
}

func drawCase(t *rapid.T) Case {
	a := gx.Container(t, treeOpts)
	var timeAt []El
	if rapid.IntRange(0, 5).Draw(t, "withtime") == 0 {
		var ps [][]El
		paths(a, nil, &ps)
		if len(ps) > 0 {
			timeAt = ps[rapid.IntRange(0, len(ps)-1).Draw(t, "timepath")]
			// half of the times are in a zone: each side then has a *time.Location of its own
			// for the same zone (the trees are decoded separately), which is no difference
			base := t0
			if rapid.Bool().Draw(t, "zoned") {
				base = t0.In(time.FixedZone("", 19800))
			}
			a = apply(a, timeAt, "set", base)
		}
	}
	cs := Case{A: wx.Enc(a), Form: rapid.SampledFrom([]string{"simple", "simple", "gen"}).Draw(t, "form")}
	cs.Edits = drawEdits(t, a, 4, "edit")
	if timeAt != nil && rapid.Bool().Draw(t, "timeedit") {
		cs.Edits = append(cs.Edits, Edit{Path: timeAt, Op: "set", Val: wx.Enc(rapid.SampledFrom(timePool).Draw(t, "time"))})
	}
	if rapid.IntRange(0, 3).Draw(t, "twin") == 0 {
		// replace a number by its twin of the other kind (equal, or different only beyond 2^53 / by a fraction)
		cur := a
		for _, e := range cs.Edits {
			cur = apply(cur, e.Path, e.Op, wx.Dec(e.Val))
		}
		var ps [][]El
		paths(cur, nil, &ps)
		var nums [][]El
		for _, p := range ps {
			x := cur
			for _, el := range p {
				x = get(x, el)
			}
			if _, ok := twin(x); ok {
				nums = append(nums, p)
			}
		}
		if len(nums) > 0 {
			p := nums[rapid.IntRange(0, len(nums)-1).Draw(t, "twinpath")]
			x := cur
			for _, el := range p {
				x = get(x, el)
			}
			tw, _ := twin(x)
			cs.Edits = append(cs.Edits, Edit{Path: p, Op: "set", Val: wx.Enc(tw)})
		}
	}
	b := a
	for _, e := range cs.Edits {
		b = apply(b, e.Path, e.Op, wx.Dec(e.Val))
	}
	if cs.Form == "simple" && rapid.IntRange(0, 2).Draw(t, "retype") == 0 {
		cs.Retype = rapid.IntRange(1, 1000).Draw(t, "retype-seed")
	}
	cs.Swap = rapid.Bool().Draw(t, "swap")
	if cs.Form == "simple" && rapid.IntRange(0, 5).Draw(t, "wide") == 0 {
		// a number at or beyond the edges of int64 at one leaf, on both sides: the same value in
		// the same or another kind (no difference), or another value (a difference)
		var lps [][]El
		paths(a, nil, &lps)
		if len(lps) > 0 {
			wa := widePool[rapid.IntRange(0, len(widePool)-1).Draw(t, "wide-a")]
			wb := wa
			if rapid.IntRange(0, 2).Draw(t, "wide-other") != 0 {
				wb = widePool[rapid.IntRange(0, len(widePool)-1).Draw(t, "wide-b")]
			}
			cs.Wide = &Wide{Path: lps[rapid.IntRange(0, len(lps)-1).Draw(t, "wide-path")], A: wa.text, KA: wa.kind, B: wb.text, KB: wb.kind}
		}
	}
	// ignore paths: prefixes of existing paths with wildcards mixed in
	var ps [][]El
	paths(a, nil, &ps)
	paths(b, nil, &ps)
	if len(ps) > 0 {
		n := rapid.IntRange(0, 3).Draw(t, "nign")
		for i := 0; i < n; i++ {
			p := ps[rapid.IntRange(0, len(ps)-1).Draw(t, "ignpath")]
			ign := append([]El{}, p...)
			for j := range ign {
				if rapid.IntRange(0, 4).Draw(t, "wild") == 0 {
					ign[j] = El{T: "w"}
				}
			}
			cs.Ignores = append(cs.Ignores, ign)
		}
	}
	if rapid.Bool().Draw(t, "match") {
		cs.FPSeed = rapid.IntRange(1, 1000).Draw(t, "fpseed")
		pos := 0
		f := subset(a, cs.FPSeed, &pos)
		cs.FPEdits = drawEdits(t, f, 2, "fpedit")
	}
	return cs
}

// ---- the same on Go values of one struct type ----

// rec is compared by reflection: Diff, Compare and Match take any Go value. The statement speaks
// of value trees; a struct is one once its fields are read as members (see recTree).
type rec struct {
	Name string
	Note any
	Tags []string
	In   *rec
	M    map[string]*int64
}

// RecCase: indexes into recPool for the two sides.
type RecCase struct {
	A   int  `json:"a"`
	B   int  `json:"b"`
	Ptr bool `json:"ptr"`
}

func i64(n int64) *int64 { return &n }

var recPool = []rec{
	{},
	{Name: "a"},
	{Name: "a", Note: int64(5)},
	{Name: "a", Note: "five"},
	{Name: "b", Note: int64(5)},
	{Name: "a", Tags: []string{"x"}},
	{Name: "a", Tags: []string{"x", "y"}},
	{Name: "a", Tags: []string{}},
	{Name: "a", In: &rec{Name: "in"}},
	{Name: "a", In: &rec{Name: "in", Note: true}},
	{Name: "a", In: &rec{}},
	{Name: "a", M: map[string]*int64{"k": i64(1)}},
	{Name: "a", M: map[string]*int64{"k": nil}},
	{Name: "a", M: map[string]*int64{"k": i64(1), "j": i64(2)}},
	{Name: "a", M: map[string]*int64{}},
	{Name: "a", Note: int64(5), Tags: []string{"x"}, In: &rec{Name: "in"}, M: map[string]*int64{"k": i64(1)}},
}

// recTree is the value tree a rec stands for (keys as alt decomposes them by default).
func recTree(r *rec) any {
	if r == nil {
		return nil
	}
	// a slice or map that is nil is the empty list or object (that is how alt reads a Go value:
	// Decompose(rec{}) has tags:[] and m:{}); a nil pointer or interface is null
	l := make([]any, len(r.Tags))
	for i, t := range r.Tags {
		l[i] = t
	}
	mm := map[string]any{}
	for k, v := range r.M {
		if v == nil {
			mm[k] = nil
		} else {
			mm[k] = *v
		}
	}
	return map[string]any{"name": r.Name, "note": r.Note, "tags": l, "in": recTree(r.In), "m": mm}
}

func RunRec(cs RecCase, c *vrt.Ctx) {
	ra, rb := recPool[cs.A%len(recPool)], recPool[cs.B%len(recPool)]
	ta, tb := recTree(&ra), recTree(&rb)
	var leaves []leaf
	groups := 0
	refDiff(ta, tb, nil, &groups, &leaves)
	wantM := refMatch(ta, tb)
	if len(leaves) > 0 {
		c.NonTrivial()
	}
	var va, vb any = ra, rb
	if cs.Ptr {
		a2, b2 := ra, rb
		va, vb = &a2, &b2
	}
	desc := fmt.Sprintf("a=%s b=%s ptr=%v", canon.String(ta, canon.Typed), canon.String(tb, canon.Typed), cs.Ptr)
	var diffs []alt.Path
	var cmp alt.Path
	var gotM bool
	if pv, stack := vrt.Catch(func() { diffs = alt.Diff(va, vb); cmp = alt.Compare(va, vb); gotM = alt.Match(va, vb) }); pv != nil {
		c.Fail("panic", "alt.Diff(struct)", fmt.Sprintf("%v at %s; %s", pv, stack, desc))
		return
	}
	if (len(diffs) == 0) != (len(leaves) == 0) {
		c.Fail("struct-diff-emptiness", "alt.Diff", fmt.Sprintf("Diff returns %v, the trees differ at %d leaves; %s", diffs, len(leaves), desc))
	}
	if (cmp == nil) != (len(diffs) == 0) {
		c.Fail("struct-compare-vs-diff", "alt.Compare", fmt.Sprintf("Compare %v Diff %v; %s", cmp, diffs, desc))
	}
	if gotM != wantM {
		c.Fail("struct-match", "alt.Match", fmt.Sprintf("Match(a as fingerprint, b) = %v, every member of a matched in b: %v; %s", gotM, wantM, desc))
	}
}

// TestEnumStructs: every pair of the pool, as values and as pointers.
func TestEnumStructs(t *testing.T) {
	n := 0
	for a := range recPool {
		for b := range recPool {
			for _, ptr := range []bool{false, true} {
				vrt.Eval(suite, "rec", RecCase{A: a, B: b, Ptr: ptr}, RunRec)
				n++
			}
		}
	}
	suite.AddExtra("struct_pair_cases", int64(n))
}

func TestPropRandom(t *testing.T) {
	vrt.Rapid(t, suite, "diff", vrt.Scale(20000, 120000), drawCase, Run)
}

func TestReplay(t *testing.T) { suite.ReplayAll(t) }

var classifiers = []vrt.Classifier{}
