// Package c03 decides C03: all parsing front-ends agree, however the input is chunked.
package c03

import (
	"encoding/json"
	"fmt"
	"os"
	"strings"
	"sync"
	"testing"

	"github.com/ohler55/ojg/gen"
	"github.com/ohler55/ojg/oj"
	"github.com/ohler55/ojg/sen"
	"pgregory.net/rapid"

	"verif/internal/canon"
	"verif/internal/cmpx"
	"verif/internal/gx"
	"verif/internal/ref"
	"verif/internal/vet"
	"verif/internal/vrt"
)

var suite = vrt.NewSuite("C03", "(input, chunking, mode): inputs are grammar-generated JSON texts (valid, mutated, padded so a token straddles the 4096-byte refill), multi-document streams and relaxed-syntax SEN texts; chunkings split inside tokens/escapes/numbers, at 1 byte, at 4095/4096/4097. Every participant ([]byte parse, chunked reader parse, tokenizer+alt.Builder, gen.Parser (+Simplify), validator, SEN trio) must produce the same canonical tree or an error in every case; valid JSON results are also matched against the reference decoder. Non-trivial = a chunk boundary or the 4096 refill falls strictly inside a token, or the stream has >=2 documents; distinct = distinct (input, chunking, mode)")

type Case struct {
	Input []byte      `json:"input"`
	Chunk gx.Chunking `json:"chunk"`
	Mode  string      `json:"mode"`           // single | cb | cbbool | chan
	Lang  string      `json:"lang"`           // json | sen
	Enum  bool        `json:"enum,omitempty"` // from the small-scope enumeration (not counted for the generator floors)
	// Veteran: the parsers and tokenizers are instances with a history of earlier calls
	// (internal/vet) instead of fresh ones
	Veteran bool `json:"veteran,omitempty"`
}

func TestMain(m *testing.M) {
	vrt.InitRapid()
	vrt.RegisterReplay(suite, "agree", Run)
	suite.Register(classifiers...)
	suite.Floor("split-inside-token", 0.25, "generated")
	suite.Floor("split-inside-escape", 0.02, "generated")
	suite.Floor("crosses-4096", 0.02, "generated")
	vrt.Main(m, suite)
}

type outcome struct {
	docs []string
	raw  []any
	err  error
	note []string // side discrepancies found inside the participant: "kind|tag|detail"
}

func (o outcome) String() string {
	s := strings.Join(o.docs, " ; ")
	if len(s) > 300 {
		s = s[:300] + "…"
	}
	if o.err != nil {
		return "ERR(" + o.err.Error() + ") after [" + s + "]"
	}
	return "[" + s + "]"
}

func canonDocs(vs []any) []string {
	out := make([]string, len(vs))
	for i, v := range vs {
		out[i] = canon.String(v, canon.Value)
	}
	return out
}

type participant struct {
	name   string
	reader bool
	onlyE  bool // error-ness only (validator)
	f      func(cs Case) outcome
}

// collect: with copyNow a document is copied when the callback gets it (a parser with Reuse
// recycles its maps for the next document, so a callback has to be done with a document when it
// returns; a channel turns Reuse off, what comes through it stays valid)
func collect(mode string, copyNow bool) (args []any, get func() []any) {
	var docs []any
	keep := func(v any) any {
		if copyNow {
			return canon.Copy(v)
		}
		return v
	}
	switch mode {
	case "cb":
		return []any{func(v any) { docs = append(docs, keep(v)) }}, func() []any { return docs }
	case "cbbool":
		return []any{func(v any) bool { docs = append(docs, keep(v)); return false }}, func() []any { return docs }
	case "chan":
		ch := make(chan any, 1<<16)
		return []any{ch}, func() []any {
			close(ch)
			for v := range ch {
				docs = append(docs, v)
			}
			return docs
		}
	}
	return nil, nil
}

func collectGen(mode string, copyNow bool) (args []any, get func() []any) {
	var docs []any
	add := func(n gen.Node) {
		if copyNow && n != nil {
			n = n.Dup()
		}
		docs = append(docs, n)
		if n != nil {
			docs = append(docs, n.Simplify()) // the simplified form must agree as well
		} else {
			docs = append(docs, nil)
		}
	}
	switch mode {
	case "cb":
		return []any{func(n gen.Node) { add(n) }}, func() []any { return docs }
	case "cbbool":
		return []any{func(n gen.Node) bool { add(n); return false }}, func() []any { return docs }
	case "chan":
		ch := make(chan gen.Node, 1<<16)
		return []any{ch}, func() []any {
			close(ch)
			for v := range ch {
				add(v)
			}
			return docs
		}
	}
	return nil, nil
}

func single(v any, err error) outcome {
	if err != nil {
		return outcome{err: err}
	}
	return outcome{docs: []string{canon.String(v, canon.Value)}, raw: []any{v}}
}

func ojParse(reader, reuse bool) func(cs Case) outcome {
	return func(cs Case) outcome {
		p := &oj.Parser{Reuse: reuse}
		if cs.Veteran && !reuse {
			p = vet.OjParser()
		}
		args, get := collect(cs.Mode, reuse && cs.Mode != "chan")
		var v any
		var err error
		if reader {
			v, err = p.ParseReader(cs.Chunk.Reader(cs.Input), args...)
		} else {
			v, err = p.Parse(cs.Input, args...)
		}
		if cs.Mode == "single" {
			return single(v, err)
		}
		raw := get()
		return outcome{docs: canonDocs(raw), raw: raw, err: err}
	}
}

func senParse(reader, reuse bool) func(cs Case) outcome {
	return func(cs Case) outcome {
		p := &sen.Parser{Reuse: reuse}
		if cs.Veteran && !reuse {
			p = vet.SenParser()
		}
		args, get := collect(cs.Mode, reuse && cs.Mode != "chan")
		var v any
		var err error
		if reader {
			v, err = p.ParseReader(cs.Chunk.Reader(cs.Input), args...)
		} else {
			v, err = p.Parse(cs.Input, args...)
		}
		if cs.Mode == "single" {
			return single(v, err)
		}
		raw := get()
		return outcome{docs: canonDocs(raw), raw: raw, err: err}
	}
}

func genParse(reader, reuse bool) func(cs Case) outcome {
	return func(cs Case) outcome {
		p := &gen.Parser{Reuse: reuse}
		if cs.Veteran && !reuse {
			p = vet.GenParser()
		}
		args, get := collectGen(cs.Mode, reuse && cs.Mode != "chan")
		var v gen.Node
		var err error
		if reader {
			v, err = p.ParseReader(cs.Chunk.Reader(cs.Input), args...)
		} else {
			v, err = p.Parse(cs.Input, args...)
		}
		if cs.Mode == "single" {
			if err != nil {
				return outcome{err: err}
			}
			var sv any
			if v != nil {
				sv = v.Simplify()
			}
			o := outcome{docs: []string{canon.String(v, canon.Value)}, raw: []any{canon.Norm(v)}}
			o.note = simplifyNote(v, sv)
			return o
		}
		pairs := get()
		var docs []string
		var raw []any
		var notes []string
		for i := 0; i+1 < len(pairs); i += 2 {
			docs = append(docs, canon.String(pairs[i], canon.Value))
			raw = append(raw, canon.Norm(pairs[i]))
			notes = append(notes, simplifyNote(pairs[i], pairs[i+1])...)
		}
		return outcome{docs: docs, raw: raw, err: err, note: notes}
	}
}

// simplifyNote compares a gen tree with its Simplify() result. gen.Big simplifies
// to a string by documented design (known finding C03-K1); anything else is a defect.
func simplifyNote(g, simplified any) []string {
	a, b := canon.String(g, canon.Value), canon.String(simplified, canon.Value)
	if a == b {
		return nil
	}
	if canon.String(bigToString(canon.Norm(g)), canon.Value) == b {
		return []string{"simplify-differs|only-big-to-string|gen tree " + a + " simplifies to " + b}
	}
	return []string{"simplify-differs|other|gen tree " + a + " simplifies to " + b}
}

func bigToString(v any) any {
	switch tv := v.(type) {
	case json.Number:
		return string(tv)
	case []any:
		for i, e := range tv {
			tv[i] = bigToString(e)
		}
	case map[string]any:
		for k, e := range tv {
			tv[k] = bigToString(e)
		}
	}
	return v
}

type tokenizer interface {
	Parse(buf []byte, h oj.TokenHandler) error
}

func tokenize(kind string, reader bool) func(cs Case) outcome {
	return func(cs Case) outcome {
		h := &cmpx.BuildHandler{}
		var err error
		one := cs.Mode == "single"
		if kind == "oj" {
			t := &oj.Tokenizer{}
			if cs.Veteran {
				t = vet.OjTokenizer()
			}
			t.OnlyOne = one
			if reader {
				err = t.Load(cs.Chunk.Reader(cs.Input), h)
			} else {
				err = t.Parse(cs.Input, h)
			}
		} else {
			t := &sen.Tokenizer{}
			if cs.Veteran {
				t = vet.SenTokenizer()
			}
			t.OnlyOne = one
			if reader {
				err = t.Load(cs.Chunk.Reader(cs.Input), h)
			} else {
				err = t.Parse(cs.Input, h)
			}
		}
		if err == nil && h.Err != nil {
			return outcome{docs: []string{"builder: " + h.Err.Error()}}
		}
		if one {
			if err != nil {
				return outcome{err: err}
			}
			var v any
			if len(h.Docs) > 0 {
				v = h.Docs[0]
			}
			if len(h.Docs) > 1 {
				return outcome{docs: []string{fmt.Sprintf("%d documents in single mode", len(h.Docs))}}
			}
			return single(v, nil)
		}
		return outcome{docs: canonDocs(h.Docs), raw: h.Docs, err: err}
	}
}

var jsonParts = []participant{
	{"oj.Parser.Parse", false, false, ojParse(false, false)},
	{"oj.Parser.ParseReader", true, false, ojParse(true, false)},
	// parsers that recycle their maps: a callback copies what it gets, a channel needs no copy
	{"oj.Parser{Reuse}.Parse", false, false, ojParse(false, true)},
	{"oj.Parser{Reuse}.ParseReader", true, false, ojParse(true, true)},
	{"gen.Parser{Reuse}.Parse", false, false, genParse(false, true)},
	{"gen.Parser{Reuse}.ParseReader", true, false, genParse(true, true)},
	{"oj.Tokenizer.Parse+Builder", false, false, tokenize("oj", false)},
	{"oj.Tokenizer.Load+Builder", true, false, tokenize("oj", true)},
	{"gen.Parser.Parse", false, false, genParse(false, false)},
	{"gen.Parser.ParseReader", true, false, genParse(true, false)},
	{"oj.Validator.Validate", false, true, func(cs Case) outcome {
		v := oj.Validator{OnlyOne: cs.Mode == "single"}
		return outcome{err: v.Validate(cs.Input)}
	}},
	{"oj.Validator.ValidateReader", true, true, func(cs Case) outcome {
		v := oj.Validator{OnlyOne: cs.Mode == "single"}
		return outcome{err: v.ValidateReader(cs.Chunk.Reader(cs.Input))}
	}},
}

var senParts = []participant{
	{"sen.Parser.Parse", false, false, senParse(false, false)},
	{"sen.Parser.ParseReader", true, false, senParse(true, false)},
	{"sen.Parser{Reuse}.Parse", false, false, senParse(false, true)},
	{"sen.Parser{Reuse}.ParseReader", true, false, senParse(true, true)},
	{"sen.Tokenizer.Parse+Builder", false, false, tokenize("sen", false)},
	{"sen.Tokenizer.Load+Builder", true, false, tokenize("sen", true)},
}

func classifySplits(cs Case, c *vrt.Ctx) {
	bounds := cs.Chunk.Boundaries(len(cs.Input))
	if len(bounds) == 0 {
		return
	}
	isB := map[int]bool{}
	for _, b := range bounds {
		isB[b] = true
	}
	// walk documents with the reference machine; restart at document ends
	var m ref.Machine
	inTok, inEsc, cross := false, false, false
	for i, b := range cs.Input {
		if isB[i] && cs.Lang == "json" {
			if m.InToken() {
				inTok = true
				if i == 4096 || i == 8192 {
					cross = true
				}
			}
			if m.InEscape() {
				inEsc = true
			}
		}
		if !m.Feed(b) || (m.Complete() && m.StateName() == "after@top-done") {
			m = ref.Machine{}
		}
	}
	if cs.Lang == "sen" {
		// no reference tokenization for SEN: a boundary next to two non-space bytes counts
		for _, b := range bounds {
			if b > 0 && b < len(cs.Input) && !isSp(cs.Input[b-1]) && !isSp(cs.Input[b]) {
				inTok = true
			}
		}
	}
	if inTok {
		c.Class("split-inside-token")
		c.NonTrivial()
	}
	if inEsc {
		c.Class("split-inside-escape")
	}
	if cross {
		c.Class("crosses-4096")
	}
}

func isSp(b byte) bool { return b == ' ' || b == '\n' || b == '\t' || b == '\r' || b == ',' }

func Run(cs Case, c *vrt.Ctx) {
	if cs.Enum {
		c.Class("enumerated")
	} else {
		c.Class("generated")
	}
	c.Class("lang:" + cs.Lang)
	c.Class("mode:" + cs.Mode)
	if cs.Veteran {
		c.Class("veteran-instances")
	}
	classifySplits(cs, c)
	body, bom := ref.StripBOM(cs.Input)
	if bom {
		c.Class("bom")
	}
	var docs [][]byte
	valid := false
	if cs.Lang == "json" {
		if cs.Mode == "single" {
			v := ref.Scan(body)
			valid = v.Complete
			if valid {
				docs = [][]byte{body}
			}
			if bom && v.Empty {
				c.DontCare("bom-then-nothing")
				return
			}
		} else {
			docs, valid = ref.SplitDocs(body)
			if bom && valid && len(docs) == 0 {
				c.DontCare("bom-then-nothing")
				return
			}
			if len(docs) >= 2 {
				c.Class("multi-doc>=2")
				c.NonTrivial()
			}
		}
	}
	if valid {
		c.Class("ref-valid")
	}
	if cs.Lang == "sen" && senExtension(body) {
		// '+' concatenation, '/* */' comments and token functions 'name(...)' are extensions of
		// sen.Parser that sen.md does not describe and sen.Tokenizer does not implement
		c.DontCare("sen-undocumented-extension")
		return
	}
	parts := senParts
	if cs.Lang == "json" {
		parts = jsonParts
		if valid {
			parts = append(append([]participant(nil), jsonParts...), senParts...)
		}
	}
	c.Sample(map[string]any{"input": clip(cs.Input), "chunk": cs.Chunk, "mode": cs.Mode, "lang": cs.Lang})
	var base *outcome
	var baseName string
	for _, p := range parts {
		var o outcome
		in := cs
		in.Input = gx.Exact(cs.Input)
		pv, stack := vrt.Catch(func() { o = p.f(in) })
		if pv != nil {
			c.Fail("panic", p.name, fmt.Sprintf("%v at %s on %q", pv, stack, clip(cs.Input)))
			continue
		}
		for _, n := range o.note {
			f := strings.SplitN(n, "|", 3)
			c.Fail(f[0], p.name, f[2]+" on "+clip(cs.Input), f[1])
		}
		if p.onlyE {
			if base != nil && (o.err != nil) != (base.err != nil) {
				c.Fail("disagree-error", p.name, fmt.Sprintf("%s: err=%v but %s: %s on %q chunk=%+v", p.name, o.err, baseName, base, clip(cs.Input), cs.Chunk), tagsFor(cs, p)...)
			}
			continue
		}
		if base == nil {
			o2 := o
			base, baseName = &o2, p.name
			// the baseline itself is matched against the reference when the input is valid JSON
			if valid {
				matchRef(cs, c, p.name, docs, o)
			}
			continue
		}
		if (o.err != nil) != (base.err != nil) {
			c.Fail("disagree-error", p.name, fmt.Sprintf("%s: %s but %s: %s on %q chunk=%+v", p.name, o, baseName, base, clip(cs.Input), cs.Chunk), tagsFor(cs, p)...)
			continue
		}
		if !sameDocs(o, *base) {
			c.Fail("disagree-value", p.name, fmt.Sprintf("%s: %s but %s: %s on %q chunk=%+v", p.name, o, baseName, base, clip(cs.Input), cs.Chunk), tagsFor(cs, p)...)
		}
	}
}

// sameDocs: equal canonical text, or (numbers in different admissible forms) equal
// under canon.Same document by document.
func sameDocs(a, b outcome) bool {
	if strings.Join(a.docs, "\x00") == strings.Join(b.docs, "\x00") {
		return true
	}
	if len(a.raw) != len(b.raw) || len(a.raw) != len(a.docs) {
		return false
	}
	for i := range a.raw {
		if !canon.Same(a.raw[i], b.raw[i]) {
			return false
		}
	}
	return true
}

// senExtension reports whether the text uses bytes that only mean something in the
// parser's undocumented extensions, outside of quoted strings and // comments.
func senExtension(b []byte) bool {
	var q byte
	for i := 0; i < len(b); i++ {
		ch := b[i]
		if q != 0 {
			if ch == '\\' {
				i++
			} else if ch == q {
				q = 0
			}
			continue
		}
		switch ch {
		case '"', '\'':
			q = ch
		case '+', '(', ')', '*':
			return true
		case '/':
			if i+1 < len(b) && b[i+1] == '/' {
				for i < len(b) && b[i] != '\n' {
					i++
				}
			} else {
				return true
			}
		}
	}
	return false
}

func tagsFor(cs Case, p participant) []string {
	t := []string{"mode:" + cs.Mode, "lang:" + cs.Lang}
	if p.reader {
		t = append(t, "reader")
	}
	if cs.Lang == "sen" && topLevelComment(cs.Input) {
		t = append(t, "toplevel-comment")
	}
	return t
}

// topLevelComment reports a comment start (// or /*) outside every container: the zone of
// C03-K2.
func topLevelComment(in []byte) bool {
	depth := 0
	var quote byte
	for i := 0; i < len(in); i++ {
		b := in[i]
		if quote != 0 {
			if b == '\\' {
				i++
			} else if b == quote {
				quote = 0
			}
			continue
		}
		switch b {
		case '"', '\'':
			quote = b
		case '[', '{':
			depth++
		case ']', '}':
			depth--
		case '/':
			if depth <= 0 && i+1 < len(in) && (in[i+1] == '/' || in[i+1] == '*') {
				return true
			}
		}
	}
	return false
}

// matchRef compares documents with the reference decoder; discrepancies that are
// C02's known finding (int64 top decade) is not C03's.
func matchRef(cs Case, c *vrt.Ctx, name string, docs [][]byte, o outcome) {
	if o.err != nil {
		c.Fail("reject-valid", name, fmt.Sprintf("%v on %q", o.err, clip(cs.Input)), "mode:"+cs.Mode)
		return
	}
	if len(o.raw) != len(docs) {
		if !(cs.Mode == "single" && len(docs) == 1) {
			c.Fail("doc-count", name, fmt.Sprintf("delivered %d documents, reference %d on %q", len(o.raw), len(docs), clip(cs.Input)), "mode:"+cs.Mode)
			return
		}
	}
	for i, d := range docs {
		n, err := ref.Decode(d)
		if err != nil {
			c.Fail("oracle-defect", "oracle", fmt.Sprintf("split doc does not decode: %v %q", err, d))
			return
		}
		if i >= len(o.raw) {
			break
		}
		var ms []cmpx.Mismatch
		cmpx.MatchTree(n, o.raw[i], "$", &ms)
		for _, m := range ms {
			if m.Kind == "number-inf" || has(m.Tags, "int64-top-decade") {
				c.Class("c02-known-or-dontcare")
				continue
			}
			c.Fail("ref-"+m.Kind, name, m.String()+" in "+clip(cs.Input))
		}
	}
}

func has(tags []string, t string) bool {
	for _, x := range tags {
		if x == t {
			return true
		}
	}
	return false
}

func clip(b []byte) string {
	if len(b) > 240 {
		return string(b[:120]) + "…" + string(b[len(b)-100:])
	}
	return string(b)
}

// tokenCuts returns offsets strictly inside multi-byte tokens, inside escapes first.
func tokenCuts(data []byte) []int {
	var m ref.Machine
	var esc, tok []int
	for i, b := range data {
		if i > 0 {
			if m.InEscape() {
				esc = append(esc, i)
			} else if m.InToken() {
				tok = append(tok, i)
			}
		}
		if !m.Feed(b) || (m.Complete() && m.StateName() == "after@top-done") {
			m = ref.Machine{}
		}
	}
	// weight escapes: they are rarer
	out := append([]int(nil), tok...)
	for k := 0; k < 3; k++ {
		out = append(out, esc...)
	}
	return out
}

func drawCase(t *rapid.T) Case {
	cs := Case{Lang: "json", Mode: "single"}
	o := gx.DefaultText
	form := rapid.IntRange(0, 12).Draw(t, "form")
	switch {
	case form <= 3: // valid single document
		cs.Input = gx.JSONText(t, o)
	case form <= 5: // mutated
		cs.Input = gx.Mutate(t, gx.JSONText(t, o))
	case form <= 7: // padded so that a token straddles 4096
		o.MaxDepth = 2
		tail := gx.JSONText(t, gx.TextOpts{MaxDepth: 1, MaxMembers: 3, TopScalarOK: false, BigExp: true, LoneSurr: true})
		var tok string
		switch rapid.IntRange(0, 3).Draw(t, "stradtok") {
		case 0:
			tok = gx.StringLit(t, o)
		case 1:
			tok = gx.NumberLit(t, true)
		case 2:
			tok = rapid.SampledFrom([]string{"null", "true", "false"}).Draw(t, "lit")
		default:
			tok = `"é😀\n\\"`
		}
		if len(tok) < 2 {
			tok = "12345"
		}
		inside := rapid.IntRange(1, len(tok)-1).Draw(t, "inside")
		padLen := 4096 - inside - 1
		cs.Input = []byte("[" + strings.Repeat(" ", padLen) + tok + "," + string(tail) + "]")
		cs.Chunk = gx.Chunking{Sizes: []int{rapid.SampledFrom([]int{0, 4096, 5000}).Draw(t, "fullbuf")}}
		if rapid.Bool().Draw(t, "mut") {
			cs.Input = gx.Mutate(t, cs.Input)
		}
		return cs
	case form <= 10: // multi-document stream
		cs.Mode = rapid.SampledFrom([]string{"cb", "cbbool", "chan"}).Draw(t, "mode")
		n := rapid.IntRange(1, 5).Draw(t, "ndocs")
		var sb []byte
		for i := 0; i < n; i++ {
			o2 := o
			o2.MaxDepth = 2
			d := gx.JSONText(t, o2)
			d = []byte(strings.TrimSpace(string(d)))
			if i > 0 {
				prev := sb[len(sb)-1]
				glue := (prev == ']' || prev == '}' || prev == '"') && rapid.IntRange(0, 2).Draw(t, "glue") == 0
				if !glue {
					sb = append(sb, rapid.SampledFrom([]string{" ", "\n", "\r\n", "  \t "}).Draw(t, "sep")...)
				}
			}
			sb = append(sb, d...)
		}
		if rapid.IntRange(0, 3).Draw(t, "tailws") == 0 {
			sb = append(sb, '\n')
		}
		if rapid.IntRange(0, 4).Draw(t, "mmut") == 0 {
			sb = gx.Mutate(t, sb)
		}
		cs.Input = sb
	default: // SEN
		cs.Lang = "sen"
		// valid by construction (documented sen.md grammar), optionally truncated: sen.md does not
		// define the error language beyond JSON's and sen.Parser has undocumented extensions, so
		// arbitrary malformed SEN has no arbiter (DESIGN.md C03 Z)
		cs.Input = gx.SENText(t, 3)
		if rapid.IntRange(0, 5).Draw(t, "strunc") == 0 && len(cs.Input) > 1 {
			cs.Input = cs.Input[:rapid.IntRange(1, len(cs.Input)-1).Draw(t, "stpos")]
		}
	}
	if rapid.IntRange(0, 25).Draw(t, "bom") == 0 {
		cs.Input = append([]byte{0xEF, 0xBB, 0xBF}, cs.Input...)
	}
	var cuts []int
	if cs.Lang == "json" {
		cuts = tokenCuts(cs.Input)
	} else {
		for i := 1; i < len(cs.Input); i++ {
			if !isSp(cs.Input[i-1]) && !isSp(cs.Input[i]) {
				cuts = append(cuts, i)
			}
		}
	}
	cs.Chunk = gx.DrawChunking(t, len(cs.Input), cuts)
	cs.Veteran = rapid.IntRange(0, 3).Draw(t, "veteran") == 0
	return cs
}

func TestPropRandom(t *testing.T) {
	vrt.Rapid(t, suite, "agree", vrt.Scale(15000, 100000), drawCase, Run)
}

func TestReplay(t *testing.T) { suite.ReplayAll(t) }

// Small-scope enumeration: every sequence of up to four (thorough: five) tokens over a SEN /
// JSON token alphabet, split into 1, 2 and 3 byte reads, in single and callback mode. Chunk
// agreement is a differential, it needs no arbiter of the SEN language, so malformed input is
// in scope here (the byte by byte paths of the SEN parser and tokenizer are separate code
// from the whole-buffer scans and only malformed or unusual sequences tell them apart).
var enumTokens = []string{"a", "A0", "0", "-1", "1.5", ":", " ", ",", "[", "]", "{", "}", `"s"`, "'q'", "!", "+", "(", ")", "null", "tru", "\n", "/", "#", "x:", "`", "|"}

func TestEnumSmall(t *testing.T) {
	max, langs, sizes := 3, []string{"sen"}, []int{1, 2}
	if vrt.Thorough() {
		max, langs, sizes = 4, []string{"sen", "json"}, []int{1, 2, 3}
	}
	var mu sync.Mutex
	total := 0
	vrt.Workers(func(si, sn int) {
		n := 0
		var rec func(prefix []byte, depth, idx int)
		rec = func(prefix []byte, depth, idx int) {
			if depth > 0 {
				for _, lang := range langs {
					for _, mode := range []string{"single", "cb"} {
						for _, sz := range sizes {
							if len(prefix) <= sz {
								continue
							}
							vrt.Eval(suite, "agree", Case{Input: append([]byte(nil), prefix...), Chunk: gx.Chunking{Sizes: []int{sz}}, Mode: mode, Lang: lang, Enum: true}, Run)
							n++
						}
					}
				}
			}
			if depth == max {
				return
			}
			for i, tok := range enumTokens {
				if depth == 0 && i%sn != si {
					continue
				}
				rec(append(append([]byte(nil), prefix...), tok...), depth+1, i)
			}
		}
		rec(nil, 0, 0)
		// the same inside containers (one token less deep)
		cmax := max - 1
		for _, cx := range [][2]string{{"[", "]"}, {"{", "}"}, {"{k:", "}"}, {"[1 ", ""}, {"{k:1 ", "}"}} {
			var recx func(mid []byte, depth int)
			recx = func(mid []byte, depth int) {
				if depth > 0 {
					in := append(append([]byte(cx[0]), mid...), cx[1]...)
					for _, lang := range langs {
						for _, mode := range []string{"single", "cb"} {
							for _, sz := range sizes {
								vrt.Eval(suite, "agree", Case{Input: in, Chunk: gx.Chunking{Sizes: []int{sz}}, Mode: mode, Lang: lang, Enum: true}, Run)
								n++
							}
						}
					}
				}
				if depth == cmax {
					return
				}
				for i, tok := range enumTokens {
					if depth == 0 && i%sn != si {
						continue
					}
					recx(append(append([]byte(nil), mid...), tok...), depth+1)
				}
			}
			recx(nil, 0)
		}
		mu.Lock()
		total += n
		mu.Unlock()
	})
	suite.AddExtra("smallscope_cases", int64(total))
}

func FuzzChunks(f *testing.F) {
	f.Add([]byte(`{"a":[1,2.5e3,"xé\n",null,true,false],"b":{}}`), uint8(1), uint8(0))
	f.Add([]byte(`[1] [2] "a" 3 `), uint8(3), uint8(1))
	f.Add([]byte(`{a:b c:[1 2 'x y']}`), uint8(2), uint8(4))
	f.Fuzz(func(t *testing.T, data []byte, sz uint8, mode uint8) {
		cs := Case{Input: data, Lang: "json", Mode: []string{"single", "cb", "cbbool", "chan"}[int(mode)%4], Enum: true} // Enum: not counted for the generator floors
		if mode&4 != 0 {
			cs.Lang = "sen"
		}
		if sz > 0 {
			cs.Chunk = gx.Chunking{Sizes: []int{int(sz%16) + 1}, EOFWithData: sz&16 != 0}
		}
		c := &vrt.Ctx{}
		Run(cs, c)
		bad := suite.Finish("agree", c, func() []byte { b, _ := json.Marshal(cs); return b })
		if len(bad) > 0 {
			if dir := os.Getenv("VERIF_FUZZ_OUT"); dir != "" {
				cj, _ := json.Marshal(cs)
				b, _ := json.Marshal(vrt.Violation{Prop: "agree", Case: cj, Discs: bad})
				_ = os.WriteFile(dir+"/fuzz-violation.json", b, 0o644)
			}
			t.Fatalf("%s@%s: %s", bad[0].Kind, bad[0].Where, bad[0].Detail)
		}
	})
}

var classifiers = []vrt.Classifier{
	// C03-K2: comments outside every container. sen.Parser in single document mode rejects a
	// comment after the document ("extra characters after close, '/'") that sen.Tokenizer
	// accepts, and a top level number or bare token directly followed by a comment is dropped
	// or delivered depending on the entry point and the chunking ("0//c" gives nil without an
	// error from Parse, 0 from the tokenizer; "a//" gives a from Parse and nothing from a one
	// byte reader); sen.Tokenizer in single document mode takes the end of a comment in front
	// of the document for the end of the document ("//\na": extra characters after close).
	{ID: "C03-K2", Match: func(d vrt.Disc, c *vrt.Ctx) bool {
		return (d.Kind == "disagree-value" || d.Kind == "disagree-error") && has(d.Tags, "lang:sen") && has(d.Tags, "toplevel-comment")
	}},
	// C03-K1: gen.Big.Simplify() returns a string (documented: "Simplify the Node into a
	// string"), so a big number parsed by gen.Parser and simplified is a string where
	// oj.Parser returns a json.Number.
	{ID: "C03-K1", Match: func(d vrt.Disc, c *vrt.Ctx) bool {
		return d.Kind == "simplify-differs" && has(d.Tags, "only-big-to-string")
	}},
}
