// Package c13 decides C13: path mutations touch exactly the selected locations.
package c13

import (
	"fmt"
	"os"
	"sort"
	"strconv"
	"strings"
	"sync/atomic"
	"testing"

	"github.com/ohler55/ojg"
	"github.com/ohler55/ojg/alt"
	"github.com/ohler55/ojg/gen"
	"github.com/ohler55/ojg/jp"
	"pgregory.net/rapid"

	"verif/internal/canon"
	"verif/internal/jpx"
	"verif/internal/vrt"
	"verif/internal/wx"
)

var suite = vrt.NewSuite("C13", "(path recipe, data tree, operation, value | modifier): Set/SetOne/Del/DelOne/Remove/RemoveOne/Modify/ModifyOne with the last fragment drawn from what each operation admits (plus a share of inadmissible ones for the error path) on simple and gen data. Oracle: S = reference selection of the path on a deep copy taken before; for Del/Remove/Modify the expected tree is computed exactly by the reference (members deleted, array elements nulled by Del and removed simultaneously by Remove, modifier applied at each location) and must be canon-equal to the outcome; for Set every previously selected location holds the value, Get(path) afterwards returns only the value, and the frame holds (every pre-existing scalar outside S and its descendants unchanged, no pre-existing container loses members; also after an error); *One forms must equal the expected tree for exactly one member of S; impossible requests must be errors, never panics; gen data must give the same outcome (not compared for a *One form whose selection passes through a map with several members); plus an exhaustive matrix of slices x array lengths x operations x positions. Non-trivial = S non-empty and a location outside S and its descendants exists; distinct = distinct (op, path, data, value)")

type Case struct {
	Op   string   `json:"op"` // set setone del delone remove removeone modify modifyone
	Path jpx.Path `json:"path"`
	Data any      `json:"data"`
	Val  any      `json:"val,omitempty"`
	Mod  string   `json:"mod,omitempty"` // marker same wrap
	Gen  bool     `json:"gen,omitempty"`
	// User: the same operation is also run on the tree held in user-defined jp.Keyed /
	// jp.RemovableIndexed collections
	User bool `json:"user,omitempty"`
}

func TestMain(m *testing.M) {
	vrt.InitRapid()
	vrt.RegisterReplay(suite, "mutate", Run)
	suite.Register(classifiers...)
	vrt.Main(m, suite)
}

var keepAll = &ojg.Options{}

const marker = "«MARK»"

func pathKey(p []any) string {
	var sb strings.Builder
	for _, s := range p {
		switch ts := s.(type) {
		case string:
			sb.WriteString("." + strconv.Quote(ts))
		case int:
			sb.WriteString("[" + strconv.Itoa(ts) + "]")
		}
	}
	return sb.String()
}

// dedupe S and detect nesting (a location together with one of its descendants).
func normalize(locs []jpx.Loc) (out []jpx.Loc, nested bool) {
	seen := map[string]bool{}
	for _, l := range locs {
		k := pathKey(l.Path)
		if !seen[k] {
			seen[k] = true
			out = append(out, l)
		}
	}
	keys := make([]string, 0, len(seen))
	for k := range seen {
		keys = append(keys, k)
	}
	for _, a := range keys {
		for _, b := range keys {
			if a != b && strings.HasPrefix(b, a) && (len(b) == len(a) || b[len(a)] == '.' || b[len(a)] == '[') {
				nested = true
			}
		}
	}
	return
}

// at returns the parent container and last step of a location in tree.
func parentOf(root any, path []any) (parent any, ok bool) {
	cur := root
	for _, s := range path[:len(path)-1] {
		switch ts := s.(type) {
		case string:
			m, isMap := cur.(map[string]any)
			if !isMap {
				return nil, false
			}
			cur = m[ts]
		case int:
			a, isArr := cur.([]any)
			if !isArr || ts >= len(a) {
				return nil, false
			}
			cur = a[ts]
		}
	}
	return cur, true
}

// apply computes the expected tree for op on a deep copy of before, for the locations locs.
// The root is wrapped so that the root itself can be replaced.
func apply(before any, locs []jpx.Loc, op string, cs Case) any {
	wrap := []any{canon.Copy(before)}
	// group removals per parent (simultaneous)
	type rm struct {
		parent []any
		idx    map[int]bool
	}
	removals := map[string]*rm{}
	for _, l := range locs {
		full := append([]any{0}, l.Path...)
		parent, ok := parentOf(any(wrap), full)
		if !ok {
			continue
		}
		last := full[len(full)-1]
		switch tp := parent.(type) {
		case map[string]any:
			k := last.(string)
			switch op {
			case "del", "remove":
				delete(tp, k)
			case "set":
				tp[k] = wx.Dec(cs.Val)
			case "modify":
				tp[k] = modValue(tp[k], cs.Mod)
			}
		case []any:
			i := last.(int)
			switch op {
			case "del":
				tp[i] = nil
			case "set":
				tp[i] = wx.Dec(cs.Val)
			case "modify":
				tp[i] = modValue(tp[i], cs.Mod)
			case "remove":
				pk := pathKey(full[:len(full)-1])
				if removals[pk] == nil {
					removals[pk] = &rm{parent: full[:len(full)-1], idx: map[int]bool{}}
				}
				removals[pk].idx[i] = true
			}
		}
	}
	// perform array removals, deepest parents first so paths stay valid
	keys := make([]string, 0, len(removals))
	for k := range removals {
		keys = append(keys, k)
	}
	sort.Slice(keys, func(i, j int) bool { return len(removals[keys[i]].parent) > len(removals[keys[j]].parent) })
	for _, k := range keys {
		r := removals[k]
		gp, ok := parentOf(any(wrap), r.parent)
		if !ok {
			continue
		}
		var arr []any
		last := r.parent[len(r.parent)-1]
		switch tg := gp.(type) {
		case map[string]any:
			arr, _ = tg[last.(string)].([]any)
		case []any:
			arr, _ = tg[last.(int)].([]any)
		}
		var kept []any
		for i, e := range arr {
			if !r.idx[i] {
				kept = append(kept, e)
			}
		}
		if kept == nil {
			kept = []any{}
		}
		switch tg := gp.(type) {
		case map[string]any:
			tg[last.(string)] = kept
		case []any:
			tg[last.(int)] = kept
		}
	}
	return wrap[0]
}

func modValue(v any, mod string) any {
	switch mod {
	case "wrap":
		return []any{v}
	case "same":
		return v
	case "null":
		return nil
	}
	return marker
}

func modifier(mod string, count *int) func(any) (any, bool) {
	return func(e any) (any, bool) {
		*count++
		switch mod {
		case "same":
			return e, false
		case "wrap":
			return []any{e}, true
		case "null":
			// the new value is null: the location stays, also when it is a member of a map
			return nil, true
		}
		return marker, true
	}
}

// leaves lists every pre-existing scalar location and container shape.
func leaves(v any, path []any, out map[string]string) {
	switch tv := v.(type) {
	case []any:
		out[pathKey(path)] = fmt.Sprintf("array>=%d", 0)
		for i, e := range tv {
			leaves(e, append(append([]any(nil), path...), i), out)
		}
	case map[string]any:
		out[pathKey(path)] = "map"
		for k, e := range tv {
			leaves(e, append(append([]any(nil), path...), k), out)
		}
	default:
		out[pathKey(path)] = canon.String(v, canon.Value)
	}
}

func under(key string, sel []string) bool {
	for _, s := range sel {
		if key == s || (strings.HasPrefix(key, s) && (key[len(s)] == '.' || key[len(s)] == '[')) {
			return true
		}
	}
	return false
}

// frame: every pre-existing scalar outside S (and its descendants) is unchanged, containers
// outside S stay containers of the same kind.
func frame(before, after any, sel []string, allowShift bool) string {
	b, a := map[string]string{}, map[string]string{}
	leaves(before, nil, b)
	leaves(after, nil, a)
	for k, v := range b {
		if under(k, sel) {
			continue
		}
		if allowShift {
			// Remove shifts array indexes: positions at or below an array that lost elements move
			anc := false
			for _, s := range sel {
				if i := strings.LastIndexByte(s, '['); i >= 0 && strings.HasSuffix(s, "]") && strings.HasPrefix(k, s[:i]) && k != s[:i] {
					anc = true
				}
			}
			if anc {
				continue
			}
		}
		got, ok := a[k]
		if !ok {
			return fmt.Sprintf("bystander %s (%s) disappeared", k, v)
		}
		if got != v {
			return fmt.Sprintf("bystander %s changed from %s to %s", k, v, got)
		}
	}
	return ""
}

// ---- user-defined collections (jp.Keyed, jp.RemovableIndexed) ----

type keyed struct {
	keys []string
	m    map[string]any
}

func (k *keyed) ValueForKey(key string) (any, bool) { v, ok := k.m[key]; return v, ok }
func (k *keyed) SetValueForKey(key string, v any) {
	if _, ok := k.m[key]; !ok {
		k.keys = append(k.keys, key)
	}
	k.m[key] = v
}
func (k *keyed) RemoveValueForKey(key string) {
	delete(k.m, key)
	for i, x := range k.keys {
		if x == key {
			k.keys = append(k.keys[:i], k.keys[i+1:]...)
			break
		}
	}
}
func (k *keyed) Keys() []string  { return append([]string(nil), k.keys...) }
func (k *keyed) CanonValue() any { return k.m }

type indexed struct{ a []any }

func (x *indexed) ValueAtIndex(i int) any {
	if i < 0 || i >= len(x.a) {
		return nil
	}
	return x.a[i]
}
func (x *indexed) SetValueAtIndex(i int, v any) { x.a[i] = v }
func (x *indexed) RemoveValueAtIndex(i int)     { x.a = append(x.a[:i], x.a[i+1:]...) }
func (x *indexed) Size() int                    { return len(x.a) }
func (x *indexed) CanonValue() any              { return x.a }

func wrapUser(v any) any {
	switch tv := v.(type) {
	case []any:
		out := make([]any, len(tv))
		for i, e := range tv {
			out[i] = wrapUser(e)
		}
		return &indexed{out}
	case map[string]any:
		k := &keyed{m: map[string]any{}}
		keys := make([]string, 0, len(tv))
		for key := range tv {
			keys = append(keys, key)
		}
		sort.Strings(keys)
		for _, key := range keys {
			k.SetValueForKey(key, wrapUser(tv[key]))
		}
		return k
	}
	return v
}

func baseOp(op string) (string, bool) {
	one := strings.HasSuffix(op, "one")
	return strings.TrimSuffix(op, "one"), one
}

type outcome struct {
	root any
	err  error
	pv   any
	st   string
	mods int
}

func execute(cs Case, data any) (o outcome) {
	x := cs.Path.Build()
	val := wx.Dec(cs.Val)
	mod := modifier(cs.Mod, &o.mods)
	if _, isGen := data.(gen.Node); isGen {
		// on gen data the modifier has to hand back gen nodes
		inner := mod
		mod = func(e any) (any, bool) {
			v, ch := inner(e)
			if arr, ok := v.([]any); ok && len(arr) == 1 {
				n, _ := arr[0].(gen.Node)
				return gen.Array{n}, ch
			}
			if g := alt.Generify(v, keepAll); g != nil {
				return g, ch
			}
			return v, ch
		}
	}
	o.root = data
	o.pv, o.st = vrt.Catch(func() {
		switch cs.Op {
		case "set":
			o.err = x.Set(data, val)
		case "setone":
			o.err = x.SetOne(data, val)
		case "del":
			o.err = x.Del(data)
		case "delone":
			o.err = x.DelOne(data)
		case "remove":
			o.root, o.err = x.Remove(data)
		case "removeone":
			o.root, o.err = x.RemoveOne(data)
		case "modify":
			o.root, o.err = x.Modify(data, mod)
		case "modifyone":
			o.root, o.err = x.ModifyOne(data, mod)
		}
	})
	return
}

func Run(cs Case, c *vrt.Ctx) {
	before := wx.Dec(cs.Data)
	res := jpx.Eval(cs.Path, before)
	extra := ""
	if hasKind(cs.Path, "slice") && res.DontCare == "" && !notExecuted(cs) {
		// C13-K1 is attributed only where reading the slices the way the mutation code of this
		// operation reads them (jpx.EvalMutationReading) explains the whole outcome, possibly
		// together with another recorded finding - anything else that goes wrong on a path
		// with a slice is reported
		reading := 1 // jp/modify.go
		switch op, _ := baseOp(cs.Op); op {
		case "remove":
			reading = 2 // Slice.remove for the last fragment
		case "set", "del":
			reading = 3 // jp/set.go
		}
		alt := jpx.EvalMutationReading(cs.Path, before, reading)
		if alt.DontCare != "" {
			// under the mutation reading the path reaches a zone the statement leaves open
			// (a negative-step slice with a start beyond the end inside a filter, say): the
			// emulation can not be exact there either
			extra = "explained-by-mutation-slice-reading"
		} else {
			c2 := &vrt.Ctx{}
			runWith(cs, c2, before, alt, "", reading)
			explained := true
			for _, d := range c2.Discs() {
				if !otherFinding(d, c2) { // what remains must be one of the other recorded findings
					explained = false
				}
			}
			if explained {
				extra = "explained-by-mutation-slice-reading"
			} else if os.Getenv("VERIF_DEBUG_ALT") != "" {
				for _, d := range c2.Discs() {
					fmt.Printf("ALT%d %s@%s %s\n", reading, d.Kind, d.Where, clipN(d.Detail, 400))
				}
			}
		}
	}
	runWith(cs, c, before, res, extra, 0)
}

func otherFinding(d vrt.Disc, c *vrt.Ctx) bool {
	for _, k := range classifiers {
		if k.ID != "C13-K1" && k.Match(d, c) {
			return true
		}
	}
	return false
}

// executeMust runs the Must form of the operation; a panic is its way to report an error.
func executeMust(cs Case, data any) (root any, panicked any) {
	x := cs.Path.Build()
	val := wx.Dec(cs.Val)
	n := 0
	mod := modifier(cs.Mod, &n)
	root = data
	defer func() { panicked = recover() }()
	switch cs.Op {
	case "set":
		x.MustSet(data, val)
	case "setone":
		x.MustSetOne(data, val)
	case "del":
		x.MustDel(data)
	case "delone":
		x.MustDelOne(data)
	case "remove":
		root = x.MustRemove(data)
	case "removeone":
		root = x.MustRemoveOne(data)
	case "modify":
		root = x.MustModify(data, mod)
	case "modifyone":
		root = x.MustModifyOne(data, mod)
	}
	return
}

// interleavingExplains: the mutation operations select while they change (C13-K7). With a filter
// that refers to $ the changes made for one parent can stop the filter from matching for the
// next one. That, and only that, is accepted here: every selected location that was left as it
// was is no longer selected when the path is evaluated on the outcome. (Remove from arrays
// shifts the indices, so there the outcome can not be questioned location by location.)
func interleavingExplains(cs Case, after any, S []jpx.Loc, op string) bool {
	if op == "remove" {
		for _, l := range S {
			if len(l.Path) > 0 {
				if _, isIndex := l.Path[len(l.Path)-1].(int); isIndex {
					return true
				}
			}
		}
	}
	still := map[string]bool{}
	for _, l := range jpx.Eval(cs.Path, after).Locs {
		still[pathKey(l.Path)] = true
	}
	for _, l := range S {
		r := jpx.Eval(locPath(l.Path), after)
		untouched := len(r.Locs) == 1 && canon.String(r.Locs[0].Val, canon.Value) == canon.String(l.Val, canon.Value)
		if untouched && still[pathKey(l.Path)] {
			return false
		}
	}
	return true
}

// notExecuted: the case falls under the C13-K4 exclusion (see runWith).
func notExecuted(cs Case) bool {
	op, _ := baseOp(cs.Op)
	if op == "set" && countKind(cs.Path, "descent") >= 1 {
		switch wx.Dec(cs.Val).(type) {
		case map[string]any, []any:
			return true
		}
	}
	return op == "modify" && cs.Mod == "wrap" && countKind(cs.Path, "descent") >= 2
}

func clipN(s string, n int) string {
	if len(s) > n {
		return s[:n]
	}
	return s
}

// runWith judges one case against the selection res; reading != 0 means res was computed under
// one of the mutation-code slice readings (C13-K1) - then Get on the outcome, which reads slices
// the documented way, is not consulted.
func runWith(cs Case, c *vrt.Ctx, before any, res *jpx.Result, extraTag string, reading int) {
	beforeCanon := canon.String(before, canon.Value)
	S, nested := normalize(res.Locs)
	// the root itself is not a mutable location for the in-place operations
	rootSelected := false
	for _, l := range S {
		if len(l.Path) == 0 {
			rootSelected = true
		}
	}
	op, one := baseOp(cs.Op)
	x := cs.Path.Build()
	desc := fmt.Sprintf("%s %s (%s) on %s", cs.Op, cs.Path, x.String(), beforeCanon)
	if op == "set" {
		desc += " value " + canon.String(wx.Dec(cs.Val), canon.Value)
	}
	if op == "modify" {
		desc += " modifier " + cs.Mod
	}
	c.Class("op:" + cs.Op)
	if len(cs.Path) > 0 {
		c.Class("last:" + cs.Path[len(cs.Path)-1].K)
	}
	sel := make([]string, len(S))
	for i, l := range S {
		sel[i] = pathKey(l.Path)
	}
	b := map[string]string{}
	leaves(before, nil, b)
	outside := false
	for k := range b {
		if !under(k, sel) && k != "" {
			outside = true
		}
	}
	if len(S) > 0 && outside {
		c.NonTrivial()
	}
	tags := []string{"op:" + cs.Op}
	if len(cs.Path) > 0 {
		tags = append(tags, "last:"+cs.Path[len(cs.Path)-1].K)
	}
	for _, f := range cs.Path {
		if f.K == "descent" || f.K == "filter" || f.K == "slice" || f.K == "union" || f.K == "wild" {
			tags = append(tags, "has:"+f.K)
		}
	}
	if res.Feat["filter-uses-root"] {
		tags = append(tags, "filter-uses-root")
	}
	if extraTag != "" {
		tags = append(tags, extraTag)
	}
	sort.Strings(tags)
	c.Sample(map[string]any{"op": cs.Op, "path": cs.Path.String(), "data": beforeCanon, "selected": sel})

	if op == "set" && countKind(cs.Path, "descent") >= 1 {
		isCont := false
		switch wx.Dec(cs.Val).(type) {
		case map[string]any, []any:
			isCont = true
		}
		if isCont {
			// known finding C13-K4: never terminates (the inserted map is descended into and
			// receives itself as a member); not executed, counted
			c.Fail("hang-by-construction", "jp."+cs.Op, desc+": Set of a container value through a descent can fail to terminate (not executed)", "set-descent-container-value")
			return
		}
	}
	if (op == "modify" || op == "modifyone") && cs.Mod == "wrap" && countKind(cs.Path, "descent") >= 2 {
		// same root cause as C13-K4: the container the modifier returns is descended into again
		// and its content modified again; with two or more descents the number of modifier
		// calls explodes (6 -> 18 -> 65554 -> millions on a five node document) and the call
		// does not return in any useful time; not executed, counted
		c.Fail("hang-by-construction", "jp."+cs.Op, desc+": Modify with a modifier that wraps the value, through several descents, does not return (not executed)", "set-descent-container-value")
		return
	}
	data := canon.Copy(before)
	o := execute(cs, data)
	if o.pv != nil {
		c.Fail("panic", "jp."+cs.Op, fmt.Sprintf("%v at %s; %s", o.pv, o.st, desc), tags...)
		return
	}
	after := o.root
	if op == "set" || op == "del" {
		after = data
	}
	afterCanon := canon.String(after, canon.Value)
	if reading == 0 && !one && res.Feat["filter-uses-root"] && o.err == nil && res.DontCare == "" && interleavingExplains(cs, after, S, op) {
		tags = append(append([]string(nil), tags...), "explained-by-selection-on-changed-data")
		sort.Strings(tags)
	}

	if res.DontCare != "" {
		c.DontCare(res.DontCare)
		return
	}
	if o.err != nil {
		c.Class("error-returned")
		if reading == 0 && !(one && !res.Ordered) {
			if _, mpanic := executeMust(cs, canon.Copy(before)); mpanic == nil {
				c.Fail("must-form-differs", "jp.Must"+cs.Op, fmt.Sprintf("%s: the error form returned %v, the Must form did not panic", desc, o.err), tags...)
			}
		}
		// an error may leave created empties behind, never a changed bystander
		if op == "set" || op == "del" {
			if msg := frame(before, after, sel, false); msg != "" {
				c.Fail("frame-broken-on-error", "jp."+cs.Op, fmt.Sprintf("%s: error %v but %s; after %s", desc, o.err, msg, afterCanon), tags...)
			}
		}
		return
	}
	if rootSelected || nested || len(S) != len(res.Locs) {
		// the root itself, a location together with one of its descendants, or the same location
		// selected twice (union duplicates, double descent): visit order/count is unspecified
		c.DontCare("root-nested-or-duplicate-selection(frame only)")
		if msg := frame(before, after, sel, op == "remove"); msg != "" && !rootSelected {
			c.Fail("frame-broken", "jp."+cs.Op, fmt.Sprintf("%s: %s; after %s", desc, msg, afterCanon), tags...)
		}
		return
	}
	switch op {
	case "del", "remove", "modify":
		if !one {
			want := canon.String(apply(before, S, op, cs), canon.Value)
			if afterCanon != want {
				c.Fail("wrong-result", "jp."+cs.Op, fmt.Sprintf("%s: selected %v; got %s want %s", desc, sel, afterCanon, want), tags...)
			}
			if op == "modify" && o.mods != len(S) {
				c.Fail("modifier-calls", "jp."+cs.Op, fmt.Sprintf("%s: modifier called %d times for %d selected locations %v", desc, o.mods, len(S), sel), tags...)
			}
		} else {
			if len(S) == 0 || (op == "modify" && cs.Mod == "same") {
				if afterCanon != beforeCanon {
					c.Fail("wrong-result", "jp."+cs.Op, fmt.Sprintf("%s: nothing to change but got %s", desc, afterCanon), tags...)
				}
				break
			}
			ok := false
			for _, l := range S {
				if canon.String(apply(before, []jpx.Loc{l}, op, cs), canon.Value) == afterCanon {
					ok = true
					break
				}
			}
			if !ok {
				if afterCanon == beforeCanon {
					c.Fail("one-changed-none", "jp."+cs.Op, fmt.Sprintf("%s: selected %v but nothing changed", desc, sel), tags...)
				} else {
					c.Fail("one-wrong-result", "jp."+cs.Op, fmt.Sprintf("%s: selected %v; got %s which is not 'exactly one of them changed'", desc, sel, afterCanon), tags...)
				}
			}
		}
	case "set":
		val := canon.String(wx.Dec(cs.Val), canon.Value)
		if msg := frame(before, after, sel, false); msg != "" {
			c.Fail("frame-broken", "jp."+cs.Op, fmt.Sprintf("%s: %s; after %s", desc, msg, afterCanon), tags...)
			break
		}
		if !one {
			// every previously selected location now holds the value
			for _, l := range S {
				r2 := jpx.Eval(locPath(l.Path), after)
				if len(r2.Locs) != 1 || canon.String(r2.Locs[0].Val, canon.Value) != val {
					c.Fail("set-missed", "jp."+cs.Op, fmt.Sprintf("%s: selected location %s does not hold the value afterwards; after %s", desc, pathKey(l.Path), afterCanon), tags...)
					break
				}
			}
			// Get(path) afterwards returns only the value (selected or created locations)
			var got []any
			if pv, st := vrt.Catch(func() { got = x.Get(after) }); pv != nil {
				c.Fail("panic", "Get(after set)", fmt.Sprintf("%v at %s; %s", pv, st, desc), tags...)
				break
			}
			if reading == 0 && !hasKind(cs.Path, "filter") && !hasKind(cs.Path, "descent") { // a filter or descent may select differently once the values changed
				for _, g := range got {
					if canon.String(g, canon.Value) != val {
						c.Fail("get-after-set", "jp."+cs.Op, fmt.Sprintf("%s: Get afterwards returns %s; after %s", desc, canon.String(g, canon.Value), afterCanon), tags...)
						break
					}
				}
				if len(got) == 0 && onlyChildNth(cs.Path) {
					c.Fail("set-silent-noop", "jp."+cs.Op, fmt.Sprintf("%s: Set succeeded but Get afterwards returns nothing; after %s", desc, afterCanon), tags...)
				}
			}
		} else if len(S) > 0 {
			changed := 0
			for _, l := range S {
				r2 := jpx.Eval(locPath(l.Path), after)
				was := canon.String(l.Val, canon.Value)
				if len(r2.Locs) == 1 && canon.String(r2.Locs[0].Val, canon.Value) != was {
					changed++
				}
			}
			if changed > 1 {
				c.Fail("one-changed-many", "jp."+cs.Op, fmt.Sprintf("%s: %d of the selected locations %v changed; after %s", desc, changed, sel, afterCanon), tags...)
			}
		}
	}
	if cs.User && reading == 0 {
		runUser(cs, c, before, res, o, afterCanon, desc, tags)
	}
	if reading == 0 && !(one && !res.Ordered) {
		// the Must forms are the same operations that panic instead of returning the error
		md := canon.Copy(before)
		mroot, mpanic := executeMust(cs, md)
		ma := mroot
		if op == "set" || op == "del" {
			ma = md
		}
		switch {
		case (mpanic != nil) != (o.err != nil):
			c.Fail("must-form-differs", "jp.Must"+cs.Op, fmt.Sprintf("%s: the error form returned %v, the Must form panicked with %v", desc, o.err, mpanic), tags...)
		case mpanic == nil:
			if m := canon.String(ma, canon.Value); m != afterCanon {
				c.Fail("must-form-differs", "jp.Must"+cs.Op, fmt.Sprintf("%s: error form %s Must form %s", desc, afterCanon, m), tags...)
			}
		}
	}
	// same outcome on gen data
	if cs.Gen {
		c.Class("gen")
		var gd any
		if g := alt.Generify(before, keepAll); g != nil {
			gd = g
		}
		og := execute(cs, gd)
		switch {
		case og.pv != nil:
			c.Fail("panic", "jp."+cs.Op+"(gen)", fmt.Sprintf("%v at %s; %s", og.pv, og.st, desc), append(tags, "gen")...)
		case one && !res.Ordered:
			// a *One form through a map wildcard / descent acts on whichever member the map
			// hands out first, and that may be one where the rest of the path is an impossible
			// request and one where it is not: the two runs need not agree
			c.Class("gen-one-unordered(not compared)")
		case (og.err != nil) != (o.err != nil):
			c.Fail("gen-error-differs", "jp."+cs.Op+"(gen)", fmt.Sprintf("%s: simple err=%v gen err=%v", desc, o.err, og.err), append(tags, "gen")...)
		case og.err == nil:
			ga := og.root
			if op == "set" || op == "del" {
				ga = gd
			}
			if g := canon.String(ga, canon.Value); g != afterCanon && !one {
				c.Fail("gen-differs", "jp."+cs.Op+"(gen)", fmt.Sprintf("%s: simple %s gen %s", desc, afterCanon, g), append(tags, "gen")...)
			}
		}
	}
}

// runUser: the outcome on user-defined collections that hold the same tree. The statement
// names simple and gen data; jp.Keyed / jp.RemovableIndexed exist so that other containers can
// stand in for them, so the result has to be the same tree here too. Compared for Del, Remove
// and Modify (Set creates plain maps and slices along a new path, which is not the same thing)
// when the simple run succeeded and the selection has an order.
func runUser(cs Case, c *vrt.Ctx, before any, res *jpx.Result, simple outcome, afterCanon, desc string, tags []string) {
	op, one := baseOp(cs.Op)
	if op == "set" || simple.err != nil || (one && !res.Ordered) || cs.Mod == "wrap" {
		return
	}
	if res.Feat["compares-container"] {
		// == / != on whole containers: user collections are pointers, which compare by identity
		c.DontCare("container-comparison-on-user-types")
		return
	}
	c.Class("user-collections")
	ud := wrapUser(canon.Copy(before))
	ou := execute(cs, ud)
	tags = append(append([]string(nil), tags...), "user-collections")
	switch {
	case ou.pv != nil:
		c.Fail("panic", "jp."+cs.Op+"(user)", fmt.Sprintf("%v at %s; %s", ou.pv, ou.st, desc), tags...)
	case ou.err != nil:
		c.Fail("user-error-differs", "jp."+cs.Op+"(user)", fmt.Sprintf("%s: simple err=<nil> user collections err=%v", desc, ou.err), tags...)
	default:
		ua := ou.root
		if op == "del" {
			ua = ud
		}
		if u := canon.String(ua, canon.Value); u != afterCanon && !one {
			c.Fail("user-differs", "jp."+cs.Op+"(user)", fmt.Sprintf("%s: simple %s user collections %s", desc, afterCanon, u), tags...)
		}
	}
}

// onlyChildNth: the whole path can be created by Set (child and index steps only).
func onlyChildNth(p jpx.Path) bool {
	for _, f := range p {
		switch f.K {
		case "child", "root", "at", "bracket":
		case "nth":
			if f.N < 0 {
				return false
			}
		default:
			return false
		}
	}
	return true
}

func countKind(p jpx.Path, k string) int {
	n := 0
	for _, f := range p {
		if f.K == k {
			n++
		}
	}
	return n
}

func hasKind(p jpx.Path, k string) bool {
	for _, f := range p {
		if f.K == k {
			return true
		}
	}
	return false
}

func locPath(steps []any) jpx.Path {
	p := jpx.Path{{K: "root"}}
	for _, s := range steps {
		switch ts := s.(type) {
		case string:
			p = append(p, jpx.Frag{K: "child", Key: ts})
		case int:
			p = append(p, jpx.Frag{K: "nth", N: ts})
		}
	}
	return p
}

var admits = map[string][]string{
	"set":    {"child", "child", "nth", "nth", "wild", "union"},
	"del":    {"child", "child", "nth", "nth", "wild", "union"},
	"remove": {"child", "child", "nth", "nth", "wild", "union", "slice", "slice", "filter"},
	"modify": {"child", "child", "nth", "nth", "wild", "union", "slice", "filter"},
}

func drawCase(t *rapid.T) Case {
	cs := Case{Op: rapid.SampledFrom([]string{"set", "setone", "del", "delone", "remove", "removeone", "modify", "modifyone"}).Draw(t, "op")}
	data := jpx.DrawData(t, 4)
	if _, ok := data.([]any); !ok {
		if _, ok2 := data.(map[string]any); !ok2 {
			data = map[string]any{"a": data, "b": jpx.DrawData(t, 3), "c": []any{jpx.DrawData(t, 2), jpx.DrawData(t, 2)}}
		}
	}
	op, _ := baseOp(cs.Op)
	o := jpx.PathOpts{MaxFrags: 4, FilterDepth: 1, LastAdmit: admits[op], NoTrailingDescent: true}
	if rapid.IntRange(0, 9).Draw(t, "inadmissible") == 0 {
		o.LastAdmit = []string{"slice", "filter", "descent"}
		if op == "modify" || op == "remove" {
			o.LastAdmit = []string{"descent"}
		}
		o.NoTrailingDescent = false
	}
	cs.Path = jpx.DrawPath(t, o)
	cs.Data = wx.Enc(data)
	cs.Val = wx.Enc(rapid.SampledFrom([]any{"NEW", int64(42), nil, true, []any{int64(1)}, map[string]any{"n": int64(1)}, 2.5}).Draw(t, "val"))
	cs.Mod = rapid.SampledFrom([]string{"marker", "marker", "same", "wrap", "null"}).Draw(t, "mod")
	cs.Gen = rapid.IntRange(0, 2).Draw(t, "gen") == 0
	cs.User = rapid.IntRange(0, 2).Draw(t, "user") == 0
	return cs
}

// TestEnumSlices is exhaustive over a small scope: every slice (0 to 3 numbers, bounds -4..4
// (thorough -7..7) and "no end", steps -3..3) on arrays of 0..5 (thorough 0..6) elements, as the
// last fragment of Remove / Modify and followed by a child or index step for all eight
// operations, on simple and gen data, at the root (thorough: and one level down). The mutation code has three readings of a slice
// (C13-K1); a change to any of them that the general generator meets only with luck (a step of
// 3 on an array long enough) is met here by construction.
func TestEnumSlices(t *testing.T) {
	lo, hi, maxLen, levels := -4, 4, 5, []bool{false}
	if vrt.Thorough() {
		lo, hi, maxLen, levels = -7, 7, 6, []bool{false, true}
	}
	var slices [][]int
	slices = append(slices, nil)
	for a := lo; a <= hi; a++ {
		slices = append(slices, []int{a})
		ends := []int{jpx.MaxEnd}
		for b := lo; b <= hi; b++ {
			ends = append(ends, b)
		}
		for _, b := range ends {
			slices = append(slices, []int{a, b})
			for st := -3; st <= 3; st++ {
				slices = append(slices, []int{a, b, st})
			}
		}
	}
	type shape struct {
		name string
		ops  []string
		tail []jpx.Frag
		elem func(i int) any
	}
	all := []string{"set", "setone", "del", "delone", "remove", "removeone", "modify", "modifyone"}
	shapes := []shape{
		{"last", []string{"remove", "removeone", "modify", "modifyone"}, nil, func(i int) any {
			if i == 1 {
				return map[string]any{"a": int64(1)}
			}
			return int64(i)
		}},
		{"child", all, []jpx.Frag{{K: "child", Key: "a"}}, func(i int) any { return map[string]any{"a": int64(i), "z": true} }},
		{"nth", all, []jpx.Frag{{K: "nth", N: 0}}, func(i int) any { return []any{int64(i), int64(i + 10)} }},
	}
	var n atomic.Int64
	vrt.Workers(func(wi, wn int) {
		idx := 0
		for _, sh := range shapes {
			for size := 0; size <= maxLen; size++ {
				arr := make([]any, size)
				for i := range arr {
					arr[i] = sh.elem(i)
				}
				for _, nested := range levels {
					var data any = arr
					head := jpx.Path{{K: "root"}}
					if nested {
						data = map[string]any{"k": arr, "other": "x"}
						head = jpx.Path{{K: "root"}, {K: "child", Key: "k"}}
					}
					enc := wx.Enc(data)
					for _, sl := range slices {
						for _, op := range sh.ops {
							for _, variant := range []int{0, 1, 2} { // simple only, + gen, + user collections
								idx++
								if idx%wn != wi {
									continue
								}
								p := append(append(jpx.Path{}, head...), jpx.Frag{K: "slice", S: sl})
								p = append(p, sh.tail...)
								vrt.Eval(suite, "mutate", Case{Op: op, Path: p, Data: enc, Val: wx.Enc("NEW"), Mod: "marker", Gen: variant == 1, User: variant == 2}, Run)
								n.Add(1)
							}
						}
					}
				}
			}
		}
	})
	suite.AddExtra("slice_matrix_cases", n.Load())
	suite.Extra("slice_matrix_exhaustive_over", fmt.Sprintf("%d slices (0-3 numbers, bounds %d..%d and no end, steps -3..3) x array lengths 0..%d x {last fragment of remove/modify(+One), then .a, then [0] for all 8 operations} x %d level(s) x {simple, gen, user collections}", len(slices), lo, hi, maxLen, len(levels)))
}

// TestEnumUnions is exhaustive over a small scope: every union of two members drawn from the
// indices -3..3 and the keys a, b, on arrays of 0..4 elements and on a two member map, as the
// last fragment and followed by a child or index step, for all eight operations, on simple, gen
// and user-collection data. Unions have their own remove / removeOne code per container type.
func TestEnumUnions(t *testing.T) {
	i := func(n int) *int { return &n }
	k := func(s string) *string { return &s }
	var members []jpx.UItem
	for n := -3; n <= 3; n++ {
		members = append(members, jpx.UItem{Idx: i(n)})
	}
	members = append(members, jpx.UItem{Key: k("a")}, jpx.UItem{Key: k("b")})
	elem := func(n int) any { return map[string]any{"a": int64(n), "z": []any{int64(n), int64(n + 10)}} }
	var datas []any
	for size := 0; size <= 4; size++ {
		arr := make([]any, size)
		for j := range arr {
			arr[j] = elem(j)
		}
		datas = append(datas, arr)
	}
	datas = append(datas, map[string]any{"a": elem(7), "b": elem(8), "c": elem(9)})
	all := []string{"set", "setone", "del", "delone", "remove", "removeone", "modify", "modifyone"}
	tails := [][]jpx.Frag{nil, {{K: "child", Key: "a"}}, {{K: "child", Key: "z"}, {K: "nth", N: 0}}}
	var n atomic.Int64
	vrt.Workers(func(wi, wn int) {
		idx := 0
		for _, data := range datas {
			enc := wx.Enc(data)
			for _, m1 := range members {
				for _, m2 := range members {
					for _, tail := range tails {
						for _, op := range all {
							for _, variant := range []int{0, 1, 2} {
								idx++
								if idx%wn != wi {
									continue
								}
								p := append(jpx.Path{{K: "root"}, {K: "union", U: []jpx.UItem{m1, m2}}}, tail...)
								vrt.Eval(suite, "mutate", Case{Op: op, Path: p, Data: enc, Val: wx.Enc("NEW"), Mod: "marker", Gen: variant == 1, User: variant == 2}, Run)
								n.Add(1)
							}
						}
					}
				}
			}
		}
	})
	suite.AddExtra("union_matrix_cases", n.Load())
	suite.Extra("union_matrix_exhaustive_over", fmt.Sprintf("%d x %d union members (indices -3..3, keys a b) x %d containers x %d continuations x 8 operations x {simple, gen, user collections}", len(members), len(members), len(datas), len(tails)))
}

// TestEnumDescentAfter: every operation through a descent that starts from several elements at
// once (after a wildcard, union, slice, filter or another descent), on trees where the matches
// lie at different depths below different elements.
func TestEnumDescentAfter(t *testing.T) {
	m := func(kv ...any) map[string]any {
		out := map[string]any{}
		for i := 0; i+1 < len(kv); i += 2 {
			out[kv[i].(string)] = kv[i+1]
		}
		return out
	}
	i := func(n int) *int { return &n }
	k := func(s string) *string { return &s }
	datas := []any{
		[]any{m("c", int64(1)), m("b", m("a", int64(5))), m("a", int64(6), "c", m("a", int64(7)))},
		[]any{m("c", m("c", int64(1))), m("c", int64(2)), m("b", []any{m("a", int64(5))}), []any{m("a", int64(8))}},
		m("a", m("c", int64(1)), "b", m("b", m("a", int64(5))), "c", []any{m("a", int64(8))}),
		[]any{[]any{int64(1), int64(2)}, []any{m("a", int64(5))}, m("a", []any{m("a", int64(9))})},
		[]any{m("c", int64(1)), m("b", []any{int64(3), []any{int64(4), int64(5)}}), []any{[]any{int64(6)}}},
	}
	all := &jpx.Eq{Op: "neq", L: &jpx.Eq{Op: "get", P: jpx.Path{{K: "at"}}}, R: &jpx.Eq{Op: "const", CK: "int", CI: 99}}
	heads := [][]jpx.Frag{
		{{K: "wild"}}, {{K: "union", U: []jpx.UItem{{Idx: i(0)}, {Idx: i(1)}}}}, {{K: "union", U: []jpx.UItem{{Idx: i(0)}, {Idx: i(1)}, {Idx: i(2)}, {Idx: i(3)}}}},
		{{K: "union", U: []jpx.UItem{{Key: k("a")}, {Key: k("b")}, {Key: k("c")}}}}, {{K: "slice", S: []int{0, 2}}}, {{K: "slice", S: nil}},
		{{K: "filter", F: all}}, {{K: "wild"}, {K: "wild"}}, {{K: "nth", N: 1}}, {},
	}
	tails := [][]jpx.Frag{{{K: "child", Key: "a"}}, {{K: "nth", N: 0}}, {{K: "nth", N: -1}}, {{K: "child", Key: "a"}, {K: "nth", N: 0}}, {{K: "union", U: []jpx.UItem{{Key: k("a")}, {Idx: i(1)}}}}, {{K: "child", Key: "b"}, {K: "child", Key: "a"}}}
	ops := []string{"set", "setone", "del", "delone", "remove", "removeone", "modify", "modifyone"}
	var n atomic.Int64
	vrt.Workers(func(wi, wn int) {
		idx := 0
		for _, d := range datas {
			enc := wx.Enc(d)
			for _, h := range heads {
				for _, tail := range tails {
					for _, op := range ops {
						for _, variant := range []int{0, 1, 2} {
							idx++
							if idx%wn != wi {
								continue
							}
							p := append(append(append(jpx.Path{{K: "root"}}, h...), jpx.Frag{K: "descent"}), tail...)
							vrt.Eval(suite, "mutate", Case{Op: op, Path: p, Data: enc, Val: wx.Enc("NEW"), Mod: "marker", Gen: variant == 1, User: variant == 2}, Run)
							n.Add(1)
						}
					}
				}
			}
		}
	})
	suite.AddExtra("descent_after_matrix_cases", n.Load())
}

// TestEnumOneForms is exhaustive over a small scope: the *One operations on paths that fan out
// over several parents (wildcard, union, slice or descent first) each of which holds locations
// the last fragment selects - "at most one location" is then a statement about the whole call,
// not about one parent. Every kind of last fragment, arrays and maps as parents, simple, gen and
// user-collection data.
func TestEnumOneForms(t *testing.T) {
	i := func(n int) *int { return &n }
	k := func(s string) *string { return &s }
	gt0 := &jpx.Eq{Op: "gt", L: &jpx.Eq{Op: "get", P: jpx.Path{{K: "at"}}}, R: &jpx.Eq{Op: "const", CK: "int", CI: 0}}
	fans := []jpx.Path{
		{{K: "root"}, {K: "wild"}},
		{{K: "root"}, {K: "union", U: []jpx.UItem{{Idx: i(0)}, {Idx: i(2)}}}},
		{{K: "root"}, {K: "slice", S: []int{1}}},
		{{K: "root"}, {K: "descent"}, {K: "child", Key: "p"}},
		{{K: "root"}, {K: "wild"}, {K: "child", Key: "p"}},
	}
	lasts := []jpx.Frag{
		{K: "wild"}, {K: "nth", N: 0}, {K: "nth", N: -1}, {K: "child", Key: "a"},
		{K: "union", U: []jpx.UItem{{Idx: i(0)}, {Idx: i(1)}}}, {K: "union", U: []jpx.UItem{{Key: k("a")}, {Key: k("b")}}},
		{K: "slice", S: []int{0, 2}}, {K: "filter", F: gt0},
	}
	arr := func(n int64) any { return []any{n, n + 1, n + 2} }
	obj := func(n int64) any { return map[string]any{"a": n, "b": n + 1} }
	datas := []any{
		[]any{arr(1), arr(4), arr(7)},
		[]any{obj(1), obj(4), obj(7)},
		[]any{map[string]any{"p": arr(1)}, map[string]any{"p": arr(4)}, map[string]any{"p": obj(7)}},
	}
	n := 0
	for _, data := range datas {
		enc := wx.Enc(data)
		for _, fan := range fans {
			for _, last := range lasts {
				for _, op := range []string{"setone", "delone", "removeone", "modifyone", "set", "del", "remove", "modify"} {
					for _, variant := range []int{0, 1, 2} {
						p := append(append(jpx.Path{}, fan...), last)
						vrt.Eval(suite, "mutate", Case{Op: op, Path: p, Data: enc, Val: wx.Enc("NEW"), Mod: "marker", Gen: variant == 1, User: variant == 2}, Run)
						n++
					}
				}
			}
		}
	}
	suite.AddExtra("one_form_matrix_cases", int64(n))
	suite.Extra("one_form_matrix_exhaustive_over", fmt.Sprintf("%d fan-outs x %d last fragments x %d trees x 8 operations x {simple, gen, user collections}", len(fans), len(lasts), len(datas)))
}

// TestEnumSelfReadingFilters: a filter as last fragment that reads the very collection the operation
// changes ($[-1], $[0], $.k[1] ... inside the filter): what is selected is decided on the data as it
// was before the call, for every element, whatever the operation does to the collection while it
// goes through it - on simple, gen and user-collection data, at the root and one level down.
func TestEnumSelfReadingFilters(t *testing.T) {
	at := &jpx.Eq{Op: "get", P: jpx.Path{{K: "at"}}}
	rootAt := func(frags ...jpx.Frag) *jpx.Eq {
		return &jpx.Eq{Op: "get", P: append(jpx.Path{{K: "root"}}, frags...)}
	}
	n := 0
	for _, nested := range []bool{false, true} {
		var pre []jpx.Frag
		head := jpx.Path{{K: "root"}}
		if nested {
			pre = []jpx.Frag{{K: "child", Key: "k"}}
			head = jpx.Path{{K: "root"}, {K: "child", Key: "k"}}
		}
		sel := func(f jpx.Frag) *jpx.Eq { return rootAt(append(append([]jpx.Frag{}, pre...), f)...) }
		filters := []*jpx.Eq{
			{Op: "eq", L: at, R: sel(jpx.Frag{K: "nth", N: -1})}, {Op: "eq", L: at, R: sel(jpx.Frag{K: "nth", N: 0})}, {Op: "neq", L: at, R: sel(jpx.Frag{K: "nth", N: 1})},
			{Op: "lt", L: at, R: sel(jpx.Frag{K: "nth", N: -1})}, {Op: "gte", L: at, R: sel(jpx.Frag{K: "nth", N: 2})}, {Op: "eq", L: at, R: sel(jpx.Frag{K: "wild"})},
		}
		for _, arr := range [][]any{{int64(1), int64(2), int64(1), int64(2)}, {int64(3), int64(1), int64(2)}, {int64(2), int64(2)}, {int64(5)}, {}} {
			var data any = arr
			if nested {
				data = map[string]any{"k": arr, "other": int64(2)}
			}
			enc := wx.Enc(data)
			for _, f := range filters {
				for _, op := range []string{"remove", "removeone", "modify", "modifyone", "del", "delone", "set", "setone"} {
					for _, variant := range []int{0, 1, 2} {
						p := append(append(jpx.Path{}, head...), jpx.Frag{K: "filter", F: f})
						vrt.Eval(suite, "mutate", Case{Op: op, Path: p, Data: enc, Val: wx.Enc("NEW"), Mod: "marker", Gen: variant == 1, User: variant == 2}, Run)
						n++
					}
				}
			}
		}
	}
	suite.AddExtra("self_reading_filter_cases", int64(n))
}

func TestPropRandom(t *testing.T) {
	vrt.Rapid(t, suite, "mutate", vrt.Scale(30000, 200000), drawCase, Run)
}

func TestReplay(t *testing.T) { suite.ReplayAll(t) }

var _ = jp.R

func has(d vrt.Disc, t string) bool {
	for _, x := range d.Tags {
		if x == t {
			return true
		}
	}
	return false
}

var classifiers = []vrt.Classifier{
	// C13-K1: Set, Del, Remove and Modify (and their One forms) treat the end of a slice as
	// inclusive and do not clamp bounds, so through a slice they touch other elements than Get
	// selects ($[1:3] removes three elements). jp/set_test.go pins this for Set ($[0:1].x sets
	// two elements), so the mutation family can not be aligned with Get without editing tests.
	{ID: "C13-K1", Match: func(d vrt.Disc, c *vrt.Ctx) bool {
		return has(d, "has:slice") && has(d, "explained-by-mutation-slice-reading")
	}},
	// C13-K4: Set of a container value through a descent can fail to return: the value is
	// inserted by reference and then descended into ($....a with a map receives itself as member
	// "a"; $....* with [1] nests forever). The harness does not execute Set with a descent and a
	// container value, it only counts such cases.
	{ID: "C13-K4", Match: func(d vrt.Disc, c *vrt.Ctx) bool { return has(d, "set-descent-container-value") }},
	// C13-K5: Set returns nil without doing anything when a child step meets an array or scalar
	// (or an index step meets a map) on simple data, instead of reporting the impossible request.
	{ID: "C13-K5", Match: func(d vrt.Disc, c *vrt.Ctx) bool { return d.Kind == "set-silent-noop" }},
	// C13-K7: the mutation operations change the data while they are still selecting, so a
	// filter evaluated for a node that a descent reaches later sees what was already changed
	// (Del $..[?(@.x.b == @[-2].*)].* on {a:[0 {a:2} 0]} first deletes a[1].a, after which the
	// filter matches a itself and all three elements are nulled, where Get selects a[1].a only).
	{ID: "C13-K7", Match: func(d vrt.Disc, c *vrt.Ctx) bool {
		if has(d, "has:descent") && has(d, "has:filter") {
			return true
		}
		// without a descent: several parents and a filter that refers to $ - attributed only to
		// outcomes in which locations were left out, each of which the filter no longer selects
		// on the outcome (interleavingExplains)
		return has(d, "explained-by-selection-on-changed-data") && d.Kind != "frame-broken" && d.Kind != "panic" && !strings.HasPrefix(d.Kind, "gen-") && !strings.HasPrefix(d.Kind, "user-") && !strings.HasPrefix(d.Kind, "must-")
	}},
}
