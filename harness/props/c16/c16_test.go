// Package c16 decides C16: Decompose/Recompose and Marshal/Unmarshal are inverse on
// user types, whatever other types the recomposer has seen before.
package c16

import (
	"fmt"
	"reflect"
	"regexp"
	"sort"
	"strconv"
	"strings"
	"testing"

	"github.com/ohler55/ojg"
	"github.com/ohler55/ojg/alt"
	"github.com/ohler55/ojg/oj"
	"github.com/ohler55/ojg/sen"
	"pgregory.net/rapid"

	"verif/internal/canon"
	"verif/internal/tyx"
	"verif/internal/tyx/pa"
	"verif/internal/tyx/pb"
	"verif/internal/vrt"
	"verif/internal/wx"
)

var suite = vrt.NewSuite("C16", "(sequence of 1-4 subjects, route): a subject is a struct type with a value - an anonymous type synthesised with reflect.StructOf from a generated recipe (as in C15), or a named type from a catalogue that contains embedded structs, every tag form and two pairs of types with the same short name in different packages (pa.Item / pb.Item, pa.Box / pb.Box) and ten holder types whose only mention of a leaf struct type is one field (first, middle, last; pointer, slice, array, map, value, nested) while an interface field holds a value of that leaf type. The subjects are sent through one recomposer in the generated order (a fresh *alt.Recomposer, or the process wide alt.DefaultRecomposer reset at the start of the case) by one of the routes alt.Decompose->Recompose, oj.Marshal->oj.Unmarshal, oj.Marshal->sen.Unmarshal. Oracles: (round trip) the result is deeply equal to the original with nil and empty slices / maps identified and fields tagged json:\"-\" zeroed on the tag routes; (history) the outcome for every subject equals the outcome of the same trip through a recomposer that has seen nothing else. Non-trivial = at least two subjects of distinct types, or one subject with a nested struct, pointer, map or embedded struct; distinct = distinct (subjects, route)")

// Subject is one type with a value.
type Subject struct {
	Named string     `json:"named,omitempty"` // "" = anonymous type from Type
	Index int        `json:"index,omitempty"` // sample number for named types
	Type  *tyx.TypeR `json:"type,omitempty"`
}

type Case struct {
	Subjects []Subject `json:"subjects"`
	Route    string    `json:"route"`             // decompose | marshal | sen
	Default  bool      `json:"default,omitempty"` // use alt.DefaultRecomposer (reset first) instead of a fresh *Recomposer
	UseTags  bool      `json:"usetags,omitempty"` // decompose route: options for alt.Decompose
	KeyExact bool      `json:"keyexact,omitempty"`
	// FullPath: the decompose route writes type names with their package path (two types of
	// different packages that share a short name are then told apart)
	FullPath bool `json:"fullpath,omitempty"`
}

var namedKinds = []string{"pa.Item", "pb.Item", "pa.Box", "pb.Box", "pb.Holder", "pa.Emb", "tyx.Inner", "tyx.WithEmbed", "tyx.Deep", "tyx.Tags", "tyx.Nums"}

func init() {
	// holders: types whose leaf type a recomposer learns from one field only (internal/tyx/holders.go)
	for _, n := range tyx.HolderNames {
		namedKinds = append(namedKinds, "tyx."+n)
	}
}

func TestMain(m *testing.M) {
	vrt.InitRapid()
	vrt.RegisterReplay(suite, "trip", Run)
	suite.Register(classifiers...)
	vrt.Main(m, suite)
}

// build returns a pointer to a fresh copy of the subject's value.
func build(s Subject, types map[int]reflect.Type, i int) (ptr any, ok bool) {
	if s.Named == "" {
		rt := types[i]
		if rt == nil {
			rt = s.Type.Build()
			types[i] = rt
		}
		p := reflect.New(rt)
		p.Elem().Set(s.Type.New(rt))
		return p.Interface(), true
	}
	switch {
	case strings.HasPrefix(s.Named, "pa."):
		return pa.Sample(s.Named[3:], s.Index), true
	case strings.HasPrefix(s.Named, "pb."):
		return pb.Sample(s.Named[3:], s.Index), true
	}
	want := s.Named[4:]
	if h := tyx.Holder(want, s.Index); h != nil {
		return h, true
	}
	for k := 0; k < tyx.CatalogueSize; k++ {
		v := tyx.Catalogue((s.Index + k) % tyx.CatalogueSize)
		rv := reflect.ValueOf(v)
		if rv.Kind() == reflect.Ptr {
			rv = rv.Elem()
		}
		if rv.Type().Name() == want {
			p := reflect.New(rv.Type())
			p.Elem().Set(rv)
			return p.Interface(), true
		}
	}
	return nil, false
}

// expected renders the value a trip has to reproduce: the canonical form of the
// original, with the fields no route carries (json:"-" and unexported ones) left out.
func expected(v any, text bool) string { return render(reflect.ValueOf(v), text) }

func render(rv reflect.Value, text bool) string {
	switch rv.Kind() {
	case reflect.Ptr, reflect.Interface:
		if rv.IsNil() {
			return "null"
		}
		return render(rv.Elem(), text)
	case reflect.Struct:
		var parts []string
		rt := rv.Type()
		for i := 0; i < rt.NumField(); i++ {
			sf := rt.Field(i)
			if sf.PkgPath != "" {
				continue
			}
			if sf.Tag.Get("json") == "-" {
				continue // json:"-": the recomposer never fills it, whatever wrote the data
			}
			parts = append(parts, fmt.Sprintf("%s:%s", sf.Name, render(rv.Field(i), text)))
		}
		return "{" + strings.Join(parts, ",") + "}"
	case reflect.Slice, reflect.Array:
		if rv.Kind() == reflect.Slice && rv.Type().Elem().Kind() == reflect.Uint8 {
			return fmt.Sprintf("bytes:%q", rv.Bytes())
		}
		var parts []string
		for i := 0; i < rv.Len(); i++ {
			parts = append(parts, render(rv.Index(i), text))
		}
		return "[" + strings.Join(parts, ",") + "]"
	case reflect.Map:
		var parts []string
		it := rv.MapRange()
		for it.Next() {
			parts = append(parts, fmt.Sprintf("%q=%s", it.Key().String(), render(it.Value(), text)))
		}
		sort.Strings(parts)
		return "map{" + strings.Join(parts, ",") + "}"
	}
	if rv.Kind() == reflect.String && text {
		// through JSON text invalid UTF-8 is replaced
		return canon.String(wx.ReplaceInvalid(rv.String()), canon.Value)
	}
	if rv.CanInterface() {
		return canon.String(rv.Interface(), canon.Value)
	}
	return fmt.Sprint(rv)
}

type outcome struct {
	err string
	got string
}

func (o outcome) String() string {
	if o.err != "" {
		return "error: " + o.err
	}
	return o.got
}

// trip sends the value through the route using r (nil = the package level functions,
// that is alt.DefaultRecomposer) into a new zero value of the same type.
func trip(cs Case, r *alt.Recomposer, v any) (out outcome) {
	rt := reflect.TypeOf(v).Elem()
	target := reflect.New(rt).Interface()
	pv, stack := vrt.Catch(func() {
		var err error
		switch cs.Route {
		case "decompose":
			d := alt.Decompose(v, &ojg.Options{UseTags: cs.UseTags, KeyExact: cs.KeyExact, CreateKey: "^", FullTypePath: cs.FullPath})
			if r != nil {
				_, err = r.Recompose(d, target)
			} else {
				_, err = alt.Recompose(d, target)
			}
		case "marshal", "sen":
			var b []byte
			if b, err = oj.Marshal(v); err != nil {
				err = fmt.Errorf("oj.Marshal: %w", err)
				break
			}
			switch {
			case cs.Route == "marshal" && r != nil:
				err = oj.Unmarshal(b, target, r)
			case cs.Route == "marshal":
				err = oj.Unmarshal(b, target)
			case r != nil:
				err = sen.Unmarshal(b, target, r)
			default:
				err = sen.Unmarshal(b, target)
			}
		}
		if err != nil {
			out.err = err.Error()
		}
	})
	if pv != nil {
		out.err = fmt.Sprintf("panic: %v at %s", pv, stack)
		return
	}
	if out.err == "" {
		out.got = expected(target, false)
	}
	return
}

// A struct held in an interface field needs the create key and a registered type to
// come back as that type; the catalogue holds tyx.Inner values in Deep.Any.
func resetDefault() { alt.DefaultRecomposer = *fresh() }

func fresh() *alt.Recomposer {
	r, err := alt.NewRecomposer("^", map[any]alt.RecomposeFunc{&tyx.Inner{}: nil})
	if err != nil {
		panic(err)
	}
	return r
}

func Run(cs Case, c *vrt.Ctx) {
	tyx.ResetCache()
	resetDefault()
	types := map[int]reflect.Type{}
	var shared *alt.Recomposer
	if !cs.Default {
		shared = fresh()
	}
	c.Class("route:" + cs.Route)
	if cs.Default {
		c.Class("default-recomposer")
	}
	distinct := map[string]bool{}
	var names []string
	feats := map[string]bool{}
	vals := make([]any, len(cs.Subjects))
	for i, s := range cs.Subjects {
		v, ok := build(s, types, i)
		if !ok {
			c.DontCare("unknown named type")
			return
		}
		vals[i] = v
		rt := reflect.TypeOf(v).Elem()
		names = append(names, rt.String())
		distinct[fmt.Sprintf("%p/%s", types[i], rt.String())] = true
		if s.Named == "" {
			feats["anonymous"] = true
			c.Class("subject:anonymous")
		} else {
			c.Class("subject:" + s.Named)
		}
		features(rt, feats, 0)
	}
	if len(distinct) >= 2 || feats["nested"] || feats["embedded"] {
		c.NonTrivial()
	}
	if cs.Route != "decompose" {
		for _, v := range vals {
			if structInInterface(reflect.ValueOf(v), 0) {
				// oj.Marshal writes no create key: the interface comes back as a map
				c.DontCare("struct held in an interface on a marshal route")
				return
			}
		}
	}
	c.Class(fmt.Sprintf("subjects:%d", len(cs.Subjects)))
	if len(cs.Subjects) > 1 {
		short := map[string]int{}
		for _, v := range vals {
			short[reflect.TypeOf(v).Elem().Name()]++
		}
		for n, k := range short {
			if k > 1 && n != "" {
				c.Class("same-short-name-in-history")
			}
			if k > 1 && n == "" {
				c.Class("several-anonymous-in-history")
			}
		}
	}
	var tags []string
	for f := range feats {
		tags = append(tags, f)
	}
	sort.Strings(tags)
	tags = append(tags, "route:"+cs.Route)
	c.Sample(map[string]any{"subjects": names, "route": cs.Route, "default": cs.Default})
	text := cs.Route != "decompose"
	for i := range cs.Subjects {
		v := vals[i]
		want := expected(v, text)
		in := trip(cs, shared, v)
		// alone: the same trip through a recomposer that has seen nothing else
		v2, _ := build(cs.Subjects[i], types, i)
		alone := trip(cs, fresh(), v2)
		st := append([]string{}, tags...)
		if i > 0 {
			st = append(st, "after-history")
		}
		// which field fails first depends on map iteration order: only the presence of an
		// error is compared, not its text
		if (alone.err != "") != (in.err != "") || alone.got != in.got {
			c.Fail("history-dependent", cs.Route, fmt.Sprintf("subject %d (%s) after %v: %s; alone: %s", i, names[i], names[:i], clip(in.String()), clip(alone.String())), st...)
		}
		switch {
		case alone.err != "":
			if strings.Contains(alone.err, "can only recompose a []uint8 from a []any, not a string") {
				st = append(st, "bytes-from-string")
			}
			if strings.Contains(alone.err, "NumField of non-struct type *") {
				st = append(st, "numfield-of-pointer")
			}
			c.Fail("trip-error", cs.Route, fmt.Sprintf("%s; type %s; value %s", clip(alone.err), names[i], clip(want)), st...)
		case alone.got != want:
			dt := diffTags(want, alone.got)
			if roundBig(want) == roundBig(alone.got) {
				dt = append(dt, "only-float64-rounding")
			}
			c.Fail("not-inverse", cs.Route, fmt.Sprintf("%s; type %s: want %s got %s", dt[0], names[i], clip(want), clip(alone.got)), append(st, dt...)...)
		}
	}
}

func structInInterface(rv reflect.Value, depth int) bool {
	switch rv.Kind() {
	case reflect.Interface:
		if rv.IsNil() {
			return false
		}
		e := rv.Elem()
		for e.Kind() == reflect.Ptr && !e.IsNil() {
			e = e.Elem()
		}
		return e.Kind() == reflect.Struct || structInInterface(e, depth+1)
	case reflect.Ptr:
		return !rv.IsNil() && structInInterface(rv.Elem(), depth+1)
	case reflect.Struct:
		for i := 0; i < rv.NumField(); i++ {
			if structInInterface(rv.Field(i), depth+1) {
				return true
			}
		}
	case reflect.Slice, reflect.Array:
		for i := 0; i < rv.Len(); i++ {
			if structInInterface(rv.Index(i), depth+1) {
				return true
			}
		}
	case reflect.Map:
		it := rv.MapRange()
		for it.Next() {
			if structInInterface(it.Value(), depth+1) {
				return true
			}
		}
	}
	return false
}

var bigInt = regexp.MustCompile(`n:-?\d{16,}`)

// roundBig rounds every integer of 16 or more digits in a rendering to the nearest float64.
func roundBig(s string) string {
	return bigInt.ReplaceAllStringFunc(s, func(m string) string {
		f, err := strconv.ParseFloat(m[2:], 64)
		if err != nil {
			return m
		}
		return "n:" + strconv.FormatFloat(f, 'g', -1, 64)
	})
}

// diffTags names the first field where two renderings differ (triage only).
func diffTags(a, b string) []string {
	i := 0
	for i < len(a) && i < len(b) && a[i] == b[i] {
		i++
	}
	j := strings.LastIndexAny(a[:i], ",{")
	k := i
	for k < len(a) && a[k] != ',' && a[k] != '}' {
		k++
	}
	return []string{"at:" + a[j+1:k]}
}

func features(rt reflect.Type, feats map[string]bool, depth int) {
	if depth > 4 {
		return
	}
	for i := 0; i < rt.NumField(); i++ {
		sf := rt.Field(i)
		if sf.PkgPath != "" {
			continue
		}
		if sf.Anonymous {
			feats["embedded"] = true
			if sf.Type.Kind() == reflect.Ptr {
				feats["embedded-pointer"] = true
			}
		}
		ft := sf.Type
		switch ft.Kind() {
		case reflect.Ptr, reflect.Slice, reflect.Array, reflect.Map:
			feats["kind:"+ft.Kind().String()] = true
			if ft.Kind() == reflect.Slice && ft.Elem().Kind() == reflect.Uint8 {
				feats["bytes"] = true
			}
			ft = ft.Elem()
			if ft.Kind() == reflect.Ptr {
				ft = ft.Elem()
			}
		case reflect.Interface:
			feats["kind:interface"] = true
		}
		if ft.Kind() == reflect.Struct {
			feats["nested"] = true
			features(ft, feats, depth+1)
		}
		if tag := sf.Tag.Get("json"); tag != "" {
			if strings.Contains(tag, ",string") {
				feats["tag:string"] = true
			}
			if strings.HasPrefix(tag, "-,") {
				feats["tag:dash-key"] = true
			}
		}
	}
}

func clip(s string) string {
	if len(s) > 300 {
		return s[:300] + "…"
	}
	return s
}

func drawCase(t *rapid.T) Case {
	cs := Case{
		Route:   rapid.SampledFrom([]string{"decompose", "decompose", "marshal", "sen"}).Draw(t, "route"),
		Default: rapid.IntRange(0, 2).Draw(t, "default") == 0,
	}
	if cs.Route == "decompose" {
		cs.UseTags = rapid.IntRange(0, 2).Draw(t, "usetags") == 0
		cs.KeyExact = rapid.IntRange(0, 2).Draw(t, "keyexact") == 0
		cs.FullPath = rapid.IntRange(0, 2).Draw(t, "fullpath") == 0
	}
	n := rapid.IntRange(1, 4).Draw(t, "nsubjects")
	for i := 0; i < n; i++ {
		var s Subject
		if rapid.IntRange(0, 2).Draw(t, "anon") != 0 {
			s.Named = rapid.SampledFrom(namedKinds).Draw(t, "named")
			s.Index = rapid.IntRange(0, 11).Draw(t, "index")
			if s.Named == "pb.Holder" {
				// an interface that holds a type whose short name another package has too: only
				// the name with its path says which one is meant (alt: "the short name alone does
				// not identify a type"), so this subject travels with full type paths
				cs.Route, cs.FullPath = "decompose", true
			}
		} else if prev := lastAnon(cs.Subjects); prev != nil && rapid.IntRange(0, 3).Draw(t, "twin") == 0 {
			// a second type with the same fields, kinds and order as an earlier one but other
			// json tags: the two are convertible to each other, only the tags tell them apart
			s.Type = retag(prev)
		} else {
			s.Type = tyx.DrawType(t, 2)
			if rapid.IntRange(0, 4).Draw(t, "keepbytes") != 0 {
				// []byte fields stop the trip (C16-K1): most types go without them so that the
				// search continues behind that finding
				noBytes(s.Type)
			}
			if rapid.IntRange(0, 2).Draw(t, "hostilekeys") == 0 {
				hostileMapKeys(t, s.Type)
			}
		}
		cs.Subjects = append(cs.Subjects, s)
	}
	return cs
}

func lastAnon(ss []Subject) *tyx.TypeR {
	for i := len(ss) - 1; i >= 0; i-- {
		if ss[i].Named == "" && ss[i].Type != nil {
			return ss[i].Type
		}
	}
	return nil
}

var tagName = regexp.MustCompile(`json:"([^",-][^",]*)`)

// retag copies a recipe (values included) and gives every field another key: named tags are
// renamed, untagged fields get a tag.
func retag(t *tyx.TypeR) *tyx.TypeR {
	out := &tyx.TypeR{}
	for i, f := range t.Fields {
		g := f
		switch {
		case g.Kind == "emb" || g.Kind == "pemb":
		case tagName.MatchString(g.Tag):
			g.Tag = tagName.ReplaceAllString(g.Tag, `json:"${1}_r`)
		case g.Tag == "":
			g.Tag = fmt.Sprintf(`json:"r%d"`, i)
		}
		if g.Sub != nil {
			g.Sub = retag(g.Sub)
		}
		out.Fields = append(out.Fields, g)
	}
	return out
}

// hostileMapKeys renames map keys so that they need an escape in JSON text (two escaped strings
// in one document go through the parser's scratch buffer one after the other).
func hostileMapKeys(t *rapid.T, ty *tyx.TypeR) {
	var inVal func(v *tyx.ValueR)
	inVal = func(v *tyx.ValueR) {
		if v == nil {
			return
		}
		for i, k := range v.Keys {
			if rapid.Bool().Draw(t, "hostilekey") {
				v.Keys[i] = k + rapid.SampledFrom([]string{"<b", ">d", "\"q", "&y", "\ttab", "\\", "\u2028", "é\n"}).Draw(t, "keysuffix")
			}
		}
		for _, e := range v.Elems {
			inVal(e)
		}
	}
	for i := range ty.Fields {
		inVal(ty.Fields[i].Val)
		if ty.Fields[i].Sub != nil {
			hostileMapKeys(t, ty.Fields[i].Sub)
		}
	}
}

func noBytes(t *tyx.TypeR) {
	for i := range t.Fields {
		f := &t.Fields[i]
		if f.Kind == "bytes" {
			f.Kind = "strs"
			f.Val = &tyx.ValueR{Strs: []string{f.Val.S}, Nil: f.Val.Nil}
		}
		if f.Sub != nil {
			noBytes(f.Sub)
		}
	}
}

func TestPropRandom(t *testing.T) {
	vrt.Rapid(t, suite, "trip", vrt.Scale(6000, 40000), drawCase, Run)
}

func TestReplay(t *testing.T) { suite.ReplayAll(t) }

func has(d vrt.Disc, t string) bool {
	for _, x := range d.Tags {
		if x == t {
			return true
		}
	}
	return false
}

var classifiers = []vrt.Classifier{
	// C16-K1: a []byte field is written as a string (raw or base64, BytesAs) by alt.Decompose
	// and oj.Marshal but the recomposer only builds a slice from a []any.
	{ID: "C16-K1", Match: func(d vrt.Disc, c *vrt.Ctx) bool {
		return d.Kind == "trip-error" && has(d, "bytes") && has(d, "bytes-from-string")
	}},
	// C16-K3: a struct that embeds a pointer to a struct cannot be recomposed: indexType calls
	// NumField on the pointer type.
	{ID: "C16-K3", Match: func(d vrt.Disc, c *vrt.Ctx) bool {
		return d.Kind == "trip-error" && has(d, "embedded-pointer") && has(d, "numfield-of-pointer")
	}},
	// C16-K2: oj.Unmarshal parses with ForceFloat, so integers beyond 2^53 come back rounded
	// to the nearest float64 (sen.Unmarshal does not).
	{ID: "C16-K2", Match: func(d vrt.Disc, c *vrt.Ctx) bool {
		return d.Kind == "not-inverse" && d.Where == "marshal" && has(d, "only-float64-rounding")
	}},
}
