// Package c06 decides C06: no input makes a parser panic or fail to terminate.
package c06

import (
	"bytes"
	"context"
	"encoding/json"
	"fmt"
	"hash/fnv"
	"os"
	"os/exec"
	"runtime"
	"sort"
	"strconv"
	"strings"
	"testing"
	"testing/iotest"
	"time"

	"github.com/ohler55/ojg/alt"
	"github.com/ohler55/ojg/asm"
	"github.com/ohler55/ojg/gen"
	"github.com/ohler55/ojg/jp"
	"github.com/ohler55/ojg/oj"
	"github.com/ohler55/ojg/sen"
	"pgregory.net/rapid"

	"verif/internal/gx"
	"verif/internal/ref"
	"verif/internal/vet"
	"verif/internal/vrt"
)

var suite = vrt.NewSuite("C06", "bytes (grammar-generated JSON/SEN/JSONPath/script text, 1-3 point mutations, hostile token splices, truncations) and ill-typed structure (assembly plans, trees recomposed/unmarshalled into struct types) are handed to every text- or structure-consuming entry point. Oracle: the call returns (a watchdog observes termination), error-returning forms let no panic escape, Must* forms panic only with a value that is not a runtime.Error. Non-trivial = input accepted, or rejected after its third byte; distinct = distinct (target, input)")

type Case struct {
	Target string `json:"target"` // json | sen | jp | script | plan | recompose
	Input  []byte `json:"input,omitempty"`
	Chunk  int    `json:"chunk,omitempty"`
	Tree   any    `json:"tree,omitempty"` // plan array or tree to recompose (JSON)
	Type   int    `json:"type,omitempty"` // index into the target type catalogue
	// Deep: target "deep" - Shape repeated Deep times (a few megabytes of nesting), handed to the
	// JSONPath / script parser in a child process, because what goes wrong there ends the process
	Deep  int    `json:"deep,omitempty"`
	Shape string `json:"shape,omitempty"`
}

func TestMain(m *testing.M) {
	if shape := os.Getenv("VERIF_C06_DEEP_SHAPE"); shape != "" {
		// child of runDeep: parse and leave; a stack overflow is fatal and can not be recovered
		n, _ := strconv.Atoi(os.Getenv("VERIF_C06_DEEP_N"))
		in := deepInput(shape, n)
		_, err := jp.ParseString(in)
		_, err2 := jp.NewScript(strings.TrimSuffix(strings.TrimPrefix(in, "$[?"), "]"))
		fmt.Printf("deep child done: %v %v\n", err != nil, err2 != nil)
		os.Exit(0)
	}
	vrt.InitRapid()
	vrt.RegisterReplay(suite, "total", Run)
	suite.Register(classifiers...)
	vrt.Main(m, suite)
}

// callErr runs an error-returning entry point: any escaping panic is a violation.
func callErr(c *vrt.Ctx, where string, in string, f func() error) (accepted bool) {
	var err error
	pv, stack := vrt.Catch(func() { err = f() })
	if pv != nil {
		kind := "panic-escaped"
		if _, ok := pv.(runtime.Error); ok {
			kind = "runtime-panic-escaped"
		}
		c.Fail(kind, where, fmt.Sprintf("%v at %s on %s", pv, stack, in), faultTag(fmt.Sprint(pv)))
		return false
	}
	if err != nil {
		msg := err.Error()
		if strings.HasPrefix(msg, "runtime error:") || strings.HasPrefix(msg, "interface conversion:") || strings.Contains(msg, "reflect:") || strings.Contains(msg, "comparing uncomparable") {
			// a recover wrapper turned a runtime fault into the error result: counted (DESIGN C06 Z);
			// the Must* form of the same call is checked for the fault itself
			c.Class("runtime-fault-via-wrapper:" + where)
			textFront := (strings.HasPrefix(where, "oj.") || strings.HasPrefix(where, "sen.") || strings.HasPrefix(where, "gen.") || strings.HasPrefix(where, "jp.")) && !strings.Contains(where, "Unmarshal")
			if textFront {
				// a parser, tokenizer or validator is given text: whatever the text is, the answer is
				// a parse error that names a position, not the text of an index or slice fault
				c.Fail("runtime-fault-as-error", where, fmt.Sprintf("%s on %s", msg, in), faultTag(msg))
			}
			if where == "asm.Plan.Execute" {
				// a plan is text a user writes: a wrong argument is answered with an error that says
				// so, not with the text of a runtime fault that a recover turned into an error
				c.Fail("runtime-fault-as-error", where, fmt.Sprintf("%s on %s", msg, in), faultTag(msg))
			}
		}
		return false
	}
	return true
}

// callMust runs a Must* entry point: it may panic, but not with a runtime.Error.
func callMust(c *vrt.Ctx, where string, in string, f func()) {
	pv, stack := vrt.Catch(f)
	if pv == nil {
		return
	}
	if re, ok := pv.(runtime.Error); ok {
		c.Fail("runtime-fault", where, fmt.Sprintf("%v at %s on %s", re, stack, in), faultTag(re.Error()))
	}
}

func faultTag(msg string) string {
	switch {
	case strings.Contains(msg, "nil map"):
		return "fault:nil-map"
	case strings.Contains(msg, "index out of range"), strings.Contains(msg, "slice bounds"):
		return "fault:index"
	case strings.Contains(msg, "interface conversion"):
		return "fault:type-assertion"
	case strings.Contains(msg, "nil pointer"):
		return "fault:nil-deref"
	case strings.Contains(msg, "uncomparable"), strings.Contains(msg, "unhashable"):
		return "fault:uncomparable"
	case strings.Contains(msg, "divide by zero"):
		return "fault:div-zero"
	case strings.Contains(msg, "reflect"):
		return "fault:reflect"
	}
	return "fault:other"
}

func q(b []byte) string {
	if len(b) > 200 {
		return fmt.Sprintf("%q…", b[:200])
	}
	return fmt.Sprintf("%q", b)
}

func reader(d []byte, chunk int) *bytes.Reader { return bytes.NewReader(d) }

type chunked struct {
	r *bytes.Reader
	n int
}

func (c *chunked) Read(p []byte) (int, error) {
	if c.n > 0 && len(p) > c.n {
		p = p[:c.n]
	}
	return c.r.Read(p)
}

func Run(cs Case, c *vrt.Ctx) {
	c.Class("target:" + cs.Target)
	switch cs.Target {
	case "json":
		runJSON(cs, c)
	case "sen":
		runSEN(cs, c)
	case "jp":
		runJP(cs, c)
	case "script":
		runScript(cs, c)
	case "plan":
		runPlan(cs, c)
	case "recompose":
		runRecompose(cs, c)
	case "deep":
		runDeep(cs, c)
	}
}

var deepShapes = map[string][3]string{
	"nots":    {"$[?(", "!", "@.a)]"},
	"groups":  {"$[?(", "(", "1"},
	"filters": {"$", "[?(@", ""},
	"chain":   {"$[?(1", " + 1", " == 2)]"},
	"lists":   {"$[?(@.a in ", "[", "1"},
	"nested":  {"$[?(", "(1 + ", "1"},
}

// products: 100 times (a unit that opens a nested filter, n times a nesting token, an operand):
// neither the number of filters nor the depth inside one script is large, their product is what
// the recursion has to take.
var deepProducts = map[string][5]string{
	"filters-of-nots":   {"$", "[?(", "!", "@", ".x"},
	"filters-of-groups": {"$", "[?(", "(", "@", ".x"},
}

func deepInput(shape string, n int) string {
	if q, ok := deepProducts[shape]; ok {
		return q[0] + strings.Repeat(q[1]+strings.Repeat(q[2], n)+q[3], 100) + q[4]
	}
	p := deepShapes[shape]
	return p[0] + strings.Repeat(p[1], n) + p[2]
}

// runDeep: megabytes of nesting must end in an error or a result, not in the death of the
// process (the parsers recurse; a stack overflow is not a panic that could be recovered).
func runDeep(cs Case, c *vrt.Ctx) {
	unit := ""
	if p, ok := deepShapes[cs.Shape]; ok {
		unit = p[1]
	} else if q, ok := deepProducts[cs.Shape]; ok {
		unit = "100 x " + q[1] + " x " + q[2]
	} else {
		return
	}
	c.NonTrivial()
	c.Sample(map[string]any{"target": "deep", "shape": cs.Shape, "n": cs.Deep})
	// the child gets ten minutes (the chain of 50 000 operators takes 16 s of CPU on an idle
	// machine - the precedence correction is quadratic - and several times that when the machine
	// is busy; the thorough tier met the 30 s watchdog that way, which was no hang)
	vrt.Extend(10 * time.Minute)
	ctx, cancel := context.WithTimeout(context.Background(), 10*time.Minute)
	defer cancel()
	cmd := exec.CommandContext(ctx, os.Args[0], "-test.run=^$")
	cmd.Env = append(os.Environ(), "VERIF_C06_DEEP_SHAPE="+cs.Shape, "VERIF_C06_DEEP_N="+strconv.Itoa(cs.Deep))
	out, err := cmd.CombinedOutput()
	if ctx.Err() != nil {
		c.Fail("hang", "jp.ParseString / jp.NewScript", fmt.Sprintf("%d x %q (%s): the child process did not finish within ten minutes", cs.Deep, unit, cs.Shape))
		return
	}
	if err != nil || !bytes.Contains(out, []byte("deep child done")) {
		msg := string(out)
		if i := strings.Index(msg, "fatal error"); i >= 0 {
			msg = msg[i:]
		}
		if len(msg) > 300 {
			msg = msg[:300]
		}
		c.Fail("process-died", "jp.ParseString / jp.NewScript", fmt.Sprintf("%d x %q (%s): %v %s", cs.Deep, unit, cs.Shape, err, msg))
	}
}

// TestDeepNesting runs the deep shapes at sizes around what the recursion can take.
func TestDeepNesting(t *testing.T) {
	sizes := []int{3000000}
	shapes := []string{"nots", "filters", "chain"}
	if vrt.Thorough() {
		sizes = []int{1000, 50000, 400000, 3000000, 8000000}
		shapes = []string{"nots", "groups", "filters", "chain", "lists", "nested"}
	}
	if i, n := vrt.Shard(); n > 1 && i != 0 {
		return // once is enough
	}
	for _, shape := range shapes {
		for _, n := range sizes {
			vrt.Eval(suite, "total", Case{Target: "deep", Shape: shape, Deep: n}, Run)
		}
	}
	psizes := []int{90000}
	if vrt.Thorough() {
		psizes = []int{900, 20000, 90000, 99000}
	}
	for shape := range deepProducts {
		for _, n := range psizes {
			vrt.Eval(suite, "total", Case{Target: "deep", Shape: shape, Deep: n}, Run)
		}
	}
}

func nontrivialBytes(c *vrt.Ctx, accepted bool, in []byte, deadAt int) {
	if accepted || deadAt >= 3 || (deadAt < 0 && len(in) >= 3) {
		c.NonTrivial()
	}
}

// exact copies d into a slice whose capacity is its length: a read past the end of the input
// is then a read past the end of the slice (append would round the capacity up and hide it).
func exact(d []byte) []byte {
	b := make([]byte, len(d))
	copy(b, d)
	return b
}

// veteranCase: the veteran instances cost a history of calls each, so every fourth input (by
// content) goes through them.
func veteranCase(d []byte) bool {
	h := fnv.New32a()
	_, _ = h.Write(d)
	return h.Sum32()%4 == 0
}

func runJSON(cs Case, c *vrt.Ctx) {
	d := cs.Input
	in := q(d)
	c.SetKey(append([]byte("json\x00"), d...))
	_, _, dead := ref.ScanFast(d)
	cp := func() []byte { return exact(d) }
	rd := func() *chunked { return &chunked{bytes.NewReader(cp()), cs.Chunk} }
	acc := callErr(c, "oj.Parse", in, func() error { _, err := oj.Parse(cp()); return err })
	callErr(c, "oj.Parser.ParseReader", in, func() error { p := oj.Parser{}; _, err := p.ParseReader(rd()); return err })
	callErr(c, "oj.Parser.Parse/cb", in, func() error { p := oj.Parser{}; _, err := p.Parse(cp(), func(any) {}); return err })
	callErr(c, "oj.Parser.ParseReader/cb", in, func() error {
		p := oj.Parser{Reuse: true}
		_, err := p.ParseReader(rd(), func(any) bool { return false })
		return err
	})
	callErr(c, "oj.Validate", in, func() error { return oj.Validate(cp()) })
	callErr(c, "oj.ValidateReader", in, func() error { return oj.ValidateReader(rd()) })
	callErr(c, "oj.Tokenize", in, func() error { return oj.Tokenize(cp(), &oj.ZeroHandler{}) })
	callErr(c, "oj.TokenizeLoad", in, func() error { return oj.TokenizeLoad(rd(), &oj.ZeroHandler{}) })
	callErr(c, "gen.Parser.Parse", in, func() error { p := gen.Parser{}; _, err := p.Parse(cp()); return err })
	callErr(c, "gen.Parser.ParseReader", in, func() error { p := gen.Parser{}; _, err := p.ParseReader(rd()); return err })
	callErr(c, "gen.Parser.Parse/cb", in, func() error { p := gen.Parser{}; _, err := p.Parse(cp(), func(gen.Node) {}); return err })
	callErr(c, "gen.Parser.ParseReader/1", in, func() error {
		p := gen.Parser{Reuse: true}
		_, err := p.ParseReader(iotest.OneByteReader(bytes.NewReader(cp())), func(gen.Node) bool { return false })
		return err
	})
	if veteranCase(d) {
		// instances that have been through failed and successful calls before (internal/vet)
		c.Class("veteran-instances")
		callErr(c, "oj.Parser(veteran).Parse", in, func() error { _, err := vet.OjParser().Parse(cp()); return err })
		callErr(c, "oj.Parser(veteran).ParseReader", in, func() error { _, err := vet.OjParser().ParseReader(rd()); return err })
		callErr(c, "gen.Parser(veteran).Parse", in, func() error { _, err := vet.GenParser().Parse(cp()); return err })
		callErr(c, "gen.Parser(veteran).ParseReader", in, func() error { _, err := vet.GenParser().ParseReader(rd()); return err })
		callErr(c, "oj.Tokenizer(veteran).Parse", in, func() error { return vet.OjTokenizer().Parse(cp(), &oj.ZeroHandler{}) })
		callErr(c, "oj.Tokenizer(veteran).Load", in, func() error { return vet.OjTokenizer().Load(rd(), &oj.ZeroHandler{}) })
	}
	callErr(c, "oj.TokenizeString", in, func() error { return oj.TokenizeString(string(d), &oj.ZeroHandler{}) })
	callErr(c, "oj.ParseString", in, func() error { _, err := oj.ParseString(string(d)); return err })
	callErr(c, "oj.ValidateString", in, func() error { return oj.ValidateString(string(d)) })
	callMust(c, "oj.MustLoad", in, func() { oj.MustLoad(rd()) })
	callMust(c, "oj.MustParseString", in, func() { oj.MustParseString(string(d)) })
	callMust(c, "oj.MustParse", in, func() { oj.MustParse(cp()) })
	callErr(c, "oj.Match", in, func() error { return oj.Match(cp(), func(jp.Expr, any) {}, jp.R().D().C("a"), jp.R().W().N(1)) })
	nontrivialBytes(c, acc, d, dead)
	c.Sample(map[string]any{"target": "json", "input": string(d)})
}

func runSEN(cs Case, c *vrt.Ctx) {
	d := cs.Input
	in := q(d)
	c.SetKey(append([]byte("sen\x00"), d...))
	cp := func() []byte { return exact(d) }
	rd := func() *chunked { return &chunked{bytes.NewReader(cp()), cs.Chunk} }
	acc := callErr(c, "sen.Parse", in, func() error { _, err := sen.Parse(cp()); return err })
	callErr(c, "sen.Parser.Parse(fresh)", in, func() error { p := sen.Parser{}; _, err := p.Parse(cp()); return err })
	callErr(c, "sen.ParseReader", in, func() error { _, err := sen.ParseReader(rd()); return err })
	callErr(c, "sen.Parser.ParseReader/1", in, func() error {
		p := sen.Parser{}
		_, err := p.ParseReader(iotest.OneByteReader(bytes.NewReader(cp())))
		return err
	})
	callErr(c, "sen.Parser.Parse/cb", in, func() error { p := sen.Parser{}; _, err := p.Parse(cp(), func(any) {}); return err })
	callErr(c, "sen.Parser.ParseReader/cb", in, func() error {
		p := sen.Parser{}
		_, err := p.ParseReader(rd(), func(any) bool { return false })
		return err
	})
	if veteranCase(d) {
		c.Class("veteran-instances")
		callErr(c, "sen.Parser(veteran).Parse", in, func() error { _, err := vet.SenParser().Parse(cp()); return err })
		callErr(c, "sen.Parser(veteran).ParseReader", in, func() error { _, err := vet.SenParser().ParseReader(rd()); return err })
		callErr(c, "sen.Tokenizer(veteran).Parse", in, func() error { return vet.SenTokenizer().Parse(cp(), &oj.ZeroHandler{}) })
		callErr(c, "sen.Tokenizer(veteran).Load", in, func() error { return vet.SenTokenizer().Load(rd(), &oj.ZeroHandler{}) })
	}
	callErr(c, "sen.TokenizeString", in, func() error { return sen.TokenizeString(string(d), &oj.ZeroHandler{}) })
	callMust(c, "sen.MustParseReader", in, func() { sen.MustParseReader(rd()) })
	callMust(c, "sen.Parser.MustParseReader", in, func() { p := sen.Parser{}; p.MustParseReader(rd()) })
	callErr(c, "sen.Tokenize", in, func() error { return sen.Tokenize(cp(), &oj.ZeroHandler{}) })
	callErr(c, "sen.TokenizeLoad", in, func() error { return sen.TokenizeLoad(rd(), &oj.ZeroHandler{}) })
	callMust(c, "sen.MustParse", in, func() { sen.MustParse(cp()) })
	callErr(c, "sen.Match", in, func() error { return sen.Match(cp(), func(jp.Expr, any) {}, jp.R().D().C("a")) })
	if acc || len(d) >= 3 {
		c.NonTrivial()
	}
	c.Sample(map[string]any{"target": "sen", "input": string(d)})
}

var sampleData = map[string]any{"a": []any{int64(1), 2.5, "x", nil, map[string]any{"b": int64(3), "x": "y"}}, "b": map[string]any{"a": int64(1)}, "x": "str", "key": true}

func runJP(cs Case, c *vrt.Ctx) {
	d := cs.Input
	in := q(d)
	c.SetKey(append([]byte("jp\x00"), d...))
	var x jp.Expr
	acc := callErr(c, "jp.Parse", in, func() error { var err error; x, err = jp.Parse(append([]byte(nil), d...)); return err })
	callMust(c, "jp.MustParse", in, func() { jp.MustParse(append([]byte(nil), d...)) })
	if acc {
		// a parsed expression must print and evaluate without a fault
		callMust(c, "jp.Expr.String", in, func() { _ = x.String(); _ = x.BracketString() })
		callMust(c, "jp.Expr.Get(parsed)", in, func() { _ = x.Get(sampleData); _ = x.Has(sampleData); _ = x.First(sampleData) })
	}
	if acc || len(d) >= 3 {
		c.NonTrivial()
	}
	c.Sample(map[string]any{"target": "jp", "input": string(d)})
}

func runScript(cs Case, c *vrt.Ctx) {
	d := cs.Input
	in := q(d)
	c.SetKey(append([]byte("script\x00"), d...))
	var s *jp.Script
	acc := callErr(c, "jp.NewScript", in, func() error { var err error; s, err = jp.NewScript(string(d)); return err })
	callMust(c, "jp.MustNewScript", in, func() { jp.MustNewScript(string(d)) })
	if acc && s != nil {
		callMust(c, "jp.Script.String", in, func() { _ = s.String() })
		callMust(c, "jp.Script.Match(parsed)", in, func() {
			_ = s.Match(sampleData)
			_ = s.Match([]any{int64(1), "a"})
			_ = s.Match(nil)
		})
	}
	if acc || len(d) >= 3 {
		c.NonTrivial()
	}
	c.Sample(map[string]any{"target": "script", "input": string(d)})
}

func runPlan(cs Case, c *vrt.Ctx) {
	arr, _ := cs.Tree.([]any)
	js, _ := json.Marshal(cs.Tree)
	in := string(js)
	c.SetKey(append([]byte("plan\x00"), js...))
	var p *asm.Plan
	pv, stack := vrt.Catch(func() { p = asm.NewPlan(normNums(arr).([]any)) })
	if pv != nil {
		if re, ok := pv.(runtime.Error); ok {
			c.Fail("runtime-fault", "asm.NewPlan", fmt.Sprintf("%v at %s on %s", re, stack, in), faultTag(re.Error()))
		}
		c.Class("plan-rejected")
		return
	}
	if p == nil {
		return
	}
	if cyclicThenDeep(arr) {
		// the recorded finding C20-K3: a plan can store the root (or a part of it) inside itself and
		// then hand the cyclic value to string / equal / include, which recurse until the stack
		// overflows - fatal for the process, nothing recovers it. C20 decides which plans do that
		// exactly (stepwise, on fresh roots); here every plan that both stores a value read from a
		// path and calls one of those functions is counted and not executed.
		c.Class("not-executed(may store the root in itself and print it: C20-K3)")
		return
	}
	root := map[string]any{"src": map[string]any{"a": int64(1), "b": []any{int64(1), int64(2), "x"}, "c": map[string]any{"d": "str"}, "s": "hello", "f": 2.5, "n": nil, "t": true}}
	acc := callErr(c, "asm.Plan.Execute", in, func() error { return p.Execute(root) })
	callMust(c, "asm.Plan.String", in, func() { _ = p.String() })
	if acc {
		c.Class("plan-executed")
	}
	c.NonTrivial()
	c.Sample(map[string]any{"target": "plan", "plan": cs.Tree})
}

// cyclicThenDeep: the plan has a set / setall / append-like store of a value that is read from a path
// (or is a call) and somewhere a function that walks a whole value.
func cyclicThenDeep(plan any) bool {
	stores, deep := false, false
	var walk func(v any)
	walk = func(v any) {
		list, ok := v.([]any)
		if !ok {
			if m, isMap := v.(map[string]any); isMap {
				for _, e := range m {
					walk(e)
				}
			}
			return
		}
		if len(list) > 0 {
			if name, _ := list[0].(string); name != "" {
				switch name {
				case "string", "equal", "eq", "==", "neq", "!=", "include", "inspect", "sort", "dif", "difference":
					deep = true
				case "set", "setall":
					if len(list) > 2 {
						switch tv := list[2].(type) {
						case string:
							if len(tv) > 0 && (tv[0] == '$' || tv[0] == '@') {
								stores = true
							}
						case []any, map[string]any:
							stores = true
						}
					}
				}
			}
		}
		for _, e := range list {
			walk(e)
		}
	}
	walk(plan)
	return stores && deep
}

// normNums turns the float64 numbers of a JSON-decoded case back into int64 where integral.
func normNums(v any) any {
	switch tv := v.(type) {
	case float64:
		if tv == float64(int64(tv)) && tv < 1e15 && tv > -1e15 {
			return int64(tv)
		}
	case []any:
		out := make([]any, len(tv))
		for i, e := range tv {
			out[i] = normNums(e)
		}
		return out
	case map[string]any:
		out := make(map[string]any, len(tv))
		for k, e := range tv {
			out[k] = normNums(e)
		}
		return out
	}
	return v
}

// ---- recompose / unmarshal targets ----

type Inner struct {
	X int
	Y string
	Z *Inner
}
type Iface interface{ Hello() string }

func (i *Inner) Hello() string { return i.Y }

type Outer struct {
	A    int
	B    string
	C    float64
	D    bool
	E    []int
	F    map[string]int
	G    *Inner
	H    Inner
	I    any
	J    []Inner
	K    []*Inner
	L    map[string]*Inner
	M    [2]int
	N    time.Time
	O    []byte
	P    *int
	Q    **string
	R    Iface
	S    []any
	T    map[string]any
	U    uint8
	V    int8
	W    float32
	Tag  string `json:"tagged,omitempty"`
	skip int
}
type Emb struct {
	Inner
	*Outer
	Name string
}
type Small struct {
	A int `json:"a"`
}

var targets = []struct {
	name string
	mk   func() any
}{
	{"*Outer", func() any { return &Outer{} }},
	{"*Inner", func() any { return &Inner{} }},
	{"*Emb", func() any { return &Emb{} }},
	{"*[]Inner", func() any { return &[]Inner{} }},
	{"*[]*Outer", func() any { return &[]*Outer{} }},
	{"*map[string]Inner", func() any { return &map[string]Inner{} }},
	{"*map[string]*Small", func() any { return &map[string]*Small{} }},
	{"*Small", func() any { return &Small{} }},
	{"*[]int", func() any { return &[]int{} }},
	{"*map[string]any", func() any { return &map[string]any{} }},
	{"*any", func() any { var v any; return &v }},
	{"*int", func() any { var v int; return &v }},
	{"*string", func() any { var v string; return &v }},
	{"*time.Time", func() any { return &time.Time{} }},
	{"*[3]Small", func() any { return &[3]Small{} }},
	{"*struct{anon}", func() any { return &struct{ A, B int }{} }},
	{"Outer(non-pointer)", func() any { return Outer{} }},
	{"nil", func() any { return nil }},
}

func runRecompose(cs Case, c *vrt.Ctx) {
	js, _ := json.Marshal(cs.Tree)
	tg := targets[cs.Type%len(targets)]
	in := tg.name + " <- " + string(js)
	c.SetKey([]byte("recompose\x00" + in))
	tree := normNums(cs.Tree)
	acc := callErr(c, "alt.Recompose", in, func() error { _, err := alt.Recompose(tree, tg.mk()); return err })
	callMust(c, "alt.MustRecompose", in, func() { alt.MustRecompose(tree, tg.mk()) })
	callErr(c, "oj.Unmarshal", in, func() error { return oj.Unmarshal(js, tg.mk()) })
	callErr(c, "sen.Unmarshal", in, func() error { return sen.Unmarshal(js, tg.mk()) })
	callErr(c, "oj.Parser.Unmarshal", in, func() error { p := oj.Parser{}; return p.Unmarshal(js, tg.mk()) })
	if acc {
		c.Class("recompose-accepted")
	}
	c.Class("recompose:" + tg.name)
	c.NonTrivial()
	c.Sample(map[string]any{"target": "recompose", "type": tg.name, "tree": cs.Tree})
}

// ---- generators ----

var fnNames []string

func init() {
	for k := range asm.FnDocs() {
		if k != "inspect" { // prints to stdout
			fnNames = append(fnNames, k)
		}
	}
	sort.Strings(fnNames)
}

func planArg(t *rapid.T, depth int) any {
	switch rapid.IntRange(0, 11).Draw(t, "pak") {
	case 0, 1:
		return rapid.SampledFrom([]string{"$.src.a", "$.src.b", "$.src.b[1]", "$.src.c.d", "$.src.s", "$.src.f", "$.src.n", "$.src.zz", "$.asm", "$.asm.x", "@", "@.x", "@.a", "$", "$.src", "$.src.b[*]", "$..a", "@[0]", "$.src.b[-1]", "$.src.b[0:2]", "$[", "@.."}).Draw(t, "ppath")
	case 2:
		return gx.Int64(t)
	case 3:
		return gx.Float64(t)
	case 4:
		return gx.Str(t, gx.TreeOpts{})
	case 5:
		return nil
	case 6:
		return rapid.Bool().Draw(t, "pb")
	case 7:
		return gx.Tree(t, gx.TreeOpts{MaxDepth: 2, MaxMembers: 3})
	default:
		if depth <= 0 {
			return int64(1)
		}
		return planFn(t, depth-1)
	}
}

func planFn(t *rapid.T, depth int) any {
	name := rapid.SampledFrom(fnNames).Draw(t, "fn")
	n := rapid.IntRange(0, 4).Draw(t, "nargs")
	out := []any{name}
	for i := 0; i < n; i++ {
		out = append(out, planArg(t, depth))
	}
	return out
}

var soupTokens = []string{"[", "[", "]", "{", "{", "}", ":", ":", ",", ",", `"a"`, `"b"`, `"k"`, "1", "-2", "1.5e2", "0", "null", "true", "false", `"\u0041"`, "12345678901234567890", " ", "\n", "x", "+", "'s'", "(", ")", "//c\n"}

func drawCase(t *rapid.T) Case {
	switch rapid.IntRange(0, 9).Draw(t, "target") {
	case 0, 1, 2:
		if rapid.IntRange(0, 3).Draw(t, "soup") == 0 {
			// token soup: any sequence of well formed tokens (the parsers build on a stack
			// whose invariants only hold for sequences the grammar allows; a table cell that
			// lets one more token through breaks them several tokens later)
			n := rapid.IntRange(1, 10).Draw(t, "ntok")
			var text []byte
			for i := 0; i < n; i++ {
				text = append(text, rapid.SampledFrom(soupTokens).Draw(t, "tok")...)
				if rapid.IntRange(0, 3).Draw(t, "sp") == 0 {
					text = append(text, ' ')
				}
			}
			return Case{Target: rapid.SampledFrom([]string{"json", "json", "sen"}).Draw(t, "souptarget"), Input: text, Chunk: rapid.SampledFrom([]int{0, 0, 1, 2}).Draw(t, "chunk")}
		}
		switch rapid.IntRange(0, 7).Draw(t, "edge") {
		case 0:
			// the input ends inside a token: every proper prefix of a literal, number or string
			// after a generated lead-in (the fast paths look a fixed number of bytes ahead)
			tok := rapid.SampledFrom([]string{"true", "false", "null", `"string \u00e9 \n"`, "-123.456e+78", "12345678901234567890123"}).Draw(t, "endtok")
			lead := rapid.SampledFrom([]string{"", " ", "[", "[1,", `{"a":`, `{"a":[true, `, "\n\n"}).Draw(t, "lead")
			k := rapid.IntRange(1, len(tok)).Draw(t, "endk")
			return Case{Target: rapid.SampledFrom([]string{"json", "json", "sen"}).Draw(t, "endtarget"), Input: []byte(lead + tok[:k]), Chunk: rapid.SampledFrom([]int{0, 0, 1, 2, 3}).Draw(t, "chunk")}
		case 1:
			// a token astride the 4096 byte read buffer of the reader entry points
			tok := rapid.SampledFrom([]string{"true", "false", "null", `"string \u00e9 \n"`, "-123.456e+78", `{"key":1}`, "[[]]"}).Draw(t, "stradtok")
			inside := rapid.IntRange(1, len(tok)-1).Draw(t, "inside")
			tail := rapid.SampledFrom([]string{"]", ",1]", " ]", ""}).Draw(t, "stradtail")
			return Case{Target: rapid.SampledFrom([]string{"json", "json", "sen"}).Draw(t, "stradtarget"), Input: []byte("[" + strings.Repeat(" ", 4096-inside-1) + tok + tail), Chunk: 0}
		}
		text := gx.JSONText(t, gx.DefaultText)
		if rapid.IntRange(0, 4).Draw(t, "mut") != 0 {
			text = gx.Mutate(t, text)
		}
		return Case{Target: "json", Input: text, Chunk: rapid.SampledFrom([]int{0, 1, 2, 3, 7}).Draw(t, "chunk")}
	case 3, 4:
		var text []byte
		if rapid.Bool().Draw(t, "fromjson") {
			text = gx.JSONText(t, gx.DefaultText)
		} else {
			text = gx.SENText(t, 3)
		}
		if rapid.IntRange(0, 4).Draw(t, "mut") != 0 {
			text = gx.Mutate(t, text)
		}
		return Case{Target: "sen", Input: text, Chunk: rapid.SampledFrom([]int{0, 1, 2, 3, 7}).Draw(t, "chunk")}
	case 5:
		s := gx.PathText(t, 2)
		if rapid.IntRange(0, 2).Draw(t, "mut") != 0 {
			s = gx.MutateText(t, s, gx.HostilePath)
		}
		return Case{Target: "jp", Input: []byte(s)}
	case 6:
		s := gx.ScriptText(t, 2)
		if rapid.IntRange(0, 2).Draw(t, "mut") != 0 {
			s = gx.MutateText(t, s, gx.HostilePath)
		}
		return Case{Target: "script", Input: []byte(s)}
	case 7, 8:
		var plan any
		if rapid.IntRange(0, 5).Draw(t, "rawplan") == 0 {
			plan = gx.Container(t, gx.TreeOpts{MaxDepth: 3})
			if _, ok := plan.([]any); !ok {
				plan = []any{plan}
			}
		} else {
			n := rapid.IntRange(1, 3).Draw(t, "nsteps")
			steps := []any{}
			if rapid.Bool().Draw(t, "asmhead") {
				steps = append(steps, "asm")
			}
			for i := 0; i < n; i++ {
				steps = append(steps, planFn(t, 3))
			}
			plan = steps
		}
		return Case{Target: "plan", Tree: jsonRound(plan)}
	default:
		return Case{Target: "recompose", Tree: jsonRound(gx.Tree(t, gx.TreeOpts{MaxDepth: 3, Keys: []string{"a", "A", "b", "B", "x", "X", "y", "z", "g", "h", "i", "j", "k", "l", "e", "f", "type", "name", "Name", "outer", "inner", "tagged", "n", "o", "p", "q", "r", "s", "t", "m"}})), Type: rapid.IntRange(0, len(targets)-1).Draw(t, "type")}
	}
}

// jsonRound makes the tree JSON-serialisable and stable under the Case file round trip.
func jsonRound(v any) any {
	b, err := json.Marshal(sanitize(v))
	if err != nil {
		return nil
	}
	var out any
	_ = json.Unmarshal(b, &out)
	return out
}

func sanitize(v any) any {
	switch tv := v.(type) {
	case string:
		return strings.ToValidUTF8(tv, "?")
	case []any:
		out := make([]any, len(tv))
		for i, e := range tv {
			out[i] = sanitize(e)
		}
		return out
	case map[string]any:
		out := make(map[string]any, len(tv))
		for k, e := range tv {
			out[strings.ToValidUTF8(k, "?")] = sanitize(e)
		}
		return out
	}
	return v
}

// TestEnumPathPrefixes: every prefix of a set of path and script texts that use every fragment and
// operator kind, followed by nothing, blanks, a tab or a stray closer - the texts a user is in the
// middle of typing. The JSONPath parser is a hand written scanner with a loop per bracket form; a
// loop that waits for a byte that never comes does not return.
func TestEnumPathPrefixes(t *testing.T) {
	if i, n := vrt.Shard(); n > 1 && i != 0 {
		return // once is enough
	}
	texts := []string{
		"$.a[1]['b'][?(@.x == 3)]..c[1:2:3][*]", "@.a[?(@.b in [1, 2, 'x'])]", "$[1, 'a', -2]", "$..[?(@.a =~ /x\\/y/)]", "$[ -3 : 7 : -1 ].k",
		"$.list[?(@.sub[2] > 1.5e3 && !(@.k == 'v' || @.n == null))].x", "$[?(length(@.a) >= 2 && count(@.b[*]) < 3)]", "$['a b', \"c\"]", "$.a[?@.b == true]",
		"$[?(@.a has false)][?(@ exists true)]", "$[?(match(@.a, 'x.y') && search(@.b, \"z\"))]", "$.x[?(@.a + 1 - 2 * 3 / 4 != 5)]", "$[?(@.a empty true)]", "a.b[0]", "[1][2]", "$[:]", "$[::]", "$[1:]",
	}
	tails := []string{"", " ", "  ", "\t", "]", ")", " ]", "\n"}
	n := 0
	for _, text := range texts {
		for k := 0; k <= len(text); k++ {
			for _, tail := range tails {
				in := []byte(text[:k] + tail)
				vrt.Eval(suite, "total", Case{Target: "jp", Input: in}, Run)
				vrt.Eval(suite, "total", Case{Target: "script", Input: in}, Run)
				n += 2
			}
		}
	}
	// the same texts as arguments of a plan (asm.NewPlan reads paths out of strings)
	for _, text := range texts[:6] {
		for k := 1; k <= len(text); k++ {
			vrt.Eval(suite, "total", Case{Target: "plan", Tree: []any{"get", text[:k] + " "}}, Run)
			n++
		}
	}
	suite.AddExtra("path_prefix_cases", int64(n))
}

// TestEnumTokenEnds: every lead-in x every token x every cut inside the token x the JSON and SEN
// front-ends x whole input and reads of 1, 2, 3 bytes: an input that ends inside a token (right
// after an opening quote, inside an escape, inside a literal or a number) after the scan loops
// have already run once in the same buffer. The random generator draws from the same lists; the
// full product is small enough to enumerate.
func TestEnumTokenEnds(t *testing.T) {
	if i, n := vrt.Shard(); n > 1 && i != 0 {
		return // once is enough
	}
	toks := []string{"true", "false", "null", `"string \u00e9 \n"`, `'single'`, "-123.456e+78", "12345678901234567890123", "abc", `{"key":1}`}
	leads := []string{"", " ", "[", "[1,", `{"a":`, `{"a":[true, `, "\n\n", `{"a_rather_long_key_to_look_at": `, `["abc", `, `{"k":"v", `, "[abc "}
	n := 0
	for _, lead := range leads {
		for _, tok := range toks {
			for k := 1; k <= len(tok); k++ {
				for _, target := range []string{"json", "sen"} {
					for _, chunk := range []int{0, 1, 2, 3} {
						vrt.Eval(suite, "total", Case{Target: target, Input: []byte(lead + tok[:k]), Chunk: chunk}, Run)
						n++
					}
				}
			}
		}
	}
	// an opening quote as the very last byte of a 4096 byte read buffer
	for _, q := range []string{`"`, `'`} {
		for _, pre := range []string{`["abc", `, `{"k": `, "[ "} {
			for _, rest := range []string{"xyz" + q + "]", q, "x"} {
				in := pre + strings.Repeat(" ", 4096-len(pre)-1) + q + rest
				for _, target := range []string{"json", "sen"} {
					vrt.Eval(suite, "total", Case{Target: target, Input: []byte(in), Chunk: 0}, Run)
					n++
				}
			}
		}
	}
	suite.AddExtra("token_end_cases", int64(n))
}

func TestPropRandom(t *testing.T) {
	vrt.Rapid(t, suite, "total", vrt.Scale(40000, 250000), drawCase, Run)
}

func TestReplay(t *testing.T) { suite.ReplayAll(t) }

func fuzzBytes(f *testing.F, target string, seeds []string) {
	for _, s := range seeds {
		f.Add([]byte(s), uint8(0))
		f.Add([]byte("["+s+"]"), uint8(1))
	}
	f.Fuzz(func(t *testing.T, data []byte, chunk uint8) {
		cs := Case{Target: target, Input: data, Chunk: int(chunk % 8)}
		c := &vrt.Ctx{}
		Run(cs, c)
		bad := suite.Finish("total", c, func() []byte { b, _ := json.Marshal(cs); return b })
		if len(bad) > 0 {
			if dir := os.Getenv("VERIF_FUZZ_OUT"); dir != "" {
				cj, _ := json.Marshal(cs)
				b, _ := json.Marshal(vrt.Violation{Prop: "total", Case: cj, Discs: bad})
				_ = os.WriteFile(dir+"/fuzz-violation.json", b, 0o644)
			}
			t.Fatalf("%s@%s: %s", bad[0].Kind, bad[0].Where, bad[0].Detail)
		}
	})
}

func FuzzOjParse(f *testing.F) { fuzzBytes(f, "json", gx.HostileTokens) }
func FuzzSenParse(f *testing.F) {
	fuzzBytes(f, "sen", append([]string{"{a:b c:[1 2 'x y']}", "[a + b]", "f(1 2)", "// c\n[1]", "{a:+'x'}"}, gx.HostileTokens...))
}
func FuzzJpParse(f *testing.F) {
	fuzzBytes(f, "jp", append([]string{"$.a[1]['b'][?(@.x == 3)]..c[1:2:3][*]", "@.a[?(@.b in [1,2])]", "$[1,'a']", "$..[?(@.a =~ /x/)]"}, gx.HostilePath...))
}
func FuzzScript(f *testing.F) {
	fuzzBytes(f, "script", append([]string{"(@.a == 1 && @.b < 'x')", "(!(@.a) || length(@.b) > 2)", "(@ in [1,2,3])", "(@.a + 1 * 3 - 2 / 4 == 2)"}, gx.HostilePath...))
}

var classifiers = []vrt.Classifier{}
