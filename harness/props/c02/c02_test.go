// Package c02 decides C02: parsed values denote exactly what the JSON text denotes.
package c02

import (
	"bytes"
	"encoding/json"
	"fmt"
	"hash/fnv"
	"os"
	"strings"
	"sync"
	"testing"
	"testing/iotest"

	"github.com/ohler55/ojg"
	"github.com/ohler55/ojg/gen"
	"github.com/ohler55/ojg/oj"
	"github.com/ohler55/ojg/sen"
	"pgregory.net/rapid"

	"verif/internal/cmpx"
	"verif/internal/gx"
	"verif/internal/ref"
	"verif/internal/vet"
	"verif/internal/vrt"
)

var suite = vrt.NewSuite("C02", "valid RFC 8259 texts from the grammar generator (number- and escape-heavy weights) and a number-literal shape grid (sign x integer digits x fraction digits x exponent form, bare / in array / in object, each terminator); every text is parsed by oj.Parse, Parser.ParseReader (1-byte reads), oj.Tokenizer (events), gen.Parser, sen.Parse and sen.Tokenizer and compared with an exact reference decoder (math/big rationals, strconv nearest float, own escape decoder). Non-trivial = contains a number with >=16 digits, a fraction with leading zero, an exponent, or a string with an escape/raw high byte; distinct = distinct text")

type Case struct {
	Text []byte `json:"text"`
}

func TestMain(m *testing.M) {
	vrt.InitRapid()
	vrt.RegisterReplay(suite, "denote", Run)
	suite.Register(classifiers...)
	vrt.Main(m, suite)
}

type frontEnd struct {
	name   string
	events bool
	f      func(d []byte) (any, []cmpx.Event, error)
}

var frontEnds = []frontEnd{
	{"oj.Parse", false, func(d []byte) (any, []cmpx.Event, error) { v, err := oj.Parse(d); return v, nil, err }},
	{"oj.Parser.ParseReader/1", false, func(d []byte) (any, []cmpx.Event, error) {
		p := oj.Parser{}
		v, err := p.ParseReader(iotest.OneByteReader(bytes.NewReader(d)))
		return v, nil, err
	}},
	{"oj.Tokenizer.Parse", true, func(d []byte) (any, []cmpx.Event, error) {
		r := &cmpx.Recorder{}
		t := oj.Tokenizer{}
		err := t.Parse(d, r)
		return nil, r.Events, err
	}},
	{"oj.Tokenizer.Load/1", true, func(d []byte) (any, []cmpx.Event, error) {
		r := &cmpx.Recorder{}
		t := oj.Tokenizer{}
		err := t.Load(iotest.OneByteReader(bytes.NewReader(d)), r)
		return nil, r.Events, err
	}},
	{"gen.Parser.Parse", false, func(d []byte) (any, []cmpx.Event, error) { p := gen.Parser{}; v, err := p.Parse(d); return v, nil, err }},
	{"gen.Parser.ParseReader/1", false, func(d []byte) (any, []cmpx.Event, error) {
		p := gen.Parser{}
		v, err := p.ParseReader(iotest.OneByteReader(bytes.NewReader(d)))
		return v, nil, err
	}},
	{"sen.Parse", false, func(d []byte) (any, []cmpx.Event, error) { v, err := sen.Parse(d); return v, nil, err }},
	{"sen.Parser.ParseReader/1", false, func(d []byte) (any, []cmpx.Event, error) {
		p := sen.Parser{}
		v, err := p.ParseReader(iotest.OneByteReader(bytes.NewReader(d)))
		return v, nil, err
	}},
	{"sen.Tokenizer.Parse", true, func(d []byte) (any, []cmpx.Event, error) {
		r := &cmpx.Recorder{}
		t := sen.Tokenizer{}
		err := t.Parse(d, r)
		return nil, r.Events, err
	}},
	// with the conversion option numbers kept as text come back as the nearest float64 instead
	{"oj.Parse(NumConvFloat64)", false, func(d []byte) (any, []cmpx.Event, error) {
		v, err := oj.Parse(d, ojg.NumConvFloat64)
		return v, nil, err
	}},
	{"oj.Parser.ParseReader(NumConvFloat64)/1", false, func(d []byte) (any, []cmpx.Event, error) {
		p := oj.Parser{}
		v, err := p.ParseReader(iotest.OneByteReader(bytes.NewReader(d)), ojg.NumConvFloat64)
		return v, nil, err
	}},
	{"sen.Parse(NumConvFloat64)", false, func(d []byte) (any, []cmpx.Event, error) {
		v, err := sen.Parse(d, ojg.NumConvFloat64)
		return v, nil, err
	}},
	// the same through instances that have a history of earlier calls (internal/vet)
	{"oj.Parser(veteran).Parse", false, func(d []byte) (any, []cmpx.Event, error) { v, err := vet.OjParser().Parse(d); return v, nil, err }},
	{"oj.Parser(veteran).ParseReader/1", false, func(d []byte) (any, []cmpx.Event, error) {
		v, err := vet.OjParser().ParseReader(iotest.OneByteReader(bytes.NewReader(d)))
		return v, nil, err
	}},
	{"gen.Parser(veteran).Parse", false, func(d []byte) (any, []cmpx.Event, error) { v, err := vet.GenParser().Parse(d); return v, nil, err }},
	{"gen.Parser(veteran).ParseReader/1", false, func(d []byte) (any, []cmpx.Event, error) {
		v, err := vet.GenParser().ParseReader(iotest.OneByteReader(bytes.NewReader(d)))
		return v, nil, err
	}},
	{"sen.Parser(veteran).Parse", false, func(d []byte) (any, []cmpx.Event, error) { v, err := vet.SenParser().Parse(d); return v, nil, err }},
	// ... whose last calls passed a number conversion option, or were ended by a reader error or a
	// panicking callback with containers open
	{"oj.Parser(after option).Parse", false, func(d []byte) (any, []cmpx.Event, error) { v, err := vet.OjParserAfterOption().Parse(d); return v, nil, err }},
	{"oj.Parser(after option).ParseReader", false, func(d []byte) (any, []cmpx.Event, error) {
		v, err := vet.OjParserAfterOption().ParseReader(bytes.NewReader(d))
		return v, nil, err
	}},
	{"sen.Parser(after option).Parse", false, func(d []byte) (any, []cmpx.Event, error) { v, err := vet.SenParserAfterOption().Parse(d); return v, nil, err }},
	{"sen.Parser(after option).ParseReader", false, func(d []byte) (any, []cmpx.Event, error) {
		v, err := vet.SenParserAfterOption().ParseReader(bytes.NewReader(d))
		return v, nil, err
	}},
	{"oj.Parser(after abort).Parse", false, func(d []byte) (any, []cmpx.Event, error) { v, err := vet.OjParserAfterAbort().Parse(d); return v, nil, err }},
	{"gen.Parser(after abort).Parse", false, func(d []byte) (any, []cmpx.Event, error) { v, err := vet.GenParserAfterAbort().Parse(d); return v, nil, err }},
	{"gen.Parser(after abort).ParseReader", false, func(d []byte) (any, []cmpx.Event, error) {
		v, err := vet.GenParserAfterAbort().ParseReader(bytes.NewReader(d))
		return v, nil, err
	}},
	{"sen.Parser(after abort).ParseReader", false, func(d []byte) (any, []cmpx.Event, error) {
		v, err := vet.SenParserAfterAbort().ParseReader(bytes.NewReader(d))
		return v, nil, err
	}},
	{"oj.Tokenizer(veteran).Load/1", true, func(d []byte) (any, []cmpx.Event, error) {
		r := &cmpx.Recorder{}
		err := vet.OjTokenizer().Load(iotest.OneByteReader(bytes.NewReader(d)), r)
		return nil, r.Events, err
	}},
	{"sen.Tokenizer(veteran).Parse", true, func(d []byte) (any, []cmpx.Event, error) {
		r := &cmpx.Recorder{}
		err := vet.SenTokenizer().Parse(d, r)
		return nil, r.Events, err
	}},
}

func Run(cs Case, c *vrt.Ctx) {
	c.SetKey(cs.Text)
	n, err := ref.Decode(cs.Text)
	if err != nil {
		c.Class("invalid-text(skipped)")
		return
	}
	feats := map[string]bool{}
	cmpx.Features(n, feats)
	for f := range feats {
		c.Tag(f)
	}
	if feats["idig:16-17"] || feats["idig:18"] || feats["idig:19"] || feats["idig:20"] || feats["idig:21+"] || feats["fdig:16-17"] || feats["fdig:18"] ||
		feats["fdig:19"] || feats["fdig:20"] || feats["fdig:21+"] || feats["frac-leading-zero"] || feats["exp:neg"] || feats["exp:pos"] ||
		feats["astral"] || feats["raw-high-bytes"] || feats["lone-surrogate"] || bytes.IndexByte(cs.Text, '\\') >= 0 {
		c.NonTrivial()
	}
	c.Sample(map[string]any{"text": string(cs.Text)})
	// the veteran instances cost a history of calls each: every fourth text (by content)
	h := fnv.New32a()
	_, _ = h.Write(cs.Text)
	veterans := h.Sum32()%4 == 0
	if veterans {
		c.Class("veteran-instances")
	}
	for _, fe := range frontEnds {
		if !veterans && strings.Contains(fe.name, "(veteran)") {
			continue
		}
		var v any
		var evs []cmpx.Event
		var perr error
		pv, stack := vrt.Catch(func() { v, evs, perr = fe.f(gx.Exact(cs.Text)) })
		if pv != nil {
			c.Fail("panic", fe.name, fmt.Sprintf("%v at %s on %q", pv, stack, cs.Text))
			continue
		}
		if perr != nil {
			c.Fail("reject-valid", fe.name, fmt.Sprintf("%v on %q", perr, cs.Text))
			continue
		}
		var ms []cmpx.Mismatch
		if fe.events {
			ms = cmpx.MatchEvents(n, evs)
		} else {
			cmpx.MatchTree(n, v, "$", &ms)
		}
		for _, m := range ms {
			if m.Kind == "number-inf" {
				c.DontCare("float-overflow-to-inf")
				continue
			}
			c.Fail(m.Kind, fe.name, fmt.Sprintf("%s in %q", m.String(), clip(cs.Text)), m.Tags...)
		}
	}
}

func clip(b []byte) string {
	if len(b) > 200 {
		return string(b[:200]) + "…"
	}
	return string(b)
}

func drawText(t *rapid.T) Case {
	o := gx.DefaultText
	o.MaxDepth = 3
	switch rapid.IntRange(0, 3).Draw(t, "form") {
	case 0: // a single number literal in a context with a terminator
		lit := gx.NumberLit(t, true)
		return Case{Text: []byte(wrapLit(t, lit))}
	case 1: // a single string
		return Case{Text: []byte(wrapLit(t, gx.StringLit(t, o)))}
	}
	return Case{Text: gx.JSONText(t, o)}
}

var wraps = [][2]string{{"", ""}, {"", " "}, {"", "\n"}, {"[", "]"}, {"[", " ]"}, {"[", "\n]"}, {"[", ",1]"}, {`{"k":`, "}"}, {`{"k":`, `,"j":2}`}, {`{"k":`, " }"}, {"[1,", "]"}, {" ", "\t"}, {"[[", "]]"}}

func wrapLit(t *rapid.T, lit string) string {
	w := rapid.SampledFrom(wraps).Draw(t, "wrap")
	return w[0] + lit + w[1]
}

func TestPropRandom(t *testing.T) {
	vrt.Rapid(t, suite, "denote", vrt.Scale(30000, 200000), drawText, Run)
}

// TestEnumGrid walks the number-shape grid deterministically: every
// (sign, integer-digit bucket, fraction bucket, exponent form, wrap) cell with a
// few digit fillings.
func TestEnumGrid(t *testing.T) {
	idigs := []int{1, 2, 9, 15, 16, 17, 18, 19, 20, 21, 25, 40}
	fdigs := []int{0, 1, 2, 9, 15, 16, 17, 18, 19, 20, 21, 25, 40}
	exps := []string{"", "e0", "e1", "E+1", "e-1", "e10", "e-10", "E22", "e-22", "e23", "e+100", "e-100", "e308", "e-308", "e-320", "e-330", "e0005", "e+0", "e-0"}
	fills := []byte{'9', '1', '0', '5'}
	if !vrt.Thorough() {
		fills = fills[:2]
		exps = exps[:10]
	}
	var mu sync.Mutex
	total := 0
	vrt.Workers(func(si, sn int) {
		n := 0
		k := 0
		for _, neg := range []string{"", "-"} {
			for _, id := range idigs {
				for _, fd := range fdigs {
					for _, ex := range exps {
						k++
						if k%sn != si {
							continue
						}
						for _, fill := range fills {
							ip := strings.Repeat(string(fill), id)
							if fill == '0' {
								ip = "1" + strings.Repeat("0", id-1)
							}
							lit := neg + ip
							if fd > 0 {
								for _, lz := range []int{0, 1, fd - 1} {
									if lz < 0 || lz >= fd && fd > 1 {
										continue
									}
									fr := strings.Repeat("0", lz) + strings.Repeat(string(fill), fd-lz)
									for wi, w := range wraps {
										if !vrt.Thorough() && wi%4 != (id+fd)%4 {
											continue
										}
										vrt.Eval(suite, "denote", Case{Text: []byte(w[0] + lit + "." + fr + ex + w[1])}, Run)
										n++
									}
								}
							} else {
								for wi, w := range wraps {
									if !vrt.Thorough() && wi%4 != id%4 {
										continue
									}
									vrt.Eval(suite, "denote", Case{Text: []byte(w[0] + lit + ex + w[1])}, Run)
									n++
								}
							}
						}
					}
				}
			}
		}
		mu.Lock()
		total += n
		mu.Unlock()
	})
	// boundary integers, bare and wrapped
	for _, b := range []string{"9223372036854775807", "-9223372036854775808", "9223372036854775808", "-9223372036854775809", "18446744073709551615", "18446744073709551616",
		"9007199254740993", "-9007199254740993", "999999999999999999", "9999999999999999999", "1000000000000000000", "10000000000000000000", "0", "-0", "0.0", "-0.0", "0e0", "-0e-0",
		"1844674407370955161", "1844674407370955162", "922337203685477580", "922337203685477581", "4.9e-324", "2.4e-324", "2.5e-324", "1.7976931348623157e308", "1.7976931348623159e308",
		"2.2250738585072011e-308", "0.1", "0.3", "100000000000000000000000", "1e23", "8.41e21", "9007199254740993.0", "123456789012345678.5", "0.000001", "1e-7", "5e-324"} {
		for _, w := range wraps {
			vrt.Eval(suite, "denote", Case{Text: []byte(w[0] + b + w[1])}, Run)
			total++
		}
	}
	suite.AddExtra("grid_cases", int64(total))
}

func TestReplay(t *testing.T) { suite.ReplayAll(t) }

// FuzzNumber: bytes are decoded into a number-literal shape so that coverage
// guidance explores digit-count thresholds instead of dying in validation.
func FuzzNumber(f *testing.F) {
	f.Add([]byte("123456789012345678901234567890"), uint8(3))
	f.Add([]byte("-0.000000000000000000001e-5"), uint8(0))
	f.Add([]byte("9223372036854775807"), uint8(7))
	f.Fuzz(func(t *testing.T, raw []byte, wrap uint8) {
		lit := shapeToLiteral(raw)
		if lit == "" {
			t.Skip()
		}
		w := wraps[int(wrap)%len(wraps)]
		cs := Case{Text: []byte(w[0] + lit + w[1])}
		c := &vrt.Ctx{}
		Run(cs, c)
		bad := suite.Finish("denote", c, func() []byte { b, _ := json.Marshal(cs); return b })
		if len(bad) > 0 {
			if dir := os.Getenv("VERIF_FUZZ_OUT"); dir != "" {
				cj, _ := json.Marshal(cs)
				b, _ := json.Marshal(vrt.Violation{Prop: "denote", Case: cj, Discs: bad})
				_ = os.WriteFile(dir+"/fuzz-violation.json", b, 0o644)
			}
			t.Fatalf("%s@%s: %s", bad[0].Kind, bad[0].Where, bad[0].Detail)
		}
	})
}

// shapeToLiteral maps arbitrary bytes to a valid number literal: digits are kept,
// the first '.', and the first e/E with an optional sign; everything else is dropped.
func shapeToLiteral(raw []byte) string {
	var ip, fr, ex []byte
	neg, negExp := false, false
	state := 0
	for i, b := range raw {
		switch {
		case b == '-' && i == 0:
			neg = true
		case '0' <= b && b <= '9':
			switch state {
			case 0:
				ip = append(ip, b)
			case 1:
				fr = append(fr, b)
			default:
				if len(ex) < 3 {
					ex = append(ex, b)
				}
			}
		case b == '.' && state == 0:
			state = 1
		case (b == 'e' || b == 'E') && state < 2:
			state = 2
		case b == '-' && state == 2 && len(ex) == 0:
			negExp = true
		}
	}
	for len(ip) > 1 && ip[0] == '0' {
		ip = ip[1:]
	}
	if len(ip) == 0 || len(ip) > 60 || len(fr) > 60 {
		return ""
	}
	s := string(ip)
	if neg {
		s = "-" + s
	}
	if len(fr) > 0 {
		s += "." + string(fr)
	}
	if len(ex) > 0 {
		s += "e"
		if negExp {
			s += "-"
		}
		s += string(ex)
	}
	return s
}

func hasTag(d vrt.Disc, t string) bool {
	for _, x := range d.Tags {
		if x == t {
			return true
		}
	}
	return false
}

var classifiers = []vrt.Classifier{
	// C02-K1: plain integers 9223372036854775800..9223372036854775807 (either sign) come back as
	// json.Number / gen.Big: the inline digit loops switch to big when I reaches MaxInt64/10.
	// The repository's own tests pin this (oj/parser_test.go expects a json.Number for
	// 9223372036854775807), so it cannot be repaired without editing the test suite.
	// (C02-K2, escaped surrogate pairs decoded as two U+FFFD, was repaired in 91f992e: the tag
	// "pair-as-two-replacements" only describes a violation now, nothing claims it)
	{ID: "C02-K1", Match: func(d vrt.Disc, c *vrt.Ctx) bool {
		// with NumConvFloat64 the number that was kept as text is then handed out as a float64
		return d.Kind == "number-int-required" && hasTag(d, "int64-top-decade") &&
			(hasTag(d, "got:big") || (strings.Contains(d.Where, "NumConvFloat64") && hasTag(d, "got:float")))
	}},
}
