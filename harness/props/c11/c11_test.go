// Package c11 decides C11: every JSONPath evaluator and data representation agrees with Get.
package c11

import (
	"fmt"
	"os"
	"reflect"
	"sort"
	"strings"
	"testing"

	"github.com/ohler55/ojg"
	"github.com/ohler55/ojg/alt"
	"github.com/ohler55/ojg/gen"
	"github.com/ohler55/ojg/jp"
	"pgregory.net/rapid"

	"verif/internal/canon"
	"verif/internal/jpx"
	"verif/internal/vrt"
	"verif/internal/wx"
)

var suite = vrt.NewSuite("C11", "C05's (path, data) cases, paths not ending in a bare descent, evaluated by Get, Has, First, FirstFound, Locate (unbounded and bounded), Expr.Walk, GetNodes and FirstNode on five representations of the same tree: simple, gen, typed Go slices and arrays ([]int64, []string, []map[string]any, [3]any), reflect.StructOf structs (every other one with an unexported field) and pointers to them, and user Keyed/Indexed collections. Oracle: on every representation Has == (Get non-empty); First/FirstFound return a member of Get (the first when the order is defined); every path Locate/Walk report is normal, selects exactly one value, and together they select Get's multiset; results on every representation are canon-equal to the simple-data results; the reference evaluator arbitrates; plus an exhaustive matrix of container shapes x positions x fragments x continuations x representations and a matrix of descents that start from several elements at once. Non-trivial = Get non-empty and (>=2 fragments or a non-simple representation); distinct = distinct (path, data, representation)")

type Case struct {
	Path jpx.Path `json:"path"`
	Data any      `json:"data"`
	Rep  string   `json:"rep"` // simple gen typed struct wrapped
	Max  int      `json:"max,omitempty"`
	// Diff: the expected selection is what Get gives on the simple form of the data (for the
	// operators whose meaning no document states and the reference does not model: in, empty)
	Diff bool `json:"diff,omitempty"`
}

func TestMain(m *testing.M) {
	vrt.InitRapid()
	vrt.RegisterReplay(suite, "agree", Run)
	suite.Register(classifiers...)
	vrt.Main(m, suite)
}

// ---- representations ----

type keyed struct {
	keys []string
	m    map[string]any
}

func (k *keyed) ValueForKey(key string) (any, bool) { v, ok := k.m[key]; return v, ok }
func (k *keyed) SetValueForKey(key string, v any) {
	if _, ok := k.m[key]; !ok {
		k.keys = append(k.keys, key)
	}
	k.m[key] = v
}
func (k *keyed) RemoveValueForKey(key string) {
	delete(k.m, key)
	for i, x := range k.keys {
		if x == key {
			k.keys = append(k.keys[:i], k.keys[i+1:]...)
			break
		}
	}
}
func (k *keyed) Keys() []string  { return append([]string(nil), k.keys...) }
func (k *keyed) CanonValue() any { return k.m }

type indexed struct{ a []any }

func (x *indexed) ValueAtIndex(i int) any {
	if i < 0 || i >= len(x.a) {
		return nil
	}
	return x.a[i]
}
func (x *indexed) SetValueAtIndex(i int, v any) { x.a[i] = v }
func (x *indexed) Size() int                    { return len(x.a) }
func (x *indexed) CanonValue() any              { return x.a }

func wrap(v any) any {
	switch tv := v.(type) {
	case []any:
		out := make([]any, len(tv))
		for i, e := range tv {
			out[i] = wrap(e)
		}
		return &indexed{out}
	case map[string]any:
		k := &keyed{m: map[string]any{}}
		keys := make([]string, 0, len(tv))
		for key := range tv {
			keys = append(keys, key)
		}
		sort.Strings(keys)
		for _, key := range keys {
			k.SetValueForKey(key, wrap(tv[key]))
		}
		return k
	}
	return v
}

// typedKind: which reflected container typed() makes of an array ("" = it stays a []any).
func typedKind(tv []any) string {
	if len(tv) == 0 {
		return ""
	}
	allInt, allStr, allMap := true, true, true
	for _, e := range tv {
		if _, ok := e.(int64); !ok {
			allInt = false
		}
		if _, ok := e.(string); !ok {
			allStr = false
		}
		if _, ok := e.(map[string]any); !ok {
			allMap = false
		}
	}
	switch {
	case allInt:
		return "int"
	case allStr:
		return "str"
	case allMap:
		return "map"
	case len(tv) == 3:
		return "arr3"
	}
	return ""
}

// typed converts homogeneous arrays into typed Go slices and three element arrays into [3]any.
func typed(v any) any {
	switch tv := v.(type) {
	case []any:
		if len(tv) == 0 {
			return tv
		}
		k := typedKind(tv)
		allInt, allStr, allMap := k == "int", k == "str", k == "map"
		switch {
		case allInt:
			out := make([]int64, len(tv))
			for i, e := range tv {
				out[i] = e.(int64)
			}
			return out
		case allStr:
			out := make([]string, len(tv))
			for i, e := range tv {
				out[i] = e.(string)
			}
			return out
		case allMap:
			out := make([]map[string]any, len(tv))
			for i, e := range tv {
				out[i], _ = typed(e).(map[string]any)
				if out[i] == nil {
					out[i] = e.(map[string]any)
				}
			}
			return out
		case len(tv) == 3:
			var out [3]any
			for i, e := range tv {
				out[i] = typed(e)
			}
			return out
		}
		out := make([]any, len(tv))
		for i, e := range tv {
			out[i] = typed(e)
		}
		return out
	case map[string]any:
		// the property names typed slices, arrays and structs; a typed map (map[string]int64) is
		// reached by a child step only (wildcards, filters and descents do not iterate it in
		// Get), so none is generated
		out := make(map[string]any, len(tv))
		for k, e := range tv {
			out[k] = typed(e)
		}
		return out
	}
	return v
}

// isStructMap: structs() turns this map into a struct.
func isStructMap(m map[string]any) bool {
	for k := range m {
		if structSafe[k] == "" {
			return false
		}
	}
	return len(m) > 0
}

var structSafe = map[string]string{"a": "A", "b": "B", "c": "C", "x": "X"}

// structs converts maps whose keys are all identifier-safe into reflect.StructOf values
// (json tag = key), alternating value and pointer form by depth.
func structs(v any, depth int) any {
	switch tv := v.(type) {
	case []any:
		out := make([]any, len(tv))
		for i, e := range tv {
			out[i] = structs(e, depth+1)
		}
		return out
	case map[string]any:
		ok := len(tv) > 0
		for k := range tv {
			if structSafe[k] == "" {
				ok = false
			}
		}
		if !ok {
			out := make(map[string]any, len(tv))
			for k, e := range tv {
				out[k] = structs(e, depth+1)
			}
			return out
		}
		keys := make([]string, 0, len(tv))
		for k := range tv {
			keys = append(keys, k)
		}
		sort.Strings(keys)
		var fields []reflect.StructField
		// every other struct also has a field that is not exported: it is not a member, for any
		// of the functions
		hiddenAt := -1
		if (len(keys)+depth)%2 == 0 {
			hiddenAt = len(keys) / 2
		}
		at := map[string]int{}
		for i, k := range keys {
			if i == hiddenAt {
				fields = append(fields, reflect.StructField{Name: "hidden", PkgPath: "verif/c11", Type: reflect.TypeOf(0), Tag: `json:"hidden"`})
			}
			at[k] = len(fields)
			fields = append(fields, reflect.StructField{Name: structSafe[k], Type: reflect.TypeOf((*any)(nil)).Elem(), Tag: reflect.StructTag(`json:"` + k + `"`)})
		}
		rv := reflect.New(reflect.StructOf(fields))
		for _, k := range keys {
			if e := structs(tv[k], depth+1); e != nil {
				rv.Elem().Field(at[k]).Set(reflect.ValueOf(e))
			}
		}
		if depth%2 == 0 {
			return rv.Interface()
		}
		return rv.Elem().Interface()
	}
	return v
}

var keepAll = &ojg.Options{}

// goInts: the simple tree with its numbers in the other Go kinds a caller may have put there
// (int, int32, uint8, float32 where the value fits), containers unchanged.
func goInts(v any, n *int) any {
	switch tv := v.(type) {
	case map[string]any:
		out := map[string]any{}
		for k, e := range tv {
			out[k] = goInts(e, n)
		}
		return out
	case []any:
		out := make([]any, len(tv))
		for i, e := range tv {
			out[i] = goInts(e, n)
		}
		return out
	case int64:
		*n++
		switch {
		case *n%3 == 0 && 0 <= tv && tv <= 255:
			return uint8(tv)
		case *n%3 == 1 && -1<<31 <= tv && tv < 1<<31:
			return int32(tv)
		}
		return int(tv)
	case float64:
		if float64(float32(tv)) == tv {
			return float32(tv)
		}
	}
	return v
}

func genLeaves(v any) any {
	switch tv := v.(type) {
	case map[string]any:
		out := map[string]any{}
		for k, e := range tv {
			out[k] = genLeaves(e)
		}
		return out
	case []any:
		out := make([]any, len(tv))
		for i, e := range tv {
			out[i] = genLeaves(e)
		}
		return out
	case int64:
		return gen.Int(tv)
	case float64:
		return gen.Float(tv)
	case string:
		return gen.String(tv)
	case bool:
		return gen.Bool(tv)
	}
	return v
}

func represent(data any, rep string) any {
	switch rep {
	case "gen":
		if g := alt.Generify(data, keepAll); g != nil {
			return g
		}
		return nil
	case "typed":
		return typed(data)
	case "struct":
		return structs(data, 0)
	case "wrapped":
		return wrap(data)
	case "goints":
		return goInts(data, new(int))
	case "mixed":
		// simple containers that hold gen scalars (what a caller gets who fills a []any from
		// gen nodes)
		return genLeaves(data)
	}
	return data
}

func canonList(vs []any) []string {
	out := make([]string, len(vs))
	for i, v := range vs {
		out[i] = canon.String(v, canon.Value)
	}
	return out
}

func sorted(a []string) []string {
	x := append([]string(nil), a...)
	sort.Strings(x)
	return x
}

func sameMultiset(a, b []string) bool {
	return strings.Join(sorted(a), "\x00") == strings.Join(sorted(b), "\x00") && len(a) == len(b)
}

func contains(a []string, s string) bool {
	for _, x := range a {
		if x == s {
			return true
		}
	}
	return false
}

func Run(cs Case, c *vrt.Ctx) {
	data := wx.Dec(cs.Data)
	res := jpx.Eval(cs.Path, data)
	refWant := canonList(valuesOf(res.Locs))
	x := cs.Path.Build()
	if cs.Diff {
		var onSimple []any
		if pv, _ := vrt.Catch(func() { onSimple = x.Get(canon.Copy(data)) }); pv != nil {
			c.DontCare("get-panics-on-simple-data(C12)")
			return
		}
		refWant = canonList(onSimple)
		c.Class("differential-against-simple")
	}
	desc := fmt.Sprintf("path %s (%s) rep=%s data %s", cs.Path, x.String(), cs.Rep, canon.String(data, canon.Value))
	in := represent(data, cs.Rep)
	c.Class("rep:" + cs.Rep)
	for f := range res.Feat {
		c.Tag(f)
	}
	tags := []string{"rep:" + cs.Rep}
	kinds := map[string]bool{}
	for _, f := range cs.Path {
		kinds[f.K] = true
	}
	for _, k := range []string{"descent", "filter", "slice", "union", "wild", "nth"} {
		if kinds[k] {
			tags = append(tags, "has:"+k)
		}
	}
	for _, f := range []string{"filter-uses-root", "slice-negstep-start-beyond"} {
		if res.Feat[f] {
			tags = append(tags, f)
		}
	}
	if res.Feat["compares-container"] && cs.Rep != "simple" && cs.Rep != "gen" {
		// == / != on whole containers: only defined for simple and gen data (user collections
		// and reflected values may be comparable pointers)
		c.DontCare("container-comparison-on-user-types")
		return
	}
	var got []any
	if pv, stack := vrt.Catch(func() { got = x.Get(in) }); pv != nil {
		c.Fail("panic", "Get", fmt.Sprintf("%v at %s; %s", pv, stack, desc), tags...)
		return
	}
	gs := canonList(got)
	refOK := res.DontCare != "" || sameMultiset(gs, refWant)
	arb := "get-agrees-with-reference"
	if !refOK {
		arb = "get-differs-from-reference"
		// across representations: the simple-data result is C05's business, the others are C11's
		if cs.Rep != "simple" {
			c.Fail("representation-differs", "Get", fmt.Sprintf("%s: got %v, simple data / reference %v", desc, gs, refWant), tags...)
		} else {
			c.Class("get-wrong-on-simple(C05)")
		}
	}
	if len(gs) > 0 && (len(cs.Path) >= 3 || cs.Rep != "simple") {
		c.NonTrivial()
	}
	c.Sample(map[string]any{"path": cs.Path.String(), "rep": cs.Rep, "data": canon.String(data, canon.Value), "get": gs})
	tags = append(tags, arb)
	ordered := res.Ordered && res.DontCare == ""
	if cs.Rep == "struct" && !ordered && res.DontCare == "" {
		// the fields of a struct have an order (structs() declares them in sorted key order)
		ordered = jpx.EvalOrderedMaps(cs.Path, data, isStructMap).Ordered
	}
	check := func(where string, f func()) bool {
		if pv, stack := vrt.Catch(f); pv != nil {
			c.Fail("panic", where, fmt.Sprintf("%v at %s; %s", pv, stack, desc), tags...)
			return false
		}
		return true
	}
	// C11-K4: First, FirstFound and Has look at the element at the start index only when a slice
	// meets a reflected slice or array. A discrepancy of theirs is attributed to that finding
	// only when this reading, emulated on the reference, gives exactly what they returned.
	var startOnly []string
	startOnlyRead := false
	startOnlyOpen := false // the reference does not decide every slice of this case
	if cs.Rep == "typed" && kinds["slice"] {
		alt := jpx.EvalSliceHook(cs.Path, data, func(arr []any, s []int) ([]int, bool) {
			if typedKind(arr) == "" {
				return nil, false
			}
			start := 0
			if len(s) > 0 {
				start = s[0]
			}
			if len(s) > 2 && s[2] == 0 {
				return nil, true
			}
			if start < 0 {
				start += len(arr)
			}
			if start < 0 || len(arr) <= start {
				return nil, true
			}
			return []int{start}, true
		})
		startOnly, startOnlyRead = canonList(valuesOf(alt.Locs)), true
		startOnlyOpen = alt.DontCare != "" || res.DontCare != ""
	}
	explained := func(ok bool) []string {
		if startOnlyRead && (ok || startOnlyOpen) {
			// where a slice of the case is in a zone the statement leaves open (negative step with
			// a defaulted bound or a start beyond the end) the emulation is not exact either
			return append(append([]string(nil), tags...), "explained-by-start-only-slice-reading")
		}
		return tags
	}
	// Has
	var has bool
	if check("Has", func() { has = x.Has(in) }) && has != (len(gs) > 0) {
		c.Fail("has-differs", "Has", fmt.Sprintf("%s: Has=%v but Get=%v", desc, has, gs), explained(has == (len(startOnly) > 0))...)
	}
	// FirstFound / First
	var ff, first any
	var found bool
	if check("FirstFound", func() { ff, found = x.FirstFound(in) }) {
		ftags := explained(found == (len(startOnly) > 0) && (!found || contains(startOnly, canon.String(ff, canon.Value))))
		switch {
		case found != (len(gs) > 0):
			c.Fail("first-differs", "FirstFound", fmt.Sprintf("%s: found=%v but Get=%v", desc, found, gs), ftags...)
		case found && !contains(gs, canon.String(ff, canon.Value)):
			c.Fail("first-differs", "FirstFound", fmt.Sprintf("%s: %s is not in Get=%v", desc, canon.String(ff, canon.Value), gs), ftags...)
		case found && ordered && canon.String(ff, canon.Value) != gs[0]:
			c.Fail("first-not-first", "FirstFound", fmt.Sprintf("%s: %s but Get=%v", desc, canon.String(ff, canon.Value), gs), ftags...)
		}
	}
	if check("First", func() { first = x.First(in) }) {
		fc := canon.String(first, canon.Value)
		ftags := explained((len(startOnly) == 0 && first == nil) || contains(startOnly, fc))
		switch {
		case len(gs) == 0 && first != nil:
			c.Fail("first-differs", "First", fmt.Sprintf("%s: First=%s but Get is empty", desc, fc), ftags...)
		case len(gs) > 0 && !contains(gs, fc):
			c.Fail("first-differs", "First", fmt.Sprintf("%s: First=%s is not in Get=%v", desc, fc, gs), ftags...)
		case len(gs) > 0 && ordered && fc != gs[0]:
			c.Fail("first-not-first", "First", fmt.Sprintf("%s: First=%s but Get=%v", desc, fc, gs), ftags...)
		}
	}
	// C11-K2: Locate and Walk read a negative-step slice with Slice.startEndStep, which moves a
	// start at or beyond the end to the last element where Get selects nothing (pinned by
	// jp/locate_test.go). Attributed only when that reading gives exactly what they report.
	var lastElem []string
	lastElemRead, lastElemOpen := false, false
	if res.Feat["slice-negstep-start-beyond"] {
		alt := jpx.EvalSliceHook(cs.Path, data, func(arr []any, s []int) ([]int, bool) {
			start, end, step, size := 0, jpx.MaxEnd, 1, len(arr)
			if len(s) > 0 {
				start = s[0]
			}
			if len(s) > 1 {
				end = s[1]
			}
			if len(s) > 2 {
				step = s[2]
			}
			if step >= 0 {
				return nil, false
			}
			if start < 0 {
				if start += size; start < 0 {
					start = 0
				}
			}
			if end < 0 {
				end += size
			}
			if size <= start {
				if size == 0 {
					return nil, true
				}
				start = size - 1
			}
			if size < end {
				end = size
			}
			if end < -1 {
				end = -1
			}
			var idx []int
			for i := start; end < i; i += step {
				idx = append(idx, i)
			}
			return idx, true
		})
		lastElem, lastElemRead = canonList(valuesOf(alt.Locs)), true
		// read this way the path can reach what the statement leaves open (another open slice, a
		// comparison of whole containers on user types): the emulation is not exact there
		lastElemOpen = alt.DontCare != "" || (alt.Feat["compares-container"] && cs.Rep != "simple" && cs.Rep != "gen")
	}
	k2 := func(vals []string) []string {
		if lastElemRead && (lastElemOpen || sameMultiset(vals, lastElem)) {
			return append(append([]string(nil), tags...), "explained-by-start-at-last-element")
		}
		return tags
	}
	// Locate
	var locs []jp.Expr
	if check("Locate", func() { locs = x.Locate(in, 0) }) {
		var vals []string
		bad := false
		for _, l := range locs {
			if !l.Normal() {
				c.Fail("locate-not-normal", "Locate", fmt.Sprintf("%s: %s is not a normal path", desc, l.String()), tags...)
				bad = true
				break
			}
			var one []any
			if !check("Locate.Get", func() { one = l.Get(in) }) {
				bad = true
				break
			}
			if len(one) != 1 {
				c.Fail("locate-path-wrong", "Locate", fmt.Sprintf("%s: located path %s selects %d values", desc, l.String(), len(one)), tags...)
				bad = true
				break
			}
			vals = append(vals, canon.String(one[0], canon.Value))
		}
		if !bad && !sameMultiset(vals, gs) {
			c.Fail("locate-differs", "Locate", fmt.Sprintf("%s: located %v -> %v but Get=%v", desc, exprs(locs), vals, gs), k2(vals)...)
		}
		if !bad && cs.Max > 0 {
			var some []jp.Expr
			if check("Locate(max)", func() { some = x.Locate(in, cs.Max) }) {
				want := cs.Max
				if len(locs) < want {
					want = len(locs)
				}
				all := exprs(locs)
				if len(some) != want {
					c.Fail("locate-max", "Locate", fmt.Sprintf("%s: Locate(max=%d) returned %d of %d", desc, cs.Max, len(some), len(locs)), tags...)
				} else {
					for _, s := range exprs(some) {
						if !contains(all, s) {
							c.Fail("locate-max", "Locate", fmt.Sprintf("%s: Locate(max=%d) returned %s which Locate(0) does not", desc, cs.Max, s), tags...)
						}
					}
				}
			}
		}
	}
	// Walk
	var wpaths, wvals []string
	if check("Walk", func() {
		x.Walk(in, func(p jp.Expr, nodes []any) {
			wpaths = append(wpaths, p.String())
			if len(nodes) > 0 {
				wvals = append(wvals, canon.String(nodes[len(nodes)-1], canon.Value))
			}
		})
	}) {
		if !sameMultiset(wvals, gs) {
			c.Fail("walk-differs", "Walk", fmt.Sprintf("%s: walked %v -> %v but Get=%v", desc, wpaths, wvals, gs), k2(wvals)...)
		} else {
			lp := exprs(locs)
			// Locate prefixes $ only when the expression starts with Root; Walk never does
			for i := range lp {
				lp[i] = strings.TrimPrefix(strings.TrimLeft(lp[i], "$@"), ".")
			}
			wp := append([]string(nil), wpaths...)
			for i := range wp {
				wp[i] = strings.TrimPrefix(strings.TrimLeft(wp[i], "$@"), ".")
			}
			if !sameMultiset(lp, wp) {
				c.Fail("walk-paths-differ", "Walk", fmt.Sprintf("%s: Walk paths %v Locate paths %v", desc, wpaths, exprs(locs)), tags...)
			}
		}
	}
	// gen specific
	if cs.Rep == "gen" {
		if gn, ok := in.(gen.Node); ok {
			var nodes []gen.Node
			var fn gen.Node
			if check("GetNodes", func() { nodes = x.GetNodes(gn) }) {
				ns := make([]string, len(nodes))
				for i, n := range nodes {
					ns[i] = canon.String(n, canon.Value)
				}
				if !sameMultiset(ns, gs) {
					tg := tags
					if sameMultiset(ns, without(gs, "null")) {
						tg = append(append([]string(nil), tags...), "only-nulls-missing")
					}
					c.Fail("getnodes-differs", "GetNodes", fmt.Sprintf("%s: GetNodes=%v Get=%v", desc, ns, gs), tg...)
				} else if ordered && strings.Join(ns, "\x00") != strings.Join(gs, "\x00") {
					c.Fail("getnodes-order", "GetNodes", fmt.Sprintf("%s: GetNodes=%v Get=%v", desc, ns, gs), tags...)
				}
			}
			if check("FirstNode", func() { fn = x.FirstNode(gn) }) {
				fc := canon.String(fn, canon.Value)
				switch {
				case len(gs) == 0 && fn != nil:
					c.Fail("firstnode-differs", "FirstNode", fmt.Sprintf("%s: FirstNode=%s Get empty", desc, fc), tags...)
				case len(gs) > 0 && !contains(gs, fc):
					tg := tags
					if fn == nil && len(without(gs, "null")) == 0 {
						tg = append(append([]string(nil), tags...), "only-nulls-missing")
					}
					c.Fail("firstnode-differs", "FirstNode", fmt.Sprintf("%s: FirstNode=%s Get=%v", desc, fc, gs), tg...)
				case len(gs) > 0 && ordered && fc != gs[0]:
					tg := tags
					if nn := without(gs, "null"); len(nn) > 0 && nn[0] == fc {
						tg = append(append([]string(nil), tags...), "only-nulls-missing")
					}
					c.Fail("firstnode-not-first", "FirstNode", fmt.Sprintf("%s: FirstNode=%s Get=%v", desc, fc, gs), tg...)
				}
			}
		}
	}
}

func without(a []string, s string) []string {
	var out []string
	for _, x := range a {
		if x != s {
			out = append(out, x)
		}
	}
	return out
}

func valuesOf(ls []jpx.Loc) []any {
	out := make([]any, len(ls))
	for i, l := range ls {
		out[i] = l.Val
	}
	return out
}

func exprs(xs []jp.Expr) []string {
	out := make([]string, len(xs))
	for i, x := range xs {
		out[i] = x.String()
	}
	return out
}

func drawCase(t *rapid.T) Case {
	data := jpx.DrawData(t, 4)
	if rapid.IntRange(0, 3).Draw(t, "rootcont") != 0 {
		if _, ok := data.([]any); !ok {
			if _, ok2 := data.(map[string]any); !ok2 {
				data = []any{data, jpx.DrawData(t, 3), jpx.DrawData(t, 3)}
			}
		}
	}
	p := jpx.DrawPath(t, jpx.PathOpts{MaxFrags: 5, FilterDepth: 2, HostileKeys: true, NoTrailingDescent: true})
	// drop trailing brackets after a descent: still a bare trailing descent
	for len(p) > 0 && (p[len(p)-1].K == "bracket" || p[len(p)-1].K == "descent" || p[len(p)-1].K == "at") {
		p = p[:len(p)-1]
	}
	if len(p) == 0 {
		p = jpx.Path{{K: "root"}, {K: "wild"}}
	}
	rep := rapid.SampledFrom([]string{"simple", "gen", "gen", "typed", "typed", "struct", "struct", "wrapped"}).Draw(t, "rep")
	if r := os.Getenv("VERIF_C11_REP"); r != "" {
		rep = r // debugging aid only
	}
	return Case{Path: p, Data: wx.Enc(data), Rep: rep, Max: rapid.IntRange(0, 3).Draw(t, "max")}
}

// TestEnumReps is exhaustive over a small scope: every container kind the representations
// produce ([]int64, []string, []map[string]any, [3]any, struct, pointer to struct, and their
// plain counterparts) at the root, inside an array and inside a map, under every fragment kind
// as last fragment and followed by a child / index / wildcard step, on all five representations.
// The evaluators carry one copy of the reflection code each; a change to one copy for one
// container kind is met here by construction.
func TestEnumReps(t *testing.T) {
	m := func(kv ...any) map[string]any {
		out := map[string]any{}
		for i := 0; i+1 < len(kv); i += 2 {
			out[kv[i].(string)] = kv[i+1]
		}
		return out
	}
	shapes := []any{
		[]any{int64(10), int64(20), int64(30), int64(40)}, // []int64
		[]any{"p", "q"}, // []string
		[]any{m("a", int64(1)), m("a", int64(2), "b", int64(3))},                   // []map[string]any
		[]any{int64(10), m("a", int64(5)), []any{int64(7), int64(8)}},              // [3]any
		m("a", int64(1), "b", []any{int64(5), int64(6)}, "c", m("a", int64(2))),    // struct
		[]any{m("a", int64(1), "x", nil), m("a", int64(2), "b", m("a", int64(3)))}, // structs in an array
		[]any{true, nil, 1.5, "s", []any{}},                                        // stays []any
	}
	i := func(n int) *int { return &n }
	k := func(s string) *string { return &s }
	gt := &jpx.Eq{Op: "gt", L: &jpx.Eq{Op: "get", P: jpx.Path{{K: "at"}}}, R: &jpx.Eq{Op: "const", CK: "int", CI: 1}}
	hasA := &jpx.Eq{Op: "exists", L: &jpx.Eq{Op: "get", P: jpx.Path{{K: "at"}, {K: "child", Key: "a"}}}, R: &jpx.Eq{Op: "const", CK: "bool", CB: true}}
	frags := []jpx.Frag{
		{K: "wild"}, {K: "nth", N: 0}, {K: "nth", N: 1}, {K: "nth", N: -1}, {K: "nth", N: 5}, {K: "child", Key: "a"}, {K: "child", Key: "b"},
		{K: "union", U: []jpx.UItem{{Idx: i(0)}, {Idx: i(-1)}}}, {K: "union", U: []jpx.UItem{{Key: k("a")}, {Key: k("c")}}}, {K: "union", U: []jpx.UItem{{Key: k("a")}, {Idx: i(1)}}},
		{K: "slice", S: nil}, {K: "slice", S: []int{0, 2}}, {K: "slice", S: []int{-2}}, {K: "slice", S: []int{0, 4, 2}}, {K: "slice", S: []int{2, 0, -1}}, {K: "slice", S: []int{1, 1}}, {K: "slice", S: []int{-9, 9}},
		{K: "filter", F: gt}, {K: "filter", F: hasA},
	}
	tails := [][]jpx.Frag{nil, {{K: "child", Key: "a"}}, {{K: "nth", N: 0}}, {{K: "wild"}}}
	n := 0
	for _, sh := range shapes {
		for _, wrap := range []string{"root", "in-array", "in-map"} {
			var data any = sh
			head := jpx.Path{{K: "root"}}
			switch wrap {
			case "in-array":
				data, head = []any{"pad", sh}, jpx.Path{{K: "root"}, {K: "nth", N: 1}}
			case "in-map":
				data, head = m("k", sh, "pad", true), jpx.Path{{K: "root"}, {K: "child", Key: "k"}}
			}
			enc := wx.Enc(data)
			// every fragment is also followed by a filter that refers to $: the root has to travel
			// with the evaluation through each kind of fragment (true for the real root only)
			wtails := tails
			switch wrap {
			case "in-array":
				wtails = append(append([][]jpx.Frag(nil), tails...), []jpx.Frag{{K: "filter", F: &jpx.Eq{Op: "eq", L: &jpx.Eq{Op: "get", P: jpx.Path{{K: "root"}, {K: "nth", N: 0}}}, R: &jpx.Eq{Op: "const", CK: "string", CS: "pad"}}}})
			case "in-map":
				wtails = append(append([][]jpx.Frag(nil), tails...), []jpx.Frag{{K: "filter", F: &jpx.Eq{Op: "eq", L: &jpx.Eq{Op: "get", P: jpx.Path{{K: "root"}, {K: "child", Key: "pad"}}}, R: &jpx.Eq{Op: "const", CK: "bool", CB: true}}}})
			}
			for _, f := range frags {
				for _, desc := range []bool{false, true} {
					for _, tail := range wtails {
						p := append(jpx.Path{}, head...)
						if desc {
							p = append(p, jpx.Frag{K: "descent"})
						}
						p = append(append(p, f), tail...)
						for _, rep := range []string{"simple", "gen", "typed", "struct", "wrapped"} {
							vrt.Eval(suite, "agree", Case{Path: p, Data: enc, Rep: rep, Max: 1 + n%3}, Run)
							n++
						}
					}
				}
			}
		}
	}
	suite.AddExtra("representation_matrix_cases", int64(n))
	suite.Extra("representation_matrix_exhaustive_over", fmt.Sprintf("%d container shapes x {root, in an array, in a map} x %d fragments x {direct, under a descent} x %d continuations (one more, a filter that refers to $, below the root) x 5 representations", len(shapes), len(frags), len(tails)))
}

// TestEnumDescentAfter: a descent that starts from several elements at once (after a wildcard,
// union, slice or filter), where the first of them have nothing to find and a later one has it
// strictly below itself: the functions that stop at the first match have to keep the elements
// that are still waiting apart from the one they are expanding.
func TestEnumDescentAfter(t *testing.T) {
	m := func(kv ...any) map[string]any {
		out := map[string]any{}
		for i := 0; i+1 < len(kv); i += 2 {
			out[kv[i].(string)] = kv[i+1]
		}
		return out
	}
	i := func(n int) *int { return &n }
	k := func(s string) *string { return &s }
	datas := []any{
		[]any{m("c", int64(1)), m("b", m("a", int64(5))), m("a", int64(6), "c", m("a", int64(7)))},
		[]any{m("c", m("c", int64(1))), m("c", int64(2)), m("b", []any{m("a", int64(5))}), []any{m("a", int64(8))}},
		m("a", m("c", int64(1)), "b", m("b", m("a", int64(5))), "c", []any{m("a", int64(8))}),
		[]any{[]any{int64(1), int64(2)}, []any{m("a", int64(5))}, m("a", []any{m("a", int64(9))})},
		[]any{m("c", int64(1)), m("b", []any{int64(3), []any{int64(4), int64(5)}}), []any{[]any{int64(6)}}},
	}
	all := &jpx.Eq{Op: "neq", L: &jpx.Eq{Op: "get", P: jpx.Path{{K: "at"}}}, R: &jpx.Eq{Op: "const", CK: "int", CI: 99}}
	heads := [][]jpx.Frag{
		{{K: "wild"}}, {{K: "union", U: []jpx.UItem{{Idx: i(0)}, {Idx: i(1)}}}}, {{K: "union", U: []jpx.UItem{{Idx: i(0)}, {Idx: i(1)}, {Idx: i(2)}, {Idx: i(3)}}}},
		{{K: "union", U: []jpx.UItem{{Key: k("a")}, {Key: k("b")}, {Key: k("c")}}}}, {{K: "slice", S: []int{0, 2}}}, {{K: "slice", S: nil}}, {{K: "slice", S: []int{-1, 0, -1}}},
		{{K: "filter", F: all}}, {{K: "wild"}, {K: "wild"}}, {{K: "descent"}, {K: "wild"}}, {{K: "nth", N: 1}}, {},
	}
	tails := [][]jpx.Frag{{{K: "child", Key: "a"}}, {{K: "nth", N: 0}}, {{K: "nth", N: -1}}, {{K: "wild"}}, {{K: "child", Key: "a"}, {K: "nth", N: 0}}, {{K: "filter", F: all}}, {{K: "union", U: []jpx.UItem{{Key: k("a")}, {Idx: i(1)}}}}, {{K: "slice", S: []int{1}}}}
	n := 0
	for _, d := range datas {
		enc := wx.Enc(d)
		for _, h := range heads {
			for _, tail := range tails {
				p := append(append(append(jpx.Path{{K: "root"}}, h...), jpx.Frag{K: "descent"}), tail...)
				for _, rep := range []string{"simple", "gen", "typed", "struct", "wrapped"} {
					vrt.Eval(suite, "agree", Case{Path: p, Data: enc, Rep: rep, Max: 1 + n%3}, Run)
					n++
				}
			}
		}
	}
	suite.AddExtra("descent_after_matrix_cases", int64(n))
	suite.Extra("descent_after_matrix_exhaustive_over", fmt.Sprintf("%d trees x %d fragments that select several elements x descent x %d continuations x 5 representations", len(datas), len(heads), len(tails)))
}

// TestEnumSlices: every slice with bounds -3..3 (or left out) and steps -2..3 (or left out) on
// arrays of 0..4 elements, last and followed by a child / index / wildcard, on all five
// representations: Get, First, Has, Locate, Walk and the node forms each find the elements of a
// slice in code of their own (sliceLast for the ones that stack what they selected).
func TestEnumSlices(t *testing.T) {
	lo, hi, maxLen := -3, 3, 4
	if vrt.Thorough() {
		lo, hi, maxLen = -6, 6, 6
	}
	var slices [][]int
	slices = append(slices, nil)
	for a := lo; a <= hi; a++ {
		slices = append(slices, []int{a})
		ends := []int{jpx.MaxEnd}
		for b := lo; b <= hi; b++ {
			ends = append(ends, b)
		}
		for _, b := range ends {
			slices = append(slices, []int{a, b})
			for st := -2; st <= 3; st++ {
				slices = append(slices, []int{a, b, st})
			}
		}
	}
	tails := [][]jpx.Frag{nil, {{K: "child", Key: "a"}}, {{K: "nth", N: 0}}, {{K: "wild"}}}
	n := 0
	for size := 0; size <= maxLen; size++ {
		arr := make([]any, size)
		for i := range arr {
			arr[i] = map[string]any{"a": int64(i)}
			if i%3 == 2 {
				arr[i] = []any{int64(i), int64(i + 10)}
			}
		}
		enc := wx.Enc(arr)
		for _, sl := range slices {
			for _, tail := range tails {
				p := append(jpx.Path{{K: "root"}, {K: "slice", S: sl}}, tail...)
				for _, rep := range []string{"simple", "gen", "typed", "struct", "wrapped"} {
					vrt.Eval(suite, "agree", Case{Path: p, Data: enc, Rep: rep, Max: 1 + n%3}, Run)
					n++
				}
			}
		}
	}
	suite.AddExtra("slice_matrix_cases", int64(n))
	suite.Extra("slice_matrix_exhaustive_over", fmt.Sprintf("arrays of 0..%d elements x slices with bounds %d..%d or left out and steps -2..3 or left out x {last, child, index, wildcard after it} x 5 representations", maxLen, lo, hi))
}

// TestEnumFilterOps: filters whose operators read containers taken from the data (in with a list
// from the element or from the root, empty on arrays, maps and strings, length / count) on all five
// representations: what a filter selects does not depend on how the data is held.
func TestEnumFilterOps(t *testing.T) {
	m := func(kv ...any) map[string]any {
		out := map[string]any{}
		for i := 0; i+1 < len(kv); i += 2 {
			out[kv[i].(string)] = kv[i+1]
		}
		return out
	}
	at := func(keys ...string) *jpx.Eq {
		p := jpx.Path{{K: "at"}}
		for _, k := range keys {
			p = append(p, jpx.Frag{K: "child", Key: k})
		}
		return &jpx.Eq{Op: "get", P: p}
	}
	rootp := func(keys ...string) *jpx.Eq {
		p := jpx.Path{{K: "root"}}
		for _, k := range keys {
			p = append(p, jpx.Frag{K: "child", Key: k})
		}
		return &jpx.Eq{Op: "get", P: p}
	}
	tru := &jpx.Eq{Op: "const", CK: "bool", CB: true}
	fal := &jpx.Eq{Op: "const", CK: "bool", CB: false}
	clist := &jpx.Eq{Op: "const", CK: "list", CL: []jpx.Eq{{Op: "const", CK: "int", CI: 2}, {Op: "const", CK: "string", CS: "b"}, {Op: "const", CK: "float", CF: 3}}}
	scripts := []*jpx.Eq{
		{Op: "in", L: at("x"), R: at("l")}, {Op: "in", L: at("x"), R: rootp("pool")}, {Op: "in", L: at("x"), R: clist}, {Op: "in", L: at("s"), R: at("l")},
		{Op: "not", L: &jpx.Eq{Op: "in", L: at("x"), R: at("l")}},
		{Op: "empty", L: at("l"), R: tru}, {Op: "empty", L: at("l"), R: fal}, {Op: "empty", L: at("m"), R: tru}, {Op: "empty", L: at("m"), R: fal},
		{Op: "empty", L: at("s"), R: tru}, {Op: "empty", L: at("x"), R: tru}, {Op: "empty", L: at("none"), R: fal},
		{Op: "eq", L: at("l"), R: at("l2")}, {Op: "neq", L: at("m"), R: at("l")},
	}
	elems := []any{
		m("x", int64(3), "l", []any{int64(1), int64(2), int64(3)}, "m", m(), "s", "", "l2", []any{int64(1), int64(2), int64(3)}),
		m("x", int64(4), "l", []any{int64(1), int64(2)}, "m", m("k", int64(1)), "s", "b", "l2", []any{}),
		m("x", 2.0, "l", []any{int64(1), int64(2), "b"}, "m", m(), "s", "b"),
		m("x", "b", "l", []any{}, "m", m("k", nil), "s", "zz"),
		m("x", nil, "l", []any{nil, true}, "s", "b"),
		m("x", true, "l", []any{1.5, true}, "m", m()),
	}
	n := 0
	for _, wrap := range []string{"array", "map"} {
		var data any
		head := jpx.Path{{K: "root"}, {K: "child", Key: "items"}}
		if wrap == "array" {
			data = m("items", elems, "pool", []any{int64(4), "b", 2.0, nil})
		} else {
			im := m()
			for i, e := range elems {
				im[fmt.Sprintf("e%d", i)] = e
			}
			data = m("items", im, "pool", []any{int64(4), "b", 2.0, nil})
		}
		enc := wx.Enc(data)
		for _, sc := range scripts {
			for _, tail := range [][]jpx.Frag{nil, {{K: "child", Key: "x"}}} {
				p := append(append(append(jpx.Path{}, head...), jpx.Frag{K: "filter", F: sc}), tail...)
				for _, rep := range []string{"simple", "gen", "typed", "struct", "wrapped", "goints", "mixed"} {
					vrt.Eval(suite, "agree", Case{Path: p, Data: enc, Rep: rep, Max: 1 + n%3, Diff: true}, Run)
					n++
				}
			}
		}
	}
	suite.AddExtra("filter_operator_matrix_cases", int64(n))
}

func TestPropRandom(t *testing.T) {
	vrt.Rapid(t, suite, "agree", vrt.Scale(30000, 200000), drawCase, Run)
}

func TestReplay(t *testing.T) { suite.ReplayAll(t) }

func has(d vrt.Disc, t string) bool {
	for _, x := range d.Tags {
		if x == t {
			return true
		}
	}
	return false
}

var classifiers = []vrt.Classifier{
	// C11-K4: First, FirstFound and Has look at the element at the start index only (no clamping,
	// end and step ignored) when a slice is applied to a slice or array reached by reflection.
	// jp/get_test.go (firstTestReflectData, "$[1:1][0]" on []gen.Array expects 2) and
	// jp/has_test.go pin that reading, so it can not be aligned with Get without editing tests.
	{ID: "C11-K4", Match: func(d vrt.Disc, c *vrt.Ctx) bool {
		return has(d, "rep:typed") && has(d, "has:slice") && has(d, "explained-by-start-only-slice-reading") &&
			(d.Where == "First" || d.Where == "FirstFound" || d.Where == "Has")
	}},
	// C11-K2: for a slice with a negative step whose start is at or beyond the length, Locate and
	// Walk start at the last element while Get selects nothing; jp/locate_test.go pins Locate's
	// answer ("a[5:0:-1]" on 4 elements -> a[3] a[2] a[1]).
	{ID: "C11-K2", Match: func(d vrt.Disc, c *vrt.Ctx) bool {
		return has(d, "slice-negstep-start-beyond") && has(d, "explained-by-start-at-last-element") && (d.Where == "Locate" || d.Where == "Walk")
	}},
}
