// Package c07 decides C07: reused and pooled parsers and writers behave like fresh ones.
package c07

import (
	"bytes"
	"encoding/json"
	"fmt"
	"sort"
	"strings"
	"testing"

	"github.com/ohler55/ojg"
	"github.com/ohler55/ojg/gen"
	"github.com/ohler55/ojg/oj"
	"github.com/ohler55/ojg/pretty"
	"github.com/ohler55/ojg/sen"
	"pgregory.net/rapid"

	"verif/internal/canon"
	"verif/internal/cmpx"
	"verif/internal/gx"
	"verif/internal/vrt"
)

var suite = vrt.NewSuite("C07", "call histories (2-30 steps) on one long-lived instance of each of oj.Parser, oj.Validator, oj.Tokenizer, oj.Writer, gen.Parser, sen.Parser, sen.Tokenizer, sen.Writer, pretty.Writer and through the pooled package functions; steps parse valid / invalid / aborted (reader error) input with varying mode (single, callback, channel), NumConvMethod, Reuse, OnlyOne, or write trees with varying options. Oracle: every call equals the same call on a fresh instance (typed canon + error text); values returned earlier stay unchanged (except maps returned under Reuse and documented buffer-returning calls) and do not alias the caller's input buffer. Non-trivial = a history in which some step follows a failed/aborted step or a step with other options on the same instance; distinct = distinct history")

type Step struct {
	Inst    string      `json:"inst"`
	Op      string      `json:"op"`
	Input   []byte      `json:"input,omitempty"`
	Mode    string      `json:"mode,omitempty"`
	NumConv int         `json:"numconv,omitempty"`
	Reuse   bool        `json:"reuse,omitempty"`
	OnlyOne bool        `json:"onlyone,omitempty"`
	Chunk   gx.Chunking `json:"chunk,omitempty"`
	Opt     WOpt        `json:"opt,omitempty"`
}

type WOpt struct {
	Indent    int  `json:"indent,omitempty"`
	Tab       bool `json:"tab,omitempty"`
	Sort      bool `json:"sort,omitempty"`
	OmitNil   bool `json:"omitnil,omitempty"`
	OmitEmpty bool `json:"omitempty,omitempty"`
	HTMLSafe  bool `json:"htmlsafe,omitempty"`
	WriteLim  int  `json:"writelimit,omitempty"`
	Width     int  `json:"width,omitempty"`
	MaxDepth  int  `json:"maxdepth,omitempty"`
	Align     bool `json:"align,omitempty"`
	SEN       bool `json:"sen,omitempty"`
	Weird     bool `json:"weird,omitempty"` // append a value the writers can only print with %v
}

type Case struct {
	Steps []Step `json:"steps"`
}

func TestMain(m *testing.M) {
	vrt.InitRapid()
	vrt.RegisterReplay(suite, "history", Run)
	suite.Register(classifiers...)
	suite.Floor("step-after-failure", 0.15, "steps")
	vrt.Main(m, suite)
}

// instances of one history
type insts struct {
	ojp  *oj.Parser
	ojv  *oj.Validator
	ojt  *oj.Tokenizer
	ojw  *oj.Writer
	genp *gen.Parser
	senp *sen.Parser
	sent *sen.Tokenizer
	senw *sen.Writer
	prw  *pretty.Writer
}

func newInsts() *insts {
	return &insts{&oj.Parser{}, &oj.Validator{}, &oj.Tokenizer{}, &oj.Writer{Options: ojg.DefaultOptions}, &gen.Parser{}, &sen.Parser{}, &sen.Tokenizer{},
		&sen.Writer{Options: ojg.DefaultOptions}, &pretty.Writer{Options: ojg.DefaultOptions, Width: 80, MaxDepth: 3}}
}

// result of one call, comparable between the long-lived and the fresh instance
type result struct {
	text   string // typed canon of value(s) / output text
	err    string
	values []any // returned values to watch for later modification
	exempt bool  // values may legitimately change later (Reuse, buffer-returning API)
}

func (r result) String() string {
	t := r.text
	if len(t) > 300 {
		t = t[:300] + "…"
	}
	return fmt.Sprintf("value=%s err=%q", t, r.err)
}

func errText(err error) string {
	if err == nil {
		return ""
	}
	return err.Error()
}

var numConvs = []ojg.NumConvMethod{ojg.NumConvNone, ojg.NumConvFloat64, ojg.NumConvString, ojg.NumConvFloat64}

func parseArgs(st Step, docs *[]any) (args []any, fin func()) {
	fin = func() {}
	switch st.Mode {
	case "cb":
		args = append(args, func(v any) { *docs = append(*docs, v) })
	case "cbbool":
		args = append(args, func(v any) bool { *docs = append(*docs, v); return false })
	case "chan":
		ch := make(chan any, 1<<14)
		args = append(args, ch)
		fin = func() {
			close(ch)
			for v := range ch {
				*docs = append(*docs, v)
			}
		}
	}
	if st.NumConv > 0 {
		args = append(args, numConvs[st.NumConv%len(numConvs)])
	}
	return
}

func genArgs(st Step, docs *[]any) (args []any, fin func()) {
	fin = func() {}
	switch st.Mode {
	case "cb":
		args = append(args, func(v gen.Node) { *docs = append(*docs, v) })
	case "cbbool":
		args = append(args, func(v gen.Node) bool { *docs = append(*docs, v); return false })
	case "chan":
		ch := make(chan gen.Node, 1<<14)
		args = append(args, ch)
		fin = func() {
			close(ch)
			for v := range ch {
				*docs = append(*docs, v)
			}
		}
	}
	return
}

func valuesResult(v any, docs []any, err error, exempt bool) result {
	var sb strings.Builder
	sb.WriteString(canon.String(v, canon.Typed))
	vals := []any{v}
	for _, d := range docs {
		sb.WriteString(" ; ")
		sb.WriteString(canon.String(d, canon.Typed))
		vals = append(vals, d)
	}
	return result{text: sb.String(), err: errText(err), values: vals, exempt: exempt}
}

func (w WOpt) options() ojg.Options {
	o := ojg.DefaultOptions
	o.Indent = w.Indent
	o.Tab = w.Tab
	o.Sort = w.Sort
	o.OmitNil = w.OmitNil
	o.OmitEmpty = w.OmitEmpty
	o.HTMLUnsafe = !w.HTMLSafe
	o.WriteLimit = w.WriteLim
	return o
}

func treeOf(st Step) any {
	p := oj.Parser{}
	v, err := p.Parse(append([]byte(nil), st.Input...))
	if err != nil {
		v = string(st.Input)
	}
	if st.Opt.Weird {
		var ch chan int // only printable with %v: strict writers refuse it
		v = []any{v, ch}
	}
	return v
}

// exec runs one step on the given instances (long-lived or fresh).
func exec(in *insts, st Step) result {
	data := append([]byte(nil), st.Input...)
	var docs []any
	switch st.Inst {
	case "oj.Parser", "oj.Parse(pooled)", "oj.Load(pooled)":
		args, fin := parseArgs(st, &docs)
		var v any
		var err error
		switch {
		case st.Inst == "oj.Parse(pooled)" && in == nil:
			v, err = oj.Parse(data, args...)
		case st.Inst == "oj.Parse(pooled)":
			v, err = in.ojp.Parse(data, args...)
		case st.Inst == "oj.Load(pooled)" && in == nil:
			v, err = oj.Load(st.Chunk.Reader(data), args...)
		case st.Inst == "oj.Load(pooled)":
			v, err = in.ojp.ParseReader(st.Chunk.Reader(data), args...)
		case st.Op == "parseReader":
			in.ojp.Reuse = st.Reuse
			v, err = in.ojp.ParseReader(st.Chunk.Reader(data), args...)
		case st.Op == "unmarshal":
			var out any
			err = in.ojp.Unmarshal(data, &out)
			v = out
		default:
			if st.Inst == "oj.Parser" {
				in.ojp.Reuse = st.Reuse
			}
			v, err = in.ojp.Parse(data, args...)
		}
		fin()
		for i := range data {
			data[i] = 0xAA // the result must not alias the caller's buffer
		}
		return valuesResult(v, docs, err, st.Reuse && st.Inst == "oj.Parser")
	case "gen.Parser":
		args, fin := genArgs(st, &docs)
		var v gen.Node
		var err error
		in.genp.Reuse = st.Reuse
		if st.Op == "parseReader" {
			v, err = in.genp.ParseReader(st.Chunk.Reader(data), args...)
		} else {
			v, err = in.genp.Parse(data, args...)
		}
		fin()
		for i := range data {
			data[i] = 0xAA
		}
		var av any
		if v != nil {
			av = v
		}
		return valuesResult(av, docs, err, st.Reuse)
	case "sen.Parser", "sen.Parse(pooled)", "sen.ParseReader(pooled)":
		args, fin := parseArgs(st, &docs)
		var v any
		var err error
		switch {
		case st.Inst == "sen.Parse(pooled)" && in == nil:
			v, err = sen.Parse(data, args...)
		case st.Inst == "sen.Parse(pooled)":
			v, err = in.senp.Parse(data, args...)
		case st.Inst == "sen.ParseReader(pooled)" && in == nil:
			v, err = sen.ParseReader(st.Chunk.Reader(data), args...)
		case st.Inst == "sen.ParseReader(pooled)" || st.Op == "parseReader":
			if st.Inst == "sen.Parser" {
				in.senp.Reuse = st.Reuse
			}
			v, err = in.senp.ParseReader(st.Chunk.Reader(data), args...)
		default:
			if st.Inst == "sen.Parser" {
				in.senp.Reuse = st.Reuse
			}
			v, err = in.senp.Parse(data, args...)
		}
		fin()
		for i := range data {
			data[i] = 0xAA
		}
		return valuesResult(v, docs, err, st.Reuse && st.Inst == "sen.Parser")
	case "oj.Validator":
		in.ojv.OnlyOne = st.OnlyOne
		var err error
		if st.Op == "parseReader" {
			err = in.ojv.ValidateReader(st.Chunk.Reader(data))
		} else {
			err = in.ojv.Validate(data)
		}
		return result{err: errText(err)}
	case "oj.Tokenizer", "sen.Tokenizer":
		rec := &cmpx.Recorder{}
		var err error
		if st.Inst == "oj.Tokenizer" {
			in.ojt.OnlyOne = st.OnlyOne
			if st.Op == "parseReader" {
				err = in.ojt.Load(st.Chunk.Reader(data), rec)
			} else {
				err = in.ojt.Parse(data, rec)
			}
		} else {
			in.sent.OnlyOne = st.OnlyOne
			if st.Op == "parseReader" {
				err = in.sent.Load(st.Chunk.Reader(data), rec)
			} else {
				err = in.sent.Parse(data, rec)
			}
		}
		for i := range data {
			data[i] = 0xAA
		}
		var sb strings.Builder
		vals := make([]any, 0, len(rec.Events))
		for _, e := range rec.Events {
			fmt.Fprintf(&sb, "%s:%s ", e.K, canon.String(e.V, canon.Typed))
			vals = append(vals, e.V)
		}
		return result{text: sb.String(), err: errText(err), values: vals}
	case "oj.Writer", "oj.JSON(pooled)", "oj.Marshal(pooled)", "oj.Write(pooled)":
		tree := treeOf(st)
		var out string
		var err error
		switch {
		case st.Inst == "oj.JSON(pooled)" && in == nil:
			out = oj.JSON(tree)
		case st.Inst == "oj.JSON(pooled)":
			out = in.ojw.JSON(tree)
		case st.Inst == "oj.Write(pooled)" && in == nil:
			var b bytes.Buffer
			err = oj.Write(&b, tree)
			out = b.String()
		case st.Inst == "oj.Write(pooled)":
			var b bytes.Buffer
			err = in.ojw.Write(&b, tree)
			out = b.String()
		case st.Inst == "oj.Marshal(pooled)" && in == nil:
			var b []byte
			b, err = oj.Marshal(tree)
			out = string(b)
			return result{text: sortedText(out, false), err: errKind(err), values: []any{b}}
		case st.Inst == "oj.Marshal(pooled)":
			o := ojg.GoOptions
			var b []byte
			b, err = oj.Marshal(tree, &o)
			out = string(b)
			return result{text: sortedText(out, false), err: errKind(err), values: []any{b}}
		default:
			in.ojw.Options = st.Opt.options()
			switch st.Op {
			case "write":
				var b bytes.Buffer
				err = in.ojw.Write(&b, tree)
				out = b.String()
			case "marshalWith":
				// the bytes Marshal hands back are the caller's: later calls on the same Writer must
				// not write into them
				var b []byte
				b, err = oj.Marshal(tree, in.ojw)
				out = string(b)
				return result{text: sortedText(out, st.Opt.Sort && st.Inst == "oj.Writer"), err: errKind(err), values: []any{b}}
			default:
				out = in.ojw.JSON(tree)
			}
		}
		return result{text: sortedText(out, st.Opt.Sort && st.Inst == "oj.Writer"), err: errKind(err)}
	case "sen.Writer", "sen.String(pooled)", "sen.Write(pooled)":
		tree := treeOf(st)
		var out string
		var err error
		switch {
		case st.Inst == "sen.String(pooled)" && in == nil:
			out = sen.String(tree)
		case st.Inst == "sen.String(pooled)":
			out = in.senw.SEN(tree)
		case st.Inst == "sen.Write(pooled)" && in == nil:
			var b bytes.Buffer
			err = sen.Write(&b, tree)
			out = b.String()
		case st.Inst == "sen.Write(pooled)":
			var b bytes.Buffer
			err = in.senw.Write(&b, tree)
			out = b.String()
		default:
			in.senw.Options = st.Opt.options()
			if st.Op == "write" {
				var b bytes.Buffer
				err = in.senw.Write(&b, tree)
				out = b.String()
			} else {
				out = in.senw.SEN(tree)
			}
		}
		return result{text: sortedSEN(out, st.Opt.Sort && st.Inst == "sen.Writer"), err: errKind(err)}
	case "pretty.Writer":
		tree := treeOf(st)
		in.prw.Options = st.Opt.options()
		in.prw.Width = st.Opt.Width
		in.prw.MaxDepth = st.Opt.MaxDepth
		in.prw.Align = st.Opt.Align
		in.prw.SEN = st.Opt.SEN
		var out string
		var err error
		switch st.Op {
		case "write":
			var b bytes.Buffer
			err = in.prw.Write(&b, tree)
			out = b.String()
		case "marshal":
			var b []byte
			b, err = in.prw.Marshal(tree)
			out = string(b)
		default:
			out = string(in.prw.Encode(tree))
		}
		if st.Opt.SEN {
			return result{text: sortedSEN(out, st.Opt.Sort), err: errKind(err)}
		}
		return result{text: sortedText(out, st.Opt.Sort), err: errKind(err)}
	}
	return result{err: "unknown step " + st.Inst}
}

// errKind: writer errors carry %v renderings of maps whose order is random: compare error-ness only.
func errKind(err error) string {
	if err == nil {
		return ""
	}
	return "error"
}

// sortedText returns the output itself when it is deterministic (Sort), otherwise
// a canonical form of what it parses to, plus its length (layout regressions show
// up as length changes even when member order differs).
func sortedText(out string, exact bool) string {
	if exact {
		return out
	}
	p := oj.Parser{}
	v, err := p.Parse([]byte(out))
	if err != nil {
		return "unparsable(" + errText(err) + "):" + out
	}
	return fmt.Sprintf("len=%d %s", len(out), canon.String(v, canon.Value))
}

func sortedSEN(out string, exact bool) string {
	if exact {
		return out
	}
	p := sen.Parser{}
	v, err := p.Parse([]byte(out))
	if err != nil {
		// the SEN writer can emit text its parser rejects (C10); compare order-insensitively
		b := []byte(out)
		sort.Slice(b, func(i, j int) bool { return b[i] < b[j] })
		return "unparsable:" + string(b)
	}
	return fmt.Sprintf("len=%d %s", len(out), canon.String(v, canon.Value))
}

type watched struct {
	step  int
	v     any
	canon string
}

func Run(cs Case, c *vrt.Ctx) {
	long := newInsts()
	var watch []watched
	failedBefore := map[string]bool{}
	lastOpt := map[string]string{}
	for i, st := range cs.Steps {
		c.Class("steps")
		key := st.Inst
		optSig := fmt.Sprintf("%s|%d|%v|%v|%+v", st.Mode, st.NumConv, st.Reuse, st.OnlyOne, st.Opt)
		if failedBefore[key] {
			c.Class("step-after-failure")
			c.NonTrivial()
		}
		if prev, ok := lastOpt[key]; ok && prev != optSig {
			c.Class("step-after-other-options")
			c.NonTrivial()
		}
		lastOpt[key] = optSig
		var got, want result
		pooled := strings.Contains(st.Inst, "(pooled)")
		pv, stack := vrt.Catch(func() {
			if pooled {
				got = exec(nil, st)
			} else {
				got = exec(long, st)
			}
		})
		pv2, _ := vrt.Catch(func() { want = exec(newInsts(), st) })
		where := st.Inst + "." + st.Op
		switch {
		case pv != nil && pv2 == nil:
			c.Fail("panic-on-reused", where, fmt.Sprintf("step %d: %v at %s; fresh instance: %s; history: %s", i, pv, stack, want, hist(cs, i)))
			failedBefore[key] = true
			continue
		case pv != nil:
			c.Class("panic-on-fresh-too(C06)")
			failedBefore[key] = true
			continue
		case pv2 != nil:
			c.Class("panic-on-fresh-only")
			continue
		}
		if got.err != want.err || got.text != want.text {
			kind := "differs-from-fresh"
			if (got.err == "") != (want.err == "") {
				kind = "error-differs-from-fresh"
			}
			c.Fail(kind, where, fmt.Sprintf("step %d: reused %s; fresh %s; history: %s", i, got, want, hist(cs, i)), tagsOf(st)...)
		}
		if got.err != "" {
			failedBefore[key] = true
			c.Class("failed-step")
		} else {
			failedBefore[key] = false
		}
		// values returned earlier must not change (unless exempt)
		for _, w := range watch {
			if now := canon.String(w.v, canon.Typed); now != w.canon {
				c.Fail("earlier-value-changed", where, fmt.Sprintf("value returned by step %d changed after step %d: was %s now %s; history: %s", w.step, i, clip(w.canon), clip(now), hist(cs, i)), tagsOf(st)...)
			}
		}
		if !got.exempt {
			for _, v := range got.values {
				switch v.(type) {
				case []any, map[string]any, gen.Array, gen.Object, []byte:
					watch = append(watch, watched{i, v, canon.String(v, canon.Typed)})
				}
			}
			if len(watch) > 40 {
				watch = watch[len(watch)-40:]
			}
		}
	}
}

func tagsOf(st Step) []string {
	t := []string{"inst:" + st.Inst}
	if st.Mode != "" && st.Mode != "single" {
		t = append(t, "mode:"+st.Mode)
	}
	if st.Reuse {
		t = append(t, "reuse")
	}
	return t
}

func clip(s string) string {
	if len(s) > 200 {
		return s[:200] + "…"
	}
	return s
}

func hist(cs Case, upto int) string {
	var sb strings.Builder
	for i := 0; i <= upto && i < len(cs.Steps); i++ {
		st := cs.Steps[i]
		if st.Inst != cs.Steps[upto].Inst && !strings.Contains(st.Inst, "pooled") {
			continue
		}
		in := string(st.Input)
		if len(in) > 60 {
			in = in[:60] + "…"
		}
		fmt.Fprintf(&sb, "[%d %s.%s %q mode=%s nc=%d reuse=%v one=%v fail=%d]", i, st.Inst, st.Op, in, st.Mode, st.NumConv, st.Reuse, st.OnlyOne, st.Chunk.FailAfter)
	}
	return sb.String()
}

// ---- generator ----

var parseInsts = []string{"oj.Parser", "oj.Parser", "gen.Parser", "sen.Parser", "oj.Validator", "oj.Tokenizer", "sen.Tokenizer", "oj.Parse(pooled)", "oj.Load(pooled)", "sen.Parse(pooled)", "sen.ParseReader(pooled)"}
var writeInsts = []string{"oj.Writer", "oj.Writer", "sen.Writer", "pretty.Writer", "pretty.Writer", "oj.JSON(pooled)", "oj.Marshal(pooled)", "oj.Write(pooled)", "sen.String(pooled)", "sen.Write(pooled)"}

var failingInputs = []string{"[", "[1,", `{"a":`, `{"a":1,"b"`, `[1,2,{"a":[true,nul`, `{"a":{"b":{"c":[1,2,`, "[1.5e", `["abc`, `["a\u12`, "[1 2", `{"a" 1}`, "]", "}", "nul", "-", `[{"a":1},{"b":2},{"c"`, `{"k":"v" + `, "[a + ", "[+", `{a:'x' + `, "{a:+'x'}", "[1 + 'x']",
	"1 2 [", `{"a":1} {"b":`, "[1] x", `"abc" "def`, "[[[[[[[[[[[[[[[[[[[[", `{"a":{"a":{"a":{"a":{"a":`}

func drawStep(t *rapid.T, insts []string) Step {
	st := Step{}
	if rapid.IntRange(0, 2).Draw(t, "iswrite") == 0 {
		st.Inst = rapid.SampledFrom(writeInsts).Draw(t, "winst")
		if len(insts) > 0 && rapid.Bool().Draw(t, "sameinst") {
			st.Inst = rapid.SampledFrom(insts).Draw(t, "again")
		}
	} else {
		st.Inst = rapid.SampledFrom(parseInsts).Draw(t, "pinst")
		if len(insts) > 0 && rapid.Bool().Draw(t, "sameinst") {
			st.Inst = rapid.SampledFrom(insts).Draw(t, "again")
		}
	}
	isWrite := strings.Contains(st.Inst, "Writer") || strings.Contains(st.Inst, "JSON(") || strings.Contains(st.Inst, "Marshal(") || strings.Contains(st.Inst, "Write(") || strings.Contains(st.Inst, "String(")
	if isWrite {
		tree := gx.Tree(t, gx.TreeOpts{MaxDepth: 3, MaxMembers: 4})
		b, _ := json.Marshal(sanitize(tree))
		st.Input = b
		st.Op = rapid.SampledFrom([]string{"string", "write", "marshal", "marshalWith"}).Draw(t, "wop")
		if !strings.Contains(st.Inst, "pooled") {
			st.Opt = WOpt{
				Indent:    rapid.SampledFrom([]int{0, 0, 1, 2, 4, 9}).Draw(t, "indent"),
				Tab:       rapid.IntRange(0, 5).Draw(t, "tab") == 0,
				Sort:      rapid.Bool().Draw(t, "sort"),
				OmitNil:   rapid.Bool().Draw(t, "omitnil"),
				OmitEmpty: rapid.IntRange(0, 3).Draw(t, "omitempty") == 0,
				HTMLSafe:  rapid.IntRange(0, 3).Draw(t, "html") == 0,
				WriteLim:  rapid.SampledFrom([]int{0, 0, 1, 7, 64}).Draw(t, "wl"),
				Width:     rapid.SampledFrom([]int{80, 20, 1, 200}).Draw(t, "width"),
				MaxDepth:  rapid.SampledFrom([]int{3, 1, 2, 6}).Draw(t, "maxdepth"),
				Align:     rapid.IntRange(0, 2).Draw(t, "align") == 0,
				SEN:       rapid.IntRange(0, 2).Draw(t, "sen") == 0,
				Weird:     rapid.IntRange(0, 6).Draw(t, "weird") == 0,
			}
		}
		return st
	}
	senLike := strings.HasPrefix(st.Inst, "sen.")
	switch rapid.IntRange(0, 9).Draw(t, "inkind") {
	case 0, 1, 2, 3:
		if senLike && rapid.Bool().Draw(t, "sentext") {
			st.Input = gx.SENText(t, 2)
		} else {
			st.Input = gx.JSONText(t, gx.TextOpts{MaxDepth: 3, MaxMembers: 4, TopScalarOK: true, BigExp: false, DupKeys: true})
		}
	case 4, 5, 6:
		st.Input = []byte(rapid.SampledFrom(failingInputs).Draw(t, "fail"))
	case 7:
		st.Input = gx.Mutate(t, gx.JSONText(t, gx.TextOpts{MaxDepth: 3, MaxMembers: 4, TopScalarOK: true}))
	case 8: // multi document
		st.Input = []byte(rapid.SampledFrom([]string{"1 2 3", "[1] [2]", `{"a":1} {"b":2}`, `"a" "b"`, "1 [", "[1] {", "true false nul", `{"a":[1,2]} [3] 4 `}).Draw(t, "multi"))
	default: // aborted: reader fails mid-way
		st.Input = gx.JSONText(t, gx.TextOpts{MaxDepth: 4, MaxMembers: 5})
		if len(st.Input) > 2 {
			st.Chunk.FailAfter = rapid.IntRange(1, len(st.Input)-1).Draw(t, "failafter")
		}
		st.Op = "parseReader"
	}
	if st.Op == "" {
		st.Op = rapid.SampledFrom([]string{"parse", "parse", "parseReader", "unmarshal"}).Draw(t, "pop")
		if st.Op == "unmarshal" && st.Inst != "oj.Parser" {
			st.Op = "parse"
		}
	}
	if st.Op == "parseReader" && st.Chunk.FailAfter == 0 {
		st.Chunk.Sizes = []int{rapid.SampledFrom([]int{0, 1, 3, 5}).Draw(t, "csz")}
	}
	st.Mode = rapid.SampledFrom([]string{"single", "single", "cb", "cbbool", "chan"}).Draw(t, "mode")
	st.NumConv = rapid.IntRange(0, 3).Draw(t, "numconv")
	st.Reuse = rapid.IntRange(0, 3).Draw(t, "reuse") == 0
	st.OnlyOne = rapid.Bool().Draw(t, "onlyone")
	return st
}

func sanitize(v any) any {
	switch tv := v.(type) {
	case string:
		return strings.ToValidUTF8(tv, "?")
	case []any:
		out := make([]any, len(tv))
		for i, e := range tv {
			out[i] = sanitize(e)
		}
		return out
	case map[string]any:
		out := make(map[string]any, len(tv))
		for k, e := range tv {
			out[strings.ToValidUTF8(k, "?")] = sanitize(e)
		}
		return out
	}
	return v
}

func drawCase(t *rapid.T) Case {
	n := rapid.IntRange(2, 30).Draw(t, "nsteps")
	var cs Case
	var used []string
	for i := 0; i < n; i++ {
		st := drawStep(t, used)
		used = append(used, st.Inst)
		cs.Steps = append(cs.Steps, st)
	}
	return cs
}

func TestPropHistories(t *testing.T) {
	vrt.Rapid(t, suite, "history", vrt.Scale(3000, 25000), drawCase, Run)
}

func TestReplay(t *testing.T) { suite.ReplayAll(t) }

var classifiers = []vrt.Classifier{}
