// Package c10 decides C10: SEN writer and parser round-trip every value.
package c10

import (
	"bytes"
	"encoding/json"
	"fmt"
	"hash/fnv"
	"os"
	"strconv"
	"strings"
	"sync"
	"testing"
	"testing/iotest"

	"github.com/ohler55/ojg"
	"github.com/ohler55/ojg/oj"
	"github.com/ohler55/ojg/pretty"
	"github.com/ohler55/ojg/sen"
	"pgregory.net/rapid"

	"verif/internal/canon"
	"verif/internal/cmpx"
	"verif/internal/gx"
	"verif/internal/vet"
	"verif/internal/vrt"
	"verif/internal/wx"
)

var suite = vrt.NewSuite("C10", "(value tree, formatting options): (1) exhaustive: every byte 0x00-0xFF as a 1-byte string and as first/middle/last byte of a 3-byte string, each as value, key and array element, plus every string of a SEN-significant spelling pool; (2) rapid: hostile trees (strings spelled like true/false/null/numbers/signs/operators, delimiters, quotes, comment markers, invalid UTF-8) under Indent/Tab/Sort/HTML-safe/WriteLimit/Width/MaxDepth/Align. Each of 7 SEN writer entry points must emit text that sen.Parse (and ParseReader with 1-byte reads, and sen.Tokenize+Builder) maps back to an equal tree: strings stay strings, numbers keep their value, keys keep their spelling. Non-trivial = the tree has a string or key with a byte outside [A-Za-z0-9_] or that is emitted unquoted; distinct = distinct (tree, options)")

type Case struct {
	Tree any    `json:"tree"`
	Opt  wx.Opt `json:"opt"`
}

func TestMain(m *testing.M) {
	vrt.InitRapid()
	vrt.RegisterReplay(suite, "roundtrip", Run)
	suite.Register(classifiers...)
	vrt.Main(m, suite)
}

var reused = &sen.Writer{Options: ojg.DefaultOptions}
var reusedMu sync.Mutex

type entry struct {
	name   string
	pretty bool
	f      func(data any, o wx.Opt) ([]byte, error)
}

func prettyArgs(o wx.Opt) []any {
	oo := o.Options()
	return []any{&oo, float64(o.Width) + float64(o.MaxDepth)/10.0, o.Align}
}

var entries = []entry{
	{"sen.String", false, func(d any, o wx.Opt) ([]byte, error) { oo := o.Options(); return []byte(sen.String(d, &oo)), nil }},
	{"sen.Bytes", false, func(d any, o wx.Opt) ([]byte, error) {
		oo := o.Options()
		return append([]byte(nil), sen.Bytes(d, &oo)...), nil
	}},
	{"sen.Write", false, func(d any, o wx.Opt) ([]byte, error) {
		oo := o.Options()
		r := &wx.Rec{}
		err := sen.Write(r, d, &oo)
		return r.Buf, err
	}},
	{"sen.Writer(reused).SEN", false, func(d any, o wx.Opt) ([]byte, error) {
		reusedMu.Lock() // the enumeration runs on several goroutines; a Writer is not for concurrent use
		defer reusedMu.Unlock()
		reused.Options = o.Options()
		return []byte(reused.SEN(d)), nil
	}},
	// writers with a history of streaming, failed and in-memory calls (internal/vet)
	{"sen.Writer(veteran).SEN", false, func(d any, o wx.Opt) ([]byte, error) {
		w := vet.WarmSenWriter(&sen.Writer{Options: o.Options()})
		return []byte(w.SEN(d)), nil
	}},
	{"sen.Writer(veteran).Write", false, func(d any, o wx.Opt) ([]byte, error) {
		w := vet.WarmSenWriter(&sen.Writer{Options: o.Options()})
		r := &wx.Rec{}
		err := w.Write(r, d)
		return r.Buf, err
	}},
	{"pretty.Writer(veteran).Encode", true, func(d any, o wx.Opt) ([]byte, error) {
		oo := o.Options()
		w := vet.WarmPrettyWriter(&pretty.Writer{Options: oo, Width: o.Width, MaxDepth: o.MaxDepth, Align: o.Align, SEN: true})
		return w.Encode(d), nil
	}},
	{"pretty.SEN", true, func(d any, o wx.Opt) ([]byte, error) { return []byte(pretty.SEN(d, prettyArgs(o)...)), nil }},
	{"pretty.WriteSEN", true, func(d any, o wx.Opt) ([]byte, error) {
		r := &wx.Rec{}
		err := pretty.WriteSEN(r, d, prettyArgs(o)...)
		return r.Buf, err
	}},
	{"oj-free.sen.String(default)", false, func(d any, o wx.Opt) ([]byte, error) { return []byte(sen.String(d)), nil }},
}

// expectTree is the input with invalid UTF-8 replaced (the writer's documented replacement).
func expectTree(v any) any {
	switch tv := v.(type) {
	case string:
		return wx.ReplaceInvalid(tv)
	case []any:
		out := make([]any, len(tv))
		for i, e := range tv {
			out[i] = expectTree(e)
		}
		return out
	case map[string]any:
		out := make(map[string]any, len(tv))
		for k, e := range tv {
			out[wx.ReplaceInvalid(k)] = expectTree(e)
		}
		return out
	}
	return v
}

// strFeatures collects, for classification and known-finding attribution, the spelling
// classes of all strings and keys in the tree.
func strFeatures(v any, isKey bool, set map[string]bool) {
	switch tv := v.(type) {
	case string:
		for _, f := range spelling(tv) {
			set[f] = true
			if isKey {
				set["key:"+f] = true
			}
		}
	case []any:
		for _, e := range tv {
			strFeatures(e, false, set)
		}
	case map[string]any:
		for k, e := range tv {
			strFeatures(k, true, set)
			strFeatures(e, false, set)
		}
	}
}

func spelling(s string) []string {
	var f []string
	plain := true
	for i := 0; i < len(s); i++ {
		b := s[i]
		if !(b == '_' || ('0' <= b && b <= '9') || ('a' <= b && b <= 'z') || ('A' <= b && b <= 'Z')) {
			plain = false
		}
	}
	if !plain || s == "" {
		f = append(f, "non-plain")
	}
	switch s {
	case "true", "false", "null":
		f = append(f, "spelled-literal")
	}
	if s != "" {
		if _, err := strconv.ParseFloat(s, 64); err == nil {
			f = append(f, "spelled-number")
		}
		switch s[0] {
		case '-', '+':
			f = append(f, "leading-sign")
		case '0', '1', '2', '3', '4', '5', '6', '7', '8', '9':
			f = append(f, "leading-digit")
		}
	}
	for i := 0; i < len(s); i++ {
		switch s[i] {
		case '`', '&', '|', '+', '*', '(', ')', '=', '!', '%', '#', ';', '<', '>', '?', '@', '$', '~', '^':
			f = append(f, "has:"+string(s[i]))
		case '/':
			f = append(f, "has:/")
		}
	}
	return f
}

func Run(cs Case, c *vrt.Ctx) {
	tree := wx.Dec(cs.Tree)
	o := cs.Opt
	o.OmitNil, o.OmitEmpty = false, false // not formatting options: they remove data by design
	want := expectTree(tree)
	if keyCollision(tree) {
		c.DontCare("two-keys-equal-after-utf8-replacement")
		return
	}
	feats := map[string]bool{}
	strFeatures(tree, false, feats)
	for f := range feats {
		c.Tag(f)
	}
	if feats["non-plain"] || feats["spelled-literal"] || feats["spelled-number"] {
		c.NonTrivial()
	}
	c.Sample(map[string]any{"tree": oj.JSON(want, &ojg.Options{Sort: true}), "opt": o})
	san, k1, k2 := sanitizeKnown(tree)
	// the veteran writers cost a history of calls each: every fifth case (by content)
	h := fnv.New32a()
	_, _ = h.Write([]byte(oj.JSON(want, &ojg.Options{Sort: true})))
	_, _ = h.Write([]byte(fmt.Sprint(o)))
	veterans := h.Sum32()%5 == 0
	if veterans {
		c.Class("veteran-instances")
	}
	for _, e := range entries {
		if !veterans && strings.Contains(e.name, "(veteran)") {
			continue
		}
		kind, detail := checkEntry(e, tree, o)
		if kind == "" {
			continue
		}
		tags := featureTags(feats)
		if k1 || k2 {
			// Is the failure explained by the known bare spellings alone? Re-run with only
			// those strings replaced: if that round-trips, attribute; otherwise report the
			// sanitized failure, which has another cause.
			if kind2, detail2 := checkEntry(e, san, o); kind2 != "" {
				c.Fail(kind2, e.name, detail2+" (after replacing leading-sign strings and literal-spelled values)", tags...)
				continue
			}
			if k1 {
				tags = append(tags, "explained-by-leading-sign")
			}
			if k2 {
				tags = append(tags, "explained-by-literal-spelled-value")
			}
		}
		c.Fail(kind, e.name, detail, tags...)
	}
}

// sanitizeKnown replaces strings and keys with a leading '-' or '+' (C10-K1) and string
// values spelled true/false/null (C10-K2) by harmless strings.
func sanitizeKnown(v any) (out any, k1, k2 bool) {
	fix := func(s string, isKey bool) string {
		if s != "" && (s[0] == '-' || s[0] == '+') {
			k1 = true
			return "S" + s
		}
		if !isKey && (s == "true" || s == "false" || s == "null") {
			k2 = true
			return "S" + s
		}
		return s
	}
	var walk func(v any) any
	walk = func(v any) any {
		switch tv := v.(type) {
		case string:
			return fix(tv, false)
		case []any:
			o := make([]any, len(tv))
			for i, e := range tv {
				o[i] = walk(e)
			}
			return o
		case map[string]any:
			o := make(map[string]any, len(tv))
			for k, e := range tv {
				nk := fix(k, true)
				for {
					if _, clash := o[nk]; !clash {
						break
					}
					nk += "_"
				}
				o[nk] = walk(e)
			}
			return o
		}
		return v
	}
	return walk(v), k1, k2
}

// checkEntry writes the tree with one entry point and reads it back three ways.
func checkEntry(e entry, tree any, o wx.Opt) (kind, detail string) {
	want := expectTree(tree)
	wantCanon := canon.String(want, canon.Value)
	var out []byte
	var err error
	pv, stack := vrt.Catch(func() { out, err = e.f(tree, o) })
	if pv != nil {
		return "panic", fmt.Sprintf("%v at %s", pv, stack)
	}
	if err != nil {
		return "write-error", err.Error()
	}
	back, perr := sen.Parse(append([]byte(nil), out...))
	if perr != nil {
		return "unparsable", fmt.Sprintf("sen.Parse rejects the writer's output: %v; text %s for tree %s", perr, clip(out), clipS(wantCanon))
	}
	if got := canon.String(back, canon.Value); got != wantCanon && !canon.Same(back, want) {
		return "roundtrip-differs", fmt.Sprintf("text %s parses to %s, want %s", clip(out), clipS(got), clipS(wantCanon))
	}
	// second opinions on the same text
	p := sen.Parser{}
	b2, err2 := p.ParseReader(iotest.OneByteReader(bytes.NewReader(out)))
	if err2 != nil || !canon.Same(b2, back) {
		return "reader-differs", fmt.Sprintf("sen.ParseReader(1-byte) of %s: %v %s vs Parse %s", clip(out), err2, clipS(canon.String(b2, canon.Value)), clipS(canon.String(back, canon.Value)))
	}
	h := &cmpx.BuildHandler{}
	tk := sen.Tokenizer{}
	if err3 := tk.Parse(append([]byte(nil), out...), h); err3 != nil || len(h.Docs) != 1 || !canon.Same(h.Docs[0], back) {
		return "tokenizer-differs", fmt.Sprintf("sen.Tokenize of %s: %v %d docs vs Parse %s", clip(out), err3, len(h.Docs), clipS(canon.String(back, canon.Value)))
	}
	return "", ""
}

func keyCollision(v any) bool {
	switch tv := v.(type) {
	case []any:
		for _, e := range tv {
			if keyCollision(e) {
				return true
			}
		}
	case map[string]any:
		seen := map[string]bool{}
		for k, e := range tv {
			r := wx.ReplaceInvalid(k)
			if seen[r] || keyCollision(e) {
				return true
			}
			seen[r] = true
		}
	}
	return false
}

func featureTags(f map[string]bool) []string {
	var out []string
	for _, k := range []string{"spelled-literal", "spelled-number", "leading-sign", "has:`", "has:&", "has:|", "has:+", "has:/", "has:*", "has:(", "has:)", "has:@", "has:$", "has:~", "has:^"} {
		if f[k] {
			out = append(out, k)
		}
	}
	return out
}

func clip(b []byte) string {
	s := string(b)
	if len(s) > 240 {
		s = s[:160] + "…" + s[len(s)-60:]
	}
	return strconv.Quote(s)
}

func clipS(s string) string {
	if len(s) > 240 {
		return s[:160] + "…" + s[len(s)-60:]
	}
	return s
}

// TestEnumBytes: every byte value alone and at the first / middle / last position of a
// 3-byte string, as value, key and array element, under three layouts.
func TestEnumBytes(t *testing.T) {
	opts := []wx.Opt{{Width: 80, MaxDepth: 3}, {Indent: 2, Sort: true, Width: 20, MaxDepth: 2}, {Sort: true, HTMLSafe: true, WriteLim: 1, Width: 80, MaxDepth: 3, Align: true}}
	var mu sync.Mutex
	total := 0
	vrt.Workers(func(si, sn int) {
		n := 0
		for b := 0; b < 256; b++ {
			if b%sn != si {
				continue
			}
			ch := string([]byte{byte(b)})
			for _, s := range []string{ch, ch + "bc", "a" + ch + "c", "ab" + ch, ch + ch, ch + "1", "1" + ch, "-" + ch, ch + " ", " " + ch} {
				for _, shape := range []any{s, []any{s}, []any{s, s, int64(1)}, map[string]any{s: int64(1)}, map[string]any{"k": s}, map[string]any{s: s, "z": []any{s}}} {
					for _, o := range opts {
						vrt.Eval(suite, "roundtrip", Case{Tree: wx.Enc(shape), Opt: o}, Run)
						n++
					}
				}
			}
		}
		mu.Lock()
		total += n
		mu.Unlock()
	})
	// characters of two, three and four bytes, one per lead byte class and at the edges of the
	// ranges (the writers decide on the first byte whether a token may stand bare: 0xEF is also
	// how a byte order mark starts)
	for _, r := range []rune{0x80, 0xE9, 0x7FF, 0x800, 0xFFF, 0x1000, 0x2000, 0x2028, 0x2029, 0x3042, 0xD7FF, 0xE000, 0xEFFF, 0xF000, 0xF015, 0xFB01, 0xFEFE, 0xFEFF, 0xFF00, 0xFF21, 0xFFFD, 0xFFFE, 0xFFFF, 0x10000, 0x1F600, 0x10FFFF} {
		ch := string(r)
		for _, s := range []string{ch, ch + ch + ch, ch + "sh", "a" + ch, ch + "home_page", ch + " x", ch + "1"} {
			for _, shape := range []any{s, []any{s}, []any{s, s, int64(1)}, map[string]any{s: int64(1)}, map[string]any{"k": s}} {
				for _, o := range opts {
					vrt.Eval(suite, "roundtrip", Case{Tree: wx.Enc(shape), Opt: o}, Run)
					total++
				}
			}
		}
	}
	// the SEN-significant spelling pool
	for _, s := range gx.HostileStrings {
		for _, shape := range []any{s, []any{s, s}, map[string]any{s: s}, map[string]any{"k": []any{s}, s: map[string]any{s: int64(2)}}} {
			for _, o := range opts {
				vrt.Eval(suite, "roundtrip", Case{Tree: wx.Enc(shape), Opt: o}, Run)
				total++
			}
		}
	}
	suite.AddExtra("enum_cases", int64(total))
	suite.Extra("enum_exhaustive_over", "256 byte values x 10 placements x 6 shapes x 3 layouts; 26 characters of 2-4 bytes (one per lead byte class, range edges, U+FEFF and its neighbours) x 7 placements x 5 shapes x 3 layouts; hostile spelling pool x 4 shapes x 3 layouts")
}

func drawCase(t *rapid.T) Case {
	keys := append([]string{"a", "b", "key", "k1"}, gx.HostileStrings...)
	tree := gx.Tree(t, gx.TreeOpts{MaxDepth: 4, MaxMembers: 5, DeepOK: true, RandStr: true, Keys: keys})
	return Case{Tree: wx.Enc(tree), Opt: wx.DrawOpt(t, false)}
}

func TestPropRandom(t *testing.T) {
	vrt.Rapid(t, suite, "roundtrip", vrt.Scale(12000, 70000), drawCase, Run)
}

func TestReplay(t *testing.T) { suite.ReplayAll(t) }

func FuzzRoundTrip(f *testing.F) {
	for _, s := range gx.HostileStrings {
		f.Add(s, uint8(0))
	}
	f.Fuzz(func(t *testing.T, s string, shape uint8) {
		var tree any
		switch shape % 4 {
		case 0:
			tree = s
		case 1:
			tree = []any{s, "x", s}
		case 2:
			tree = map[string]any{s: int64(1)}
		default:
			tree = map[string]any{"k": s, s: []any{s}}
		}
		cs := Case{Tree: wx.Enc(tree), Opt: wx.Opt{Width: 80, MaxDepth: 3, Sort: true, Indent: int(shape>>2) % 3}}
		c := &vrt.Ctx{}
		Run(cs, c)
		bad := suite.Finish("roundtrip", c, func() []byte { b, _ := json.Marshal(cs); return b })
		if len(bad) > 0 {
			if dir := os.Getenv("VERIF_FUZZ_OUT"); dir != "" {
				cj, _ := json.Marshal(cs)
				b, _ := json.Marshal(vrt.Violation{Prop: "roundtrip", Case: cj, Discs: bad})
				_ = os.WriteFile(dir+"/fuzz-violation.json", b, 0o644)
			}
			t.Fatalf("%s@%s: %s", bad[0].Kind, bad[0].Where, bad[0].Detail)
		}
	})
}

func has(d vrt.Disc, t string) bool {
	for _, x := range d.Tags {
		if x == t {
			return true
		}
	}
	return false
}

var classifiers = []vrt.Classifier{
	// C10-K1: strings and keys that start with '-' or '+' are written bare; '-1' is read back
	// as a number, '-a' / '+a' are rejected. Quoting them in AppendSENString breaks repository
	// tests that pin the bare form (asm plan printing '[+ 3 4]', jp script inspection, sen tags).
	{ID: "C10-K1", Match: func(d vrt.Disc, c *vrt.Ctx) bool { return has(d, "explained-by-leading-sign") }},
	// C10-K2: string values spelled true / false / null are written bare and read back as
	// booleans / null (keys are fine). The shared AppendSENString serves keys too, whose bare
	// form is pinned by repository tests; a values-only repair spans a dozen call sites.
	{ID: "C10-K2", Match: func(d vrt.Disc, c *vrt.Ctx) bool {
		return has(d, "explained-by-literal-spelled-value") && !has(d, "explained-by-leading-sign")
	}},
}
