// Package c14 decides C14: JSONPath and script text forms round-trip.
package c14

import (
	"encoding/json"
	"fmt"
	"os"
	"sort"
	"strings"
	"testing"

	"github.com/ohler55/ojg/jp"
	"pgregory.net/rapid"

	"verif/internal/canon"
	"verif/internal/jpx"
	"verif/internal/vrt"
	"verif/internal/wx"
)

var suite = vrt.NewSuite("C14", "(expression recipe | equation recipe, data trees): expressions and equations are built through the public constructors with keys and string constants from a hostile pool (both quote kinds, backslash, control characters, non-ASCII, invalid UTF-8, '.', '[', ']', '*', '@', '$', space, empty), unions with string members, slices with defaulted bounds, nested filters, and operators of every precedence class nested on either side with and without groups. Oracle: for String() and BracketString(): parsing the text succeeds, printing the parsed value gives the identical text, and on 6 generated data trees the parsed value selects what the original selects; for Script/Filter/Equation strings the script re-parsed by jp.NewScript, jp.MustParseEquation, jp.ParseString and jp.NewFilter / MustNewFilter prints identically and Match agrees with the original on generated elements; the fixed-semantics part of the original constructor tree is also evaluated by the reference semantics, so that printed parentheses are checked against the intended tree. Non-trivial = a key needing bracket/quoted form, or an equation with >=2 operators of different precedence; distinct = distinct recipe")

type Case struct {
	Path jpx.Path `json:"path,omitempty"`
	Eq   *jpx.Eq  `json:"eq,omitempty"`
	Data []any    `json:"data"`
}

func TestMain(m *testing.M) {
	vrt.InitRapid()
	vrt.RegisterReplay(suite, "text", Run)
	suite.Register(classifiers...)
	vrt.Main(m, suite)
}

func canonSorted(vs []any) string {
	out := make([]string, len(vs))
	for i, v := range vs {
		out[i] = canon.String(v, canon.Value)
	}
	sort.Strings(out)
	return strings.Join(out, " | ")
}

func needsQuote(k string) bool {
	if k == "" {
		return true
	}
	for i := 0; i < len(k); i++ {
		b := k[i]
		if !(b == '_' || ('0' <= b && b <= '9' && i > 0) || ('a' <= b && b <= 'z') || ('A' <= b && b <= 'Z')) {
			return true
		}
	}
	return false
}

func pathFeatures(p jpx.Path, set map[string]bool) {
	for _, f := range p {
		switch f.K {
		case "child":
			if needsQuote(f.Key) {
				set["key-needs-quote"] = true
			}
			keyTags(f.Key, set)
		case "union":
			for _, u := range f.U {
				if u.Key != nil {
					set["union-string-member"] = true
					keyTags(*u.Key, set)
				}
			}
		case "filter":
			eqFeatures(f.F, set, 0)
		}
	}
}

func keyTags(k string, set map[string]bool) {
	for i := 0; i < len(k); i++ {
		switch b := k[i]; {
		case b == '\'':
			set["str:single-quote"] = true
		case b == '"':
			set["str:double-quote"] = true
		case b == '\\':
			set["str:backslash"] = true
		case b < 0x20 || b == 0x7f:
			set["str:control"] = true
		case b >= 0x80:
			set["str:high-byte"] = true
		}
	}
	if k == "" {
		set["str:empty"] = true
	}
}

var prec = map[string]int{"or": 1, "and": 2, "eq": 3, "neq": 3, "lt": 3, "gt": 3, "lte": 3, "gte": 3, "in": 3, "empty": 3, "has": 3, "exists": 3, "rx": 3, "add": 4, "sub": 4, "mul": 5, "div": 5, "not": 6}

func eqFeatures(e *jpx.Eq, set map[string]bool, parentPrec int) {
	if e == nil {
		return
	}
	switch e.Op {
	case "const":
		if e.CK == "string" {
			keyTags(e.CS, set)
		}
		if e.CK == "float" && e.CF == float64(int64(e.CF)) {
			set["const-integral-float"] = true
		}
		return
	case "get", "length", "count":
		pathFeatures(e.P, set)
		return
	}
	if p := prec[e.Op]; p != 0 && parentPrec != 0 && p != parentPrec {
		set["mixed-precedence"] = true
	}
	eqFeatures(e.L, set, prec[e.Op])
	eqFeatures(e.R, set, prec[e.Op])
}

func Run(cs Case, c *vrt.Ctx) {
	feats := map[string]bool{}
	if cs.Eq != nil {
		eqFeatures(cs.Eq, feats, 0)
	} else {
		pathFeatures(cs.Path, feats)
	}
	for f := range feats {
		c.Tag(f)
	}
	if feats["key-needs-quote"] || feats["mixed-precedence"] || feats["union-string-member"] {
		c.NonTrivial()
	}
	var tags []string
	for f := range feats {
		tags = append(tags, f)
	}
	sort.Strings(tags)
	data := make([]any, len(cs.Data))
	for i, d := range cs.Data {
		data[i] = wx.Dec(d)
	}
	if cs.Eq != nil {
		runEq(cs, c, data, tags)
		return
	}
	var x jp.Expr
	if pv, stack := vrt.Catch(func() { x = cs.Path.Build() }); pv != nil {
		c.Fail("panic", "constructors", fmt.Sprintf("%v at %s; %s", pv, stack, cs.Path), tags...)
		return
	}
	c.Sample(map[string]any{"recipe": cs.Path.String(), "String": x.String(), "BracketString": x.BracketString()})
	// the long-named builder methods, Append and the parsers for bytes and with Must are other
	// functions than the ones used below: they have to give the same expression and text
	if pv, stack := vrt.Catch(func() {
		if xl := cs.Path.BuildLong(); xl.String() != x.String() || xl.BracketString() != x.BracketString() || len(xl) != len(x) {
			c.Fail("builders-differ", "constructors", fmt.Sprintf("one-letter builders give %s, long-named builders %s (recipe %s)", x.String(), xl.String(), cs.Path), tags...)
		}
		if a := string(x.Append(nil)); a != x.String() {
			c.Fail("append-differs", "Expr.Append", fmt.Sprintf("Append(nil)=%q String()=%q", a, x.String()), tags...)
		}
		if a := string(x.Append([]byte("pre"), true)); a != "pre"+x.BracketString() {
			c.Fail("append-differs", "Expr.Append", fmt.Sprintf("Append(pre, true)=%q BracketString()=%q", a, x.BracketString()), tags...)
		}
		if y1, err1 := jp.ParseString(x.String()); err1 == nil {
			y2, err2 := jp.Parse([]byte(x.String()))
			if err2 != nil || y2.String() != y1.String() {
				c.Fail("parsers-differ", "jp.Parse", fmt.Sprintf("ParseString(%q) gives %s, Parse gives %v %v", x.String(), y1.String(), y2, err2), tags...)
			}
			if y3 := jp.MustParseString(x.String()); y3.String() != y1.String() {
				c.Fail("parsers-differ", "jp.MustParseString", fmt.Sprintf("ParseString(%q) gives %s, MustParseString gives %s", x.String(), y1.String(), y3.String()), tags...)
			}
		}
	}); pv != nil {
		c.Fail("panic", "builders / Append / Parse", fmt.Sprintf("%v at %s; %s", pv, stack, cs.Path), tags...)
	}
	for _, form := range []struct {
		name string
		f    func(jp.Expr) string
	}{{"String", jp.Expr.String}, {"BracketString", jp.Expr.BracketString}} {
		var text string
		if pv, stack := vrt.Catch(func() { text = form.f(x) }); pv != nil {
			c.Fail("panic", "Expr."+form.name, fmt.Sprintf("%v at %s; %s", pv, stack, cs.Path), tags...)
			continue
		}
		var y jp.Expr
		var err error
		if pv, stack := vrt.Catch(func() { y, err = jp.ParseString(text) }); pv != nil {
			c.Fail("panic", "jp.ParseString", fmt.Sprintf("%v at %s; text %q", pv, stack, text), tags...)
			continue
		}
		if err != nil {
			c.Fail("reparse-fails", "Expr."+form.name, fmt.Sprintf("%q (recipe %s) does not parse: %v", text, cs.Path, err), tags...)
			continue
		}
		if again := form.f(y); again != text {
			c.Fail("reprint-differs", "Expr."+form.name, fmt.Sprintf("%q parses and prints as %q (recipe %s)", text, again, cs.Path), tags...)
			continue
		}
		for _, d := range data {
			var a, b []any
			pv1, _ := vrt.Catch(func() { a = x.Get(d) })
			pv2, _ := vrt.Catch(func() { b = y.Get(d) })
			if (pv1 != nil) != (pv2 != nil) {
				c.Fail("eval-differs", "Expr."+form.name, fmt.Sprintf("%q: original panics=%v parsed panics=%v on %s", text, pv1, pv2, canon.String(d, canon.Value)), tags...)
				break
			}
			if pv1 == nil && canonSorted(a) != canonSorted(b) {
				c.Fail("eval-differs", "Expr."+form.name, fmt.Sprintf("%q (recipe %s) on %s: original selects [%s], parsed selects [%s]", text, cs.Path, canon.String(d, canon.Value), canonSorted(a), canonSorted(b)), tags...)
				break
			}
		}
	}
}

func fixedOnly(e *jpx.Eq) bool {
	if e == nil {
		return true
	}
	switch e.Op {
	case "eq", "neq", "lt", "gt", "lte", "gte", "and", "or", "not", "exists", "has":
		return fixedOnly(e.L) && fixedOnly(e.R)
	case "const":
		return e.CK != "list"
	case "get":
		for _, f := range e.P {
			if f.K == "filter" && !fixedOnly(f.F) {
				return false
			}
		}
		return true
	}
	return false
}

func runEq(cs Case, c *vrt.Ctx, data []any, tags []string) {
	var eq *jp.Equation
	var s *jp.Script
	if pv, stack := vrt.Catch(func() { eq = cs.Eq.Build(); s = eq.Script() }); pv != nil {
		c.Fail("panic", "constructors", fmt.Sprintf("%v at %s; %s", pv, stack, cs.Eq), tags...)
		return
	}
	texts := map[string]string{}
	if pv, stack := vrt.Catch(func() {
		texts["Script.String"] = s.String()
		texts["Equation.String"] = eq.String()
		texts["Filter.String"] = eq.Filter().String()
	}); pv != nil {
		c.Fail("panic", "String", fmt.Sprintf("%v at %s; %s", pv, stack, cs.Eq), tags...)
		return
	}
	c.Sample(map[string]any{"recipe": cs.Eq.String(), "Script.String": texts["Script.String"], "Equation.String": texts["Equation.String"]})
	ref := fixedOnly(cs.Eq)
	texts["Filter.String/NewFilter"] = texts["Filter.String"]
	for _, name := range []string{"Script.String", "Equation.String", "Filter.String", "Filter.String/NewFilter"} {
		text := texts[name]
		var s2 *jp.Script
		var err error
		var again string
		switch name {
		case "Filter.String/NewFilter":
			// the filter front-end of its own (it does not go through the path parser)
			var f, fm *jp.Filter
			if pv, stack := vrt.Catch(func() { f, err = jp.NewFilter(text) }); pv != nil {
				c.Fail("panic", "jp.NewFilter", fmt.Sprintf("%v at %s; text %q", pv, stack, text), tags...)
				continue
			}
			pvm, _ := vrt.Catch(func() { fm = jp.MustNewFilter(text) })
			if (err == nil) != (pvm == nil) || (err == nil && fm.String() != f.String()) {
				c.Fail("parsers-differ", "jp.MustNewFilter", fmt.Sprintf("NewFilter(%q) gives %v %v, MustNewFilter %v (panic %v)", text, f, err, fm, pvm), tags...)
			}
			if err == nil {
				again = f.String()
				s2 = &f.Script
			}
		case "Filter.String":
			// a filter prints as [?(...)]: parse it as a path fragment
			var y jp.Expr
			if pv, stack := vrt.Catch(func() { y, err = jp.ParseString("$" + text) }); pv != nil {
				c.Fail("panic", "jp.ParseString", fmt.Sprintf("%v at %s; text %q", pv, stack, text), tags...)
				continue
			}
			if err == nil {
				if len(y) != 2 {
					err = fmt.Errorf("parsed into %d fragments", len(y))
				} else if f, ok := y[1].(*jp.Filter); ok {
					again = f.String()
					s2 = &f.Script
				} else {
					err = fmt.Errorf("second fragment is a %T", y[1])
				}
			}
		default:
			if pv, stack := vrt.Catch(func() { s2, err = jp.NewScript(text) }); pv != nil {
				c.Fail("panic", "jp.NewScript", fmt.Sprintf("%v at %s; text %q", pv, stack, text), tags...)
				continue
			}
			if err == nil {
				if name == "Script.String" {
					again = s2.String()
				} else {
					var e2 *jp.Equation
					if pv, _ := vrt.Catch(func() { e2 = jp.MustParseEquation(text) }); pv != nil {
						err = fmt.Errorf("MustParseEquation: %v", pv)
					} else {
						again = e2.String()
					}
				}
			}
		}
		if err != nil {
			c.Fail("reparse-fails", name, fmt.Sprintf("%q (recipe %s) does not parse: %v", text, cs.Eq, err), tags...)
			continue
		}
		if again != text {
			c.Fail("reprint-differs", name, fmt.Sprintf("%q parses and prints as %q (recipe %s)", text, again, cs.Eq), tags...)
			continue
		}
		for _, d := range data {
			var a, b bool
			pv1, _ := vrt.Catch(func() { a = s.Match(d) })
			pv2, _ := vrt.Catch(func() { b = s2.Match(d) })
			if (pv1 != nil) != (pv2 != nil) || a != b {
				c.Fail("eval-differs", name, fmt.Sprintf("%q (recipe %s) on %s: original %v (panic %v), parsed %v (panic %v)", text, cs.Eq, canon.String(d, canon.Value), a, pv1, b, pv2), tags...)
				break
			}
			// printed parentheses preserve the order of the intended tree
			if ref && pv2 == nil {
				want, res := jpx.Truth(cs.Eq, d, d)
				if res.DontCare == "" && want != b {
					c.Fail("structure-differs", name, fmt.Sprintf("%q on %s: parsed script gives %v, the constructor tree %s means %v", text, canon.String(d, canon.Value), b, cs.Eq, want), tags...)
					break
				}
			}
		}
	}
}

var hostileKeys = []string{"a", "b", "c", "x", "abc", "a b", "", "é", "日本", "it's", `q"`, `both'"`, "back\\slash", "\\", "*", "0", "1a", "$", "@", "a.b", "[0]", "]", "[", "a]b", "..", "\n", "\t", "\x00", "\x7f", "a,b", "a:b", "?", "()", "'", "\"", " ", "😀", "true", "null", " ", "-1", "a-b", "_x", "X_9"}

func hostileData(t *rapid.T, depth int) any {
	k := rapid.IntRange(0, 9).Draw(t, "hk")
	if depth <= 0 || k < 3 {
		return jpx.DrawScalar(t)
	}
	if k < 6 {
		n := rapid.IntRange(0, 4).Draw(t, "alen")
		out := make([]any, n)
		for i := range out {
			out[i] = hostileData(t, depth-1)
		}
		return out
	}
	n := rapid.IntRange(1, 5).Draw(t, "mlen")
	out := map[string]any{}
	for i := 0; i < n; i++ {
		out[rapid.SampledFrom(hostileKeys).Draw(t, "key")] = hostileData(t, depth-1)
	}
	return out
}

func hostilize(t *rapid.T, p jpx.Path) jpx.Path {
	for i := range p {
		switch p[i].K {
		case "child":
			if rapid.IntRange(0, 2).Draw(t, "hostchild") == 0 {
				p[i].Key = rapid.SampledFrom(hostileKeys).Draw(t, "hkey")
			}
		case "union":
			for j := range p[i].U {
				if p[i].U[j].Key != nil && rapid.IntRange(0, 1).Draw(t, "hostunion") == 0 {
					k := rapid.SampledFrom(hostileKeys).Draw(t, "hukey")
					p[i].U[j].Key = &k
				}
			}
		case "filter":
			hostilizeEq(t, p[i].F)
		}
	}
	return p
}

func hostilizeEq(t *rapid.T, e *jpx.Eq) {
	if e == nil {
		return
	}
	if e.Op == "const" && e.CK == "string" && rapid.IntRange(0, 1).Draw(t, "hostconst") == 0 {
		e.CS = rapid.SampledFrom(hostileKeys).Draw(t, "hconst")
	}
	if e.Op == "const" && e.CK == "float" && rapid.IntRange(0, 3).Draw(t, "intfloat") == 0 {
		e.CF = rapid.SampledFrom([]float64{1.0, 2.0, -3.0, 0.0, 1e21, 1e-7}).Draw(t, "cf")
	}
	if e.Op == "get" || e.Op == "length" || e.Op == "count" {
		e.P = hostilize(t, e.P)
	}
	hostilizeEq(t, e.L)
	hostilizeEq(t, e.R)
}

func drawCase(t *rapid.T) Case {
	var cs Case
	n := 6
	for i := 0; i < n; i++ {
		cs.Data = append(cs.Data, wx.Enc(hostileData(t, 3)))
	}
	if rapid.IntRange(0, 2).Draw(t, "iseq") == 0 {
		e := jpx.DrawEq(t, 3, rapid.Bool().Draw(t, "fixedonly"))
		hostilizeEq(t, e)
		cs.Eq = e
		return cs
	}
	p := jpx.DrawPath(t, jpx.PathOpts{MaxFrags: 5, FilterDepth: 2, HostileKeys: true})
	// the Bracket display flag is not part of the statement's fragment list (and is not
	// preserved by parsing): not generated here
	// two consecutive descents are merged by the parser ("$...a" is "$..a"): not generated
	var q jpx.Path
	for _, f := range p {
		if f.K == "bracket" || (f.K == "descent" && len(q) > 0 && q[len(q)-1].K == "descent") {
			continue
		}
		// a union with a single member has no text form of its own (['a'] is a child)
		if f.K == "union" && len(f.U) == 1 {
			f.U = append(f.U, f.U[0])
		}
		q = append(q, f)
	}
	cs.Path = hostilize(t, q)
	return cs
}

func TestPropRandom(t *testing.T) {
	vrt.Rapid(t, suite, "text", vrt.Scale(25000, 150000), drawCase, Run)
}

func TestReplay(t *testing.T) { suite.ReplayAll(t) }

// FuzzExprText: recipe bytes -> rapid bit stream (uses all cores, coverage guided)
func FuzzExprText(f *testing.F) {
	f.Add([]byte{1, 2, 3, 4, 5, 6, 7, 8})
	f.Fuzz(rapid.MakeFuzz(func(rt *rapid.T) {
		cs := drawCase(rt)
		c := &vrt.Ctx{}
		Run(cs, c)
		bad := suite.Finish("text", c, func() []byte { b, _ := json.Marshal(cs); return b })
		if len(bad) > 0 {
			if dir := os.Getenv("VERIF_FUZZ_OUT"); dir != "" {
				cj, _ := json.Marshal(cs)
				b, _ := json.Marshal(vrt.Violation{Prop: "text", Case: cj, Discs: bad})
				_ = os.WriteFile(dir+"/fuzz-violation.json", b, 0o644)
			}
			rt.Fatalf("%s@%s: %s", bad[0].Kind, bad[0].Where, bad[0].Detail)
		}
	}))
}

var classifiers = []vrt.Classifier{}
