// Package c01 decides C01: the strict JSON front-ends accept exactly RFC 8259.
package c01

import (
	"bytes"
	"encoding/json"
	"fmt"
	"hash/fnv"
	"os"
	"strings"
	"sync"
	"testing"
	"testing/iotest"

	"github.com/ohler55/ojg"
	"github.com/ohler55/ojg/gen"
	"github.com/ohler55/ojg/oj"
	"pgregory.net/rapid"

	"verif/internal/gx"
	"verif/internal/ref"
	"verif/internal/vet"
	"verif/internal/vrt"
)

var suite = vrt.NewSuite("C01", "inputs come from (1) an exhaustive grammar-state x 256-byte x completion-suffix matrix, (2) exhaustive small-scope strings over byte/class/token alphabets, (3) rapid: grammar-generated valid texts and 1-3 point mutations of them, optional BOM at the start and, for a tenth, a byte order mark somewhere inside or at a multiple of 4096. Each input is given to every strict front-end (byte slices, whole-input readers, readers with 1, 4, 5 and 7 byte reads with and without EOF delivered with the data, instances with a history); the verdict must equal the RFC 8259 reference recogniser (cross-checked with encoding/json.Valid). Non-trivial = not dead at its first byte and (valid with >=2 tokens, or rejected at offset >=1, or incomplete); distinct = distinct input bytes")

type Case struct {
	Input []byte `json:"input"`
	Src   string `json:"src,omitempty"`
}

func TestMain(m *testing.M) {
	vrt.InitRapid()
	vrt.RegisterReplay(suite, "accept", Run)
	suite.Register(classifiers...)
	vrt.Main(m, suite)
}

type frontEnd struct {
	name string
	f    func(data []byte) error
}

var frontEnds = []frontEnd{
	{"oj.Parse", func(d []byte) error { _, err := oj.Parse(d); return err }},
	{"oj.Parser.Parse", func(d []byte) error { p := oj.Parser{}; _, err := p.Parse(d); return err }},
	{"oj.Load", func(d []byte) error { _, err := oj.Load(bytes.NewReader(d)); return err }},
	{"oj.Parser.ParseReader/1", func(d []byte) error {
		p := oj.Parser{}
		_, err := p.ParseReader(iotest.OneByteReader(bytes.NewReader(d)))
		return err
	}},
	{"oj.Validator.Validate", func(d []byte) error { v := oj.Validator{OnlyOne: true}; return v.Validate(d) }},
	{"oj.Validator.ValidateReader", func(d []byte) error {
		v := oj.Validator{OnlyOne: true}
		return v.ValidateReader(bytes.NewReader(d))
	}},
	{"oj.Validator.ValidateReader/1", func(d []byte) error {
		v := oj.Validator{OnlyOne: true}
		return v.ValidateReader(iotest.OneByteReader(bytes.NewReader(d)))
	}},
	{"oj.Tokenizer.Parse", func(d []byte) error {
		t := oj.Tokenizer{}
		t.OnlyOne = true
		return t.Parse(d, &oj.ZeroHandler{})
	}},
	{"oj.Tokenizer.Load", func(d []byte) error {
		t := oj.Tokenizer{}
		t.OnlyOne = true
		return t.Load(bytes.NewReader(d), &oj.ZeroHandler{})
	}},
	{"oj.Tokenizer.Load/1", func(d []byte) error {
		t := oj.Tokenizer{}
		t.OnlyOne = true
		return t.Load(iotest.OneByteReader(bytes.NewReader(d)), &oj.ZeroHandler{})
	}},
	{"gen.Parser.Parse", func(d []byte) error { p := gen.Parser{}; _, err := p.Parse(d); return err }},
	{"gen.Parser.ParseReader", func(d []byte) error { p := gen.Parser{}; _, err := p.ParseReader(bytes.NewReader(d)); return err }},
	{"gen.Parser.ParseReader/1", func(d []byte) error {
		p := gen.Parser{}
		_, err := p.ParseReader(iotest.OneByteReader(bytes.NewReader(d)))
		return err
	}},
	// readers that hand the text out in short reads: what a front-end does once per read (the
	// byte-order-mark test, the end-of-buffer carry) must not depend on where the reads fall
	{"oj.Parser.ParseReader/4", func(d []byte) error {
		p := oj.Parser{}
		_, err := p.ParseReader(gx.Chunking{Sizes: []int{4}}.Reader(d))
		return err
	}},
	{"oj.Parser.ParseReader/5", func(d []byte) error {
		p := oj.Parser{}
		_, err := p.ParseReader(gx.Chunking{Sizes: []int{5}}.Reader(d))
		return err
	}},
	{"oj.Load/7+eof", func(d []byte) error {
		_, err := oj.Load(gx.Chunking{Sizes: []int{7}, EOFWithData: true}.Reader(d))
		return err
	}},
	{"gen.Parser.ParseReader/4", func(d []byte) error {
		p := gen.Parser{}
		_, err := p.ParseReader(gx.Chunking{Sizes: []int{4}}.Reader(d))
		return err
	}},
	{"gen.Parser.ParseReader/5+eof", func(d []byte) error {
		p := gen.Parser{}
		_, err := p.ParseReader(gx.Chunking{Sizes: []int{5}, EOFWithData: true}.Reader(d))
		return err
	}},
	{"oj.Validator.ValidateReader/4", func(d []byte) error {
		v := oj.Validator{OnlyOne: true}
		return v.ValidateReader(gx.Chunking{Sizes: []int{4}}.Reader(d))
	}},
	{"oj.Validator.ValidateReader/7", func(d []byte) error {
		v := oj.Validator{OnlyOne: true}
		return v.ValidateReader(gx.Chunking{Sizes: []int{7}}.Reader(d))
	}},
	{"oj.Tokenizer.Load/4", func(d []byte) error {
		t := oj.Tokenizer{}
		t.OnlyOne = true
		return t.Load(gx.Chunking{Sizes: []int{4}}.Reader(d), &oj.ZeroHandler{})
	}},
	{"oj.Tokenizer.Load/5+eof", func(d []byte) error {
		t := oj.Tokenizer{}
		t.OnlyOne = true
		return t.Load(gx.Chunking{Sizes: []int{5}, EOFWithData: true}.Reader(d), &oj.ZeroHandler{})
	}},
	// a number conversion option is no request for several documents: one text only, as without it
	{"oj.Parse(NumConvString)", func(d []byte) error { _, err := oj.Parse(d, ojg.NumConvString); return err }},
	{"oj.ParseString(NumConvFloat64)", func(d []byte) error { _, err := oj.ParseString(string(d), ojg.NumConvFloat64); return err }},
	{"oj.Load(NumConvNone)", func(d []byte) error { _, err := oj.Load(bytes.NewReader(d), ojg.NumConvNone); return err }},
	{"oj.Parser.Parse(NumConvFloat64)", func(d []byte) error { p := oj.Parser{}; _, err := p.Parse(d, ojg.NumConvFloat64); return err }},
	{"oj.Parser.ParseReader/4(NumConvString)", func(d []byte) error {
		p := oj.Parser{}
		_, err := p.ParseReader(gx.Chunking{Sizes: []int{4}}.Reader(d), ojg.NumConvString)
		return err
	}},
	{"oj.Parser{Reuse}.Parse", func(d []byte) error { p := oj.Parser{Reuse: true}; _, err := p.Parse(d); return err }},
	{"gen.Parser{Reuse}.ParseReader/5", func(d []byte) error {
		p := gen.Parser{Reuse: true}
		_, err := p.ParseReader(gx.Chunking{Sizes: []int{5}}.Reader(d))
		return err
	}},
	// instances with a history of earlier calls (internal/vet)
	{"oj.Parser(veteran).Parse", func(d []byte) error { _, err := vet.OjParser().Parse(d); return err }},
	{"oj.Parser(veteran).ParseReader", func(d []byte) error { _, err := vet.OjParser().ParseReader(bytes.NewReader(d)); return err }},
	{"oj.Tokenizer(veteran).Parse", func(d []byte) error {
		t := vet.OjTokenizer()
		t.OnlyOne = true
		return t.Parse(d, &oj.ZeroHandler{})
	}},
	{"gen.Parser(veteran).Parse", func(d []byte) error { _, err := vet.GenParser().Parse(d); return err }},
	{"gen.Parser(veteran).ParseReader", func(d []byte) error { _, err := vet.GenParser().ParseReader(bytes.NewReader(d)); return err }},
}

// Run is the property: every front-end accepts iff the reference does.
func Run(cs Case, c *vrt.Ctx) {
	data := cs.Input
	c.SetKey(data)
	body, bom := ref.StripBOM(data)
	v := ref.Scan(body)
	// oracle self-check: recogniser vs encoding/json vs the recursive-descent decoder
	jv := json.Valid(body)
	_, derr := ref.Decode(body)
	if v.Complete != jv || v.Complete != (derr == nil) {
		c.Failf("oracle-defect", "oracle", "machine=%v json.Valid=%v decode=%v on %q", v.Complete, jv, derr, body)
		return
	}
	want := v.Complete || v.Empty
	if bom {
		c.Class("bom")
		if v.Empty {
			c.DontCare("bom-then-nothing")
			return
		}
	}
	switch {
	case v.Complete:
		c.Class("valid")
		if v.Tokens >= 2 {
			c.NonTrivial()
		}
	case v.Empty:
		c.Class("empty")
	case v.DeadAt == len(body):
		c.Class("incomplete")
		c.NonTrivial()
		c.Tag("incomplete")
		if strings.Contains(v.EndState, "@[") || strings.Contains(v.EndState, "@{") {
			c.Tag("open-at-eof")
		}
	default:
		c.Class("dead")
		if v.DeadAt >= 1 {
			c.NonTrivial()
		}
	}
	c.Tag("end:" + stateClass(v.EndState))
	if !want && v.DeadAt < len(body) {
		c.Tag("dead-byte:" + byteClass(body[v.DeadAt]))
	}
	c.Sample(map[string]any{"input": string(data), "want_accept": want, "end_state": v.EndState, "dead_at": v.DeadAt})
	vh := fnv.New32a()
	_, _ = vh.Write(data)
	veterans := vh.Sum32()%8 == 0 // the veteran instances cost a history of calls each
	if veterans {
		c.Class("veteran-instances")
	}
	// the front-ends that differ from a plain one by an option argument or the Reuse flag only
	// take every third input (by content): what they add is one branch at the start of the call
	optioned := vh.Sum32()%3 == 0
	for _, fe := range frontEnds {
		if !veterans && strings.Contains(fe.name, "(veteran)") {
			continue
		}
		if !optioned && (strings.Contains(fe.name, "(NumConv") || strings.Contains(fe.name, "{Reuse}")) {
			continue
		}
		var err error
		pv, stack := vrt.Catch(func() { err = fe.f(gx.Exact(data)) })
		if pv != nil {
			c.Fail("panic", fe.name, fmt.Sprintf("%v at %s on %q", pv, stack, data))
			continue
		}
		got := err == nil
		if got == want {
			continue
		}
		if got {
			db := "eof"
			if v.DeadAt < len(body) {
				db = byteClass(body[v.DeadAt])
			}
			c.Fail("accept-invalid", fe.name, fmt.Sprintf("accepted %q; reference: dead at %d in state %s", data, v.DeadAt, v.EndState), "end:"+stateClass(v.EndState), "byte:"+db)
		} else {
			c.Fail("reject-valid", fe.name, fmt.Sprintf("rejected %q with %v; reference: valid", data, err), numShape(body))
		}
	}
}

// numShape tags valid inputs by the number-literal shapes they contain.
func numShape(body []byte) string {
	s := string(body)
	var tags []string
	for _, p := range []string{"0e", "0E", "-0e", "-0E"} {
		if strings.Contains(s, p) {
			tags = append(tags, "zero-exp")
			break
		}
	}
	if strings.ContainsAny(s, "eE") {
		tags = append(tags, "has-e")
	}
	return "shape:" + strings.Join(tags, "+")
}

func stateClass(s string) string {
	if i := strings.IndexByte(s, '@'); i >= 0 {
		s = s[:i]
	}
	if i := strings.IndexByte(s, ':'); i >= 0 {
		s = s[:i]
	}
	return s
}

func byteClass(b byte) string {
	switch {
	case b == ',':
		return "comma"
	case b == '.':
		return "dot"
	case b == 'e' || b == 'E':
		return "e"
	case '0' <= b && b <= '9':
		return "digit"
	case b == ']' || b == '}':
		return "close"
	case b == '"':
		return "quote"
	case b == ' ' || b == '\n' || b == '\t' || b == '\r':
		return "ws"
	}
	return "other"
}

// witness prefixes: each grammar state of the reference machine is entered by at
// least one of these (TestEnumMatrix verifies which states are covered).
var prefixes = []string{
	"", " ", "[", "[ ", "{", "{ ", `{"a"`, `{"a" `, `{"a":`, `{"a": `, `[1,`, `[1, `, `{"a":1,`, `{"a":1, `,
	`[1`, `[1 `, `{"a":1`, `{"a":1 `, `[[]`, `[{}`, `{"a":[]`, `{"a":{}`, `1`, `1 `, `[]`, `{}`, `[] `, `"a"`, `null`, `null `,
	`"`, `"a`, `["`, `["a`, `{"`, `{"a`, `{"a":"`, `{"a":"b`,
	`"\`, `["a\`, `{"a\`, `{"k":"a\`,
	`"\u`, `"\u1`, `"\u12`, `"\u123`, `["\u`, `["\uD`, `["\uD8`, `["\uD83`, `{"\u`, `{"\u0`, `{"\u00`, `{"\u006`, `"\ud83d\ude0`, `"\ud83d\`,
	`-`, `[-`, `{"a":-`, `0`, `[0`, `{"a":0`, `-0`, `[-0`, `12`, `[12`, `{"a":12`, `-12`,
	`1.`, `[1.`, `0.`, `[0.`, `{"a":0.`, `1.5`, `[1.5`, `0.5`, `{"a":1.5`, `1e`, `[1e`, `1E`, `0e`, `[0e`, `{"a":0E`, `1.5e`, `[1.5E`,
	`1e+`, `[1e-`, `0e+`, `1.5e-`, `{"a":1e+`, `1e5`, `[1e5`, `0e5`, `[0e5`, `1e+5`, `[1.5e-5`, `{"a":1e5`, `{"a":0e0`,
	`n`, `nu`, `nul`, `[n`, `[nu`, `[nul`, `{"a":n`, `{"a":nu`, `{"a":nul`, `[1,n`, `[1,nu`, `[1,nul`,
	`t`, `tr`, `tru`, `[t`, `[tr`, `[tru`, `{"a":t`, `{"a":tr`, `{"a":tru`,
	`f`, `fa`, `fal`, `fals`, `[f`, `[fa`, `[fal`, `[fals`, `{"a":f`, `{"a":fa`, `{"a":fal`, `{"a":fals`,
	`[true`, `[false`, `[null`, `{"a":true`, `{"a":null`, `true`, `false`,
	`[[1,2],`, `[{"a":1},`, `{"a":[1],`, `{"a":{"b":1},`, `[[[[`, `{"a":{"b":{"c":`, `[1,2,3`, `{"a":1,"b":2`,
}

// The number modes branch on data as well (a number that has spilled into the big-number
// buffer takes other code in the same mode), so every number state is also entered with
// numbers of 19-20 and more digits, long fractions and long exponents.
func init() {
	for _, ctx := range []string{"", "[", `{"a":`, "[1,"} {
		for _, sign := range []string{"", "-"} {
			for _, big := range []string{"12345678901234567890", "9223372036854775808", "123456789012345678901234567890"} {
				for _, tail := range []string{"", ".", ".5", "e", "e+", "e5", ".5e", ".5e-", ".5e-5", ".5E+5"} {
					prefixes = append(prefixes, ctx+sign+big+tail)
				}
			}
			for _, frac := range []string{"1.12345678901234567890", "0.00000000000000000001", "1.5e1234567890", "1e-000000000000000000001"} {
				for _, tail := range []string{"", "e", "e-"} {
					if strings.Contains(frac, "e") && tail != "" {
						continue
					}
					prefixes = append(prefixes, ctx+sign+frac+tail)
				}
			}
		}
	}
}

var suffixes = []string{"", "]", "}", `"`, "0", "1]", ":1}", ",1]", `"]`, `"}`, "ll", "l", "e1", ".5", "ue", "e", "se", " ", "\n", ",", `":1}`, "1", "5]", "0}", `,"b":2}`, "]]", "}}", `0"]`, `00"`, `000"`}

func TestEnumMatrix(t *testing.T) {
	for _, p := range prefixes {
		var m ref.Machine
		for i := 0; i < len(p); i++ {
			m.Feed(p[i])
		}
		if m.Dead() {
			t.Fatalf("witness prefix %q is dead", p)
		}
	}
	var mu sync.Mutex
	states := map[string]bool{}
	total := 0
	vrt.Workers(func(si, sn int) {
		n := enumMatrix(si, sn, states, &mu)
		mu.Lock()
		total += n
		mu.Unlock()
	})
	suite.AddExtra("matrix_cases", int64(total))
	suite.Extra("matrix_states_covered", len(states))
	suite.Extra("matrix_exhaustive", true)
}

func enumMatrix(si, sn int, states map[string]bool, mu *sync.Mutex) int {
	sufs := suffixes
	if !vrt.Thorough() {
		sufs = suffixes[:10]
	}
	n := 0
	for pi, p := range prefixes {
		var m ref.Machine
		for i := 0; i < len(p); i++ {
			m.Feed(p[i])
		}
		mu.Lock()
		states[m.StateName()] = true
		mu.Unlock()
		if pi%sn != si {
			continue
		}
		for b := 0; b < 256; b++ {
			for _, s := range sufs {
				in := make([]byte, 0, len(p)+1+len(s))
				in = append(in, p...)
				in = append(in, byte(b))
				in = append(in, s...)
				vrt.Eval(suite, "accept", Case{Input: in}, Run)
				n++
			}
		}
	}
	return n
}

var classAlphabet = []byte("[]{}:,019-+.eE\"\\/bfnrtuaAFlsx \t\n\r\x00\x1f\x7f\x80\xff\xef\xbb\xbf'*")
var tokenAlphabet = []string{"[", "]", "{", "}", ":", ",", `"k"`, "1", "-1", "0", "1.5", "1e2", "null", "true", "false", " "}
var contexts = [][2]string{{"", ""}, {"[", ""}, {"[1,", ""}, {`{"k":`, ""}, {`{"k":1,`, ""}, {"[", "]"}, {`{"k":`, "}"}}

func TestEnumSmall(t *testing.T) {
	var mu sync.Mutex
	total := 0
	vrt.Workers(func(si, sn int) {
		n := enumSmall(si, sn)
		mu.Lock()
		total += n
		mu.Unlock()
	})
	suite.AddExtra("smallscope_cases", int64(total))
}

func enumSmall(si, sn int) int {
	n := 0
	emit := func(s []byte) {
		for _, cx := range contexts {
			in := append(append([]byte(cx[0]), s...), cx[1]...)
			vrt.Eval(suite, "accept", Case{Input: in}, Run)
			n++
		}
	}
	// all strings of length <= 2 over all bytes
	if si == 0 {
		emit(nil)
	}
	for a := 0; a < 256; a++ {
		if a%sn != si {
			continue
		}
		emit([]byte{byte(a)})
		for b := 0; b < 256; b++ {
			emit([]byte{byte(a), byte(b)})
		}
	}
	// length 3 (quick) / 3-4 (thorough) over class representatives
	al := classAlphabet
	maxLen := 3
	if vrt.Thorough() {
		maxLen = 4
	}
	var rec func(cur []byte)
	rec = func(cur []byte) {
		if len(cur) >= 3 {
			emit(cur)
		}
		if len(cur) == maxLen {
			return
		}
		for i, b := range al {
			if len(cur) == 0 && i%sn != si {
				continue
			}
			rec(append(cur, b))
		}
	}
	rec(nil)
	// token alphabet
	maxTok := 5
	if vrt.Thorough() {
		maxTok = 6
	}
	var trec func(cur []string)
	trec = func(cur []string) {
		if len(cur) >= 1 {
			in := []byte(strings.Join(cur, ""))
			vrt.Eval(suite, "accept", Case{Input: in}, Run)
			n++
		}
		if len(cur) == maxTok {
			return
		}
		for i, tk := range tokenAlphabet {
			if len(cur) == 0 && i%sn != si {
				continue
			}
			trec(append(cur, tk))
		}
	}
	trec(nil)
	return n
}

func drawCase(t *rapid.T) Case {
	o := gx.DefaultText
	if rapid.IntRange(0, 15).Draw(t, "pad") == 0 {
		o.PadTo = rapid.SampledFrom([]int{4090, 4096, 4100, 8190, 8200}).Draw(t, "padto")
	}
	text := gx.JSONText(t, o)
	src := "valid"
	switch rapid.IntRange(0, 9).Draw(t, "how") {
	case 0, 1, 2:
	case 3:
		text = append(append([]byte(nil), text...), gx.JSONText(t, o)...)
		src = "concat"
	default:
		text = gx.Mutate(t, text)
		src = "mutated"
	}
	switch rapid.IntRange(0, 19).Draw(t, "bom") {
	case 0:
		text = append([]byte{0xEF, 0xBB, 0xBF}, text...)
	case 1:
		text = append([]byte{0xEF, 0xBB}, text...)
	case 2, 3:
		// a byte order mark anywhere but at the start is not JSON, wherever the reads fall
		at := rapid.IntRange(0, len(text)).Draw(t, "bomAt")
		if rapid.IntRange(0, 3).Draw(t, "bomAtBlock") == 0 && len(text) > 4096 {
			at = 4096 * rapid.IntRange(1, len(text)/4096).Draw(t, "block")
		}
		text = append(append(append([]byte(nil), text[:at]...), 0xEF, 0xBB, 0xBF), text[at:]...)
		src += "+bom-inside"
	}
	return Case{Input: text, Src: src}
}

func TestPropRandom(t *testing.T) {
	vrt.Rapid(t, suite, "accept", vrt.Scale(20000, 150000), drawCase, Run)
}

func TestReplay(t *testing.T) { suite.ReplayAll(t) }

func FuzzAccept(f *testing.F) {
	for _, s := range gx.HostileTokens {
		f.Add([]byte(s))
		f.Add([]byte("[" + s + "]"))
		f.Add([]byte(`{"a":` + s + "}"))
	}
	f.Add([]byte(`{"a":[1,2.5e3,"xé\n",null,true,false],"b":{}}`))
	f.Fuzz(func(t *testing.T, data []byte) {
		c := &vrt.Ctx{}
		Run(Case{Input: data}, c)
		bad := suite.Finish("accept", c, func() []byte { b, _ := json.Marshal(Case{Input: data}); return b })
		if len(bad) > 0 {
			if dir := os.Getenv("VERIF_FUZZ_OUT"); dir != "" {
				b, _ := json.Marshal(vrt.Violation{Prop: "accept", Case: mustJSON(Case{Input: data}), Discs: bad})
				_ = os.WriteFile(dir+"/fuzz-violation.json", b, 0o644)
			}
			t.Fatalf("%s@%s: %s", bad[0].Kind, bad[0].Where, bad[0].Detail)
		}
	})
}

func mustJSON(v any) json.RawMessage { b, _ := json.Marshal(v); return b }

var classifiers = []vrt.Classifier{}
