// Package c08 decides C08: concurrent use of the package level APIs and of shared
// paths, options, struct types and a prepared recomposer is safe.
package c08

import (
	"bytes"
	"fmt"
	"io"
	"os"
	"reflect"
	"runtime"
	"sort"
	"strings"
	"sync"
	"sync/atomic"
	"testing"

	"github.com/ohler55/ojg"
	"github.com/ohler55/ojg/alt"
	"github.com/ohler55/ojg/jp"
	"github.com/ohler55/ojg/oj"
	"github.com/ohler55/ojg/pretty"
	"github.com/ohler55/ojg/sen"
	"pgregory.net/rapid"

	"verif/internal/canon"
	"verif/internal/tyx"
	"verif/internal/tyx/pa"
	"verif/internal/tyx/pb"
	"verif/internal/vrt"
)

var suite = vrt.NewSuite("C08", "(2-8 goroutines, a generated sequence of 2-12 calls for each, a struct type new to the process): every goroutine works on private copies of pooled documents and values but shares the parsed jp.Expr values (child, index, slice, union, wildcard, descent, filters with comparison, regex and nested paths), the *ojg.Options records, the freshly synthesised struct type (so that its field plans are built while others use it), the named catalogue types and one recomposer on which all target types were registered before the goroutines start. Calls: oj.Parse / ParseString / Validate / Tokenize / Unmarshal, sen.Parse, the Must forms, oj.Load / MustLoad / sen.ParseReader / MustParseReader through a reader that gives the processor away before every short read, multi-document parses whose callback does the same, oj.JSON / Marshal / Write, sen.String / Bytes, pretty.JSON / SEN, alt.Decompose / Generify / Alter / Dup / Recompose, Expr.Get / First / Has / Set / Del / Modify, jp.ParseString. Oracles: the Go race detector (the check is built with -race and a report becomes a violation of the running case); every call returns exactly what the same call returned when the sequences were run one after the other beforehand; every returned []byte still holds what it held when it was returned once all goroutines are done. Each case is run three times. Non-trivial = at least two goroutines that both use a shared object of the same class (pooled writer, pooled parser, struct plan, expression, recomposer); distinct = distinct case")

type Op struct {
	K string `json:"k"`
	D int    `json:"d,omitempty"` // index into the data pool of the call
	X int    `json:"x,omitempty"` // index of the shared option record / expression
}

type Case struct {
	Seqs [][]Op     `json:"seqs"`
	Type *tyx.TypeR `json:"type"`
}

func TestMain(m *testing.M) {
	vrt.InitRapid()
	vrt.RegisterReplay(suite, "concurrent", Run)
	suite.Register(classifiers...)
	vrt.Main(m, suite)
}

// ---- pools ----

var texts = []string{
	`{"a":{"b":[1,2,3],"x":"y"},"list":[{"k":"k1","v":1},{"k":"k2","v":2},{"k":"z","v":3}],"c":null,"x":1.5e3}`,
	`[1,2,3,4,5,6,7,8,9,10,11,12,13,14,15,16,17,18,19,20]`,
	`{"text":"` + strings.Repeat("long string with \\\"escapes\\\" and \\u00e9 ", 40) + `"}`,
	`[{"a":[{"a":[{"a":[{"a":[1,{"x":true}]}]}]}],"x":false}]`,
	`{"n":12345678901234567890,"f":0.1,"e":1e-7,"neg":-5,"s":"<&>","t":true}`,
	`"just a string"`,
	`{"list":[` + strings.Repeat(`{"k":"key","v":7,"w":[1,2]},`, 60) + `{"k":"last","v":0}]}`,
	`{"a":1,"b":2,"c":3,"d":4,"e":5,"f":6,"g":7,"h":8}`,
	// numbers that are kept as text (json.Number) unless a conversion option says otherwise
	`[123456789012345678901234567890,0.1234567890123456789012345,1e400,-98765432109876543210,7]`,
}

// parseArgs: the optional arguments of a package level parse call.
func parseArgs(op Op) []any {
	switch op.X % 6 {
	case 1:
		return []any{ojg.NumConvString}
	case 3:
		return []any{ojg.NumConvFloat64}
	}
	return nil
}

var senTexts = []string{
	`[123456789012345678901234567890 0.1234567890123456789012345 1e400 abc]`,
	`{a:{b:[1 2 3] x:y} list:[{k:k1 v:1}{k:k2 v:2}] c:null}`,
	`[1 2 3 [4 5 [6 7]] abc "d e"]`,
	`{text: "` + strings.Repeat("abc def ", 50) + `"}`,
}

// texts on which a call fails, each in another state of the parser: whatever a failed call leaves
// in a pooled parser is handed to the next caller with it
var badTexts = []string{`[1,2`, `{"a":`, `["abc\\`, `[1.5e`, `[tru`, `{"a" 1}`, `[12345678901234567890123 x]`, `{"a":{"b":[1,{"c":"\\u12`, `[1,2]]`, `{"k":"v"}}`}
var badSenTexts = []string{`["abc" + 1]`, `{a: "x" + }`, `["abc" +`, `[1 2`, `{a:`, `"abc`, `[abc"d`, `{a:1 b}`, `[1 2]]`, `[/* open`, `{a:[1 {b:"x\\u00`}

var exprTexts = []string{
	"$.a.b", "$.a.b[1]", "$..x", "$.list[*].v", "$.list[?(@.v > 1)].k", "$.list[1:3]", "$['a','c']", "$.list[?(@.k =~ /k.*/)].v",
	"$.list[?(@.v == $.a.b[0])]", "$[*]", "$..a", "$.list[-1].k", "@.a", "$.list[?(@.w[0] == 1 && @.v >= 7)].k", "$.a..[1]",
}

// paths for Remove through a shared expression: slices whose bounds have to be made fit for the
// list at hand (negative, beyond the end) - on lists of different lengths, so whatever a call
// works out for its list must stay that call's own
var removeTexts = []string{"$.list[-3:-1:1]", "$.list[0:100:2]", "$.list[-2:]", "$.list[1:-1]", "$.list[?(@.v > 1)]", "$.list[0,-1]", "$[-3:-1:1]", "$[0:100:3]"}

var removeExprs []jp.Expr

var (
	trees  []any
	exprs  []jp.Expr
	optRec []*ojg.Options
)

func init() {
	for _, t := range texts {
		trees = append(trees, oj.MustParseString(t))
	}
	for _, e := range exprTexts {
		exprs = append(exprs, jp.MustParseString(e))
	}
	for _, e := range removeTexts {
		removeExprs = append(removeExprs, jp.MustParseString(e))
	}
	optRec = []*ojg.Options{
		{Sort: true},
		{Sort: true, Indent: 2},
		{Sort: true, OmitNil: true},
		{Sort: true, OmitEmpty: true, UseTags: true},
		{Sort: true, UseTags: true, KeyExact: true, BytesAs: ojg.BytesAsBase64},
		{Sort: true, NestEmbed: true, HTMLUnsafe: true},
	}
}

var namedSamples = []func() any{
	func() any { return pa.Sample("Item", 0) },
	func() any { return pb.Sample("Item", 0) },
	func() any { return pa.Sample("Box", 0) },
	func() any { return pb.Sample("Box", 0) },
	func() any { v := tyx.Catalogue(4); return &v },
	func() any { return tyx.Catalogue(9) },
	func() any { return tyx.Catalogue(7) },
}

type env struct {
	rt      reflect.Type
	val     func() any // a value of the fresh struct type
	rec     *alt.Recomposer
	recCold *alt.Recomposer // made with its types, never used before the goroutines start
	recAnon *alt.Recomposer // made with its type and used once before the goroutines start
	recs    []recTarget
}

type recTarget struct {
	data any // decomposed form
	mk   func() any
}

// yieldReader hands out its data in short reads and gives the processor away before each.
type yieldReader struct {
	data []byte
	size int
}

func (r *yieldReader) Read(p []byte) (int, error) {
	runtime.Gosched()
	if len(r.data) == 0 {
		return 0, io.EOF
	}
	n := r.size
	if len(p) < n {
		n = len(p)
	}
	if len(r.data) < n {
		n = len(r.data)
	}
	copy(p, r.data[:n])
	r.data = r.data[n:]
	return n, nil
}

type tokens struct{ sb strings.Builder }

func (h *tokens) Null()           { h.sb.WriteString("n,") }
func (h *tokens) Bool(b bool)     { fmt.Fprintf(&h.sb, "%v,", b) }
func (h *tokens) Int(i int64)     { fmt.Fprintf(&h.sb, "%d,", i) }
func (h *tokens) Float(f float64) { fmt.Fprintf(&h.sb, "%g,", f) }
func (h *tokens) Number(s string) { h.sb.WriteString(s + ",") }
func (h *tokens) String(s string) { fmt.Fprintf(&h.sb, "%q,", s) }
func (h *tokens) ObjectStart()    { h.sb.WriteString("{") }
func (h *tokens) ObjectEnd()      { h.sb.WriteString("}") }
func (h *tokens) Key(s string)    { fmt.Fprintf(&h.sb, "%q:", s) }
func (h *tokens) ArrayStart()     { h.sb.WriteString("[") }
func (h *tokens) ArrayEnd()       { h.sb.WriteString("]") }

// shelf reaches the struct type leaf through the element type of map fields only.
type shelf struct {
	Name  string
	Items map[string]*leaf
	Byval map[string]leaf
}

type leaf struct {
	N   int
	Tag string
}

// twoAnon has fields of two different struct types that have no name.
type twoAnon struct {
	A struct{ X int }
	B struct{ Y string }
	C []struct{ Z bool }
}

var twoAnonData = map[string]any{"a": map[string]any{"x": int64(3)}, "b": map[string]any{"y": "why"}, "c": []any{map[string]any{"z": true}}}

var shelfData = alt.Decompose(&shelf{Name: "s", Items: map[string]*leaf{"a": {N: 1, Tag: "x"}, "b": {N: 2}}, Byval: map[string]leaf{"c": {N: 3}}}, &ojg.Options{})

var opKinds = []string{
	"oj.parse", "oj.parsestring", "oj.validate", "oj.tokenize", "sen.parse", "oj.unmarshal", "oj.parse.bad", "sen.parse.bad",
	"oj.load", "oj.mustload", "oj.mustparse", "oj.parse.callback", "sen.parsereader", "sen.mustparsereader", "sen.mustparse", "sen.parse.callback",
	"oj.json", "oj.marshal", "oj.write", "sen.string", "sen.bytes", "pretty.json", "pretty.sen",
	"struct.oj.json", "struct.oj.marshal", "struct.sen.string", "struct.pretty", "struct.decompose", "named.oj.json", "named.decompose",
	"alt.generify", "alt.alter", "alt.dup", "alt.recompose", "alt.recompose.cold", "alt.recompose.anon",
	"jp.get", "jp.first", "jp.has", "jp.set", "jp.del", "jp.modify", "jp.parse", "jp.get.pattern", "jp.remove",
}

var patternSerial atomic.Int64

var patternExprs = []jp.Expr{
	jp.MustParseString("$.list[?match(@.k, @.pat)].v"),
	jp.MustParseString("$.list[?search(@.k, @.sub)].v"),
	jp.MustParseString("$.list[?(match(@.k, 'key[0-2]') && search(@.k, @.sub))].v"),
	jp.MustParseString("$.list[?(length(@.w) == 2 && count(@.w[*]) > 1 && search(@.k, 'y1'))].k"),
	jp.MustParseString("$.list[?(@.k =~ @.pat)].v"),
}

// shared says which shared object class a call touches.
func shared(k string) string {
	switch {
	case strings.HasPrefix(k, "struct."):
		return "struct-plan"
	case strings.HasPrefix(k, "named."):
		return "struct-plan"
	case strings.HasPrefix(k, "jp.") && k != "jp.parse":
		return "expression"
	case k == "alt.recompose" || k == "alt.recompose.cold" || k == "alt.recompose.anon" || k == "oj.unmarshal":
		return "recomposer"
	case k == "oj.json" || k == "oj.marshal" || k == "oj.write" || k == "sen.string" || k == "sen.bytes" || k == "pretty.json" || k == "pretty.sen":
		return "pooled-writer"
	case k == "oj.parse" || k == "oj.parsestring" || k == "oj.validate" || k == "oj.tokenize" || k == "sen.parse" || k == "oj.parse.bad" || k == "sen.parse.bad",
		k == "oj.load", k == "oj.mustload", k == "oj.mustparse", k == "oj.parse.callback",
		k == "sen.parsereader", k == "sen.mustparsereader", k == "sen.mustparse", k == "sen.parse.callback":
		return "pooled-parser"
	}
	return "other"
}

// alone gives, for the plain parse calls, what the call returns when nothing else has run: the
// package level functions take a parser from a pool, a parser nobody has used gives the same.
func (e *env) alone(op Op) (string, bool) {
	switch op.K {
	case "sen.parse":
		v, err := (&sen.Parser{}).Parse([]byte(senTexts[op.D%len(senTexts)]), parseArgs(op)...)
		return fmt.Sprintf("%s %v", canon.String(v, canon.Typed), err), true
	case "oj.parse":
		v, err := (&oj.Parser{}).Parse([]byte(texts[op.D%len(texts)]), parseArgs(op)...)
		return fmt.Sprintf("%s %v", canon.String(v, canon.Typed), err), true
	case "sen.parse.bad":
		t := badSenTexts[op.D%len(badSenTexts)]
		var v any
		var err error
		if op.X%3 == 0 {
			v, err = (&sen.Parser{}).ParseReader(&yieldReader{data: []byte(t), size: 2 + op.X})
		} else {
			v, err = (&sen.Parser{}).Parse([]byte(t))
		}
		return fmt.Sprintf("%s %v", canon.String(v, canon.Typed), err), true
	case "jp.remove":
		// alone: the expression as it reads, parsed anew (a shared expression is the same value for
		// every caller, before and after any call)
		d := canon.Copy(trees[op.D%len(trees)])
		out, err := jp.MustParseString(removeTexts[op.X%len(removeTexts)]).Remove(d)
		return fmt.Sprintf("%s %v", canon.String(out, canon.Typed), err != nil), true
	case "oj.parse.bad":
		t := badTexts[op.D%len(badTexts)]
		var v any
		var err error
		if op.X%3 == 0 {
			v, err = (&oj.Parser{}).ParseReader(&yieldReader{data: []byte(t), size: 2 + op.X})
		} else {
			v, err = (&oj.Parser{}).Parse([]byte(t))
		}
		return fmt.Sprintf("%s %v", canon.String(v, canon.Typed), err), true
	}
	return "", false
}

// do runs one call on private data and returns its result and, for calls that hand out
// a buffer, that buffer.
func (e *env) do(op Op) (res string, buf []byte) {
	res, buf = e.call(op)
	if op.X%2 == 0 {
		// the default options do not sort members: compare what the text denotes
		switch {
		case strings.Contains(op.K, "sen"):
			if v, err := sen.Parse([]byte(strings.TrimSuffix(res, " <nil>"))); err == nil {
				res = "denotes " + canon.String(v, canon.Value)
			}
		case strings.HasPrefix(op.K, "oj.json"), strings.HasPrefix(op.K, "oj.marshal"), strings.HasPrefix(op.K, "oj.write"), strings.HasPrefix(op.K, "pretty."), strings.HasPrefix(op.K, "struct."):
			if v, err := oj.ParseString(strings.TrimSuffix(res, " <nil>")); err == nil {
				res = "denotes " + canon.String(v, canon.Value)
			}
		}
	}
	return
}

func (e *env) call(op Op) (res string, buf []byte) {
	defer func() {
		if r := recover(); r != nil {
			res = fmt.Sprintf("panic: %v", r)
		}
	}()
	tree := func() any { return canon.Copy(trees[op.D%len(trees)]) }
	text := func() string { return texts[op.D%len(texts)] }
	opt := optRec[op.X%len(optRec)]
	x := exprs[op.X%len(exprs)]
	pooled := op.X%2 == 0 // without arguments the package level functions use pooled writers
	switch op.K {
	case "oj.parse":
		// a third of the calls pass a number conversion option: it is that call's business only
		v, err := oj.Parse([]byte(text()), parseArgs(op)...)
		return fmt.Sprintf("%s %v", canon.String(v, canon.Typed), err), nil
	case "oj.parsestring":
		v, err := oj.ParseString(text(), parseArgs(op)...)
		return fmt.Sprintf("%s %v", canon.String(v, canon.Typed), err), nil
	case "oj.validate":
		t := text()
		if op.X%3 == 0 {
			t = t[:len(t)/2]
		}
		return fmt.Sprint(oj.ValidateString(t)), nil
	case "oj.tokenize":
		h := &tokens{}
		err := oj.Tokenize([]byte(text()), h)
		return fmt.Sprintf("%s %v", h.sb.String(), err), nil
	case "oj.load":
		// the reader gives the processor away between short reads, the way a pipe or a socket does:
		// whatever the call holds from a pool is held across them
		v, err := oj.Load(&yieldReader{data: []byte(text()), size: 3 + op.X}, parseArgs(op)...)
		return fmt.Sprintf("%s %v", canon.String(v, canon.Typed), err), nil
	case "oj.mustload":
		v := oj.MustLoad(&yieldReader{data: []byte(text()), size: 3 + op.X}, parseArgs(op)...)
		return canon.String(v, canon.Typed), nil
	case "oj.mustparse":
		if op.X%2 == 0 {
			return canon.String(oj.MustParseString(text(), parseArgs(op)...), canon.Typed), nil
		}
		return canon.String(oj.MustParse([]byte(text()), parseArgs(op)...), canon.Typed), nil
	case "oj.parse.callback":
		// several documents and a callback that gives the processor away in the middle of the call
		var sb strings.Builder
		cb := func(v any) bool {
			runtime.Gosched()
			sb.WriteString(canon.String(v, canon.Typed) + ";")
			return false
		}
		_, err := oj.Parse([]byte(text()+"\n"+texts[(op.D+op.X)%len(texts)]+" "+text()), cb)
		return fmt.Sprintf("%s %v", sb.String(), err), nil
	case "sen.parsereader":
		v, err := sen.ParseReader(&yieldReader{data: []byte(senTexts[op.D%len(senTexts)]), size: 3 + op.X}, parseArgs(op)...)
		return fmt.Sprintf("%s %v", canon.String(v, canon.Typed), err), nil
	case "sen.mustparsereader":
		v := sen.MustParseReader(&yieldReader{data: []byte(senTexts[op.D%len(senTexts)]), size: 3 + op.X}, parseArgs(op)...)
		return canon.String(v, canon.Typed), nil
	case "sen.mustparse":
		return canon.String(sen.MustParse([]byte(senTexts[op.D%len(senTexts)]), parseArgs(op)...), canon.Typed), nil
	case "sen.parse.callback":
		var sb strings.Builder
		cb := func(v any) bool {
			runtime.Gosched()
			sb.WriteString(canon.String(v, canon.Typed) + ";")
			return false
		}
		_, err := sen.Parse([]byte(senTexts[op.D%len(senTexts)]+" "+senTexts[(op.D+op.X)%len(senTexts)]), cb)
		return fmt.Sprintf("%s %v", sb.String(), err), nil
	case "sen.parse":
		v, err := sen.Parse([]byte(senTexts[op.D%len(senTexts)]), parseArgs(op)...)
		return fmt.Sprintf("%s %v", canon.String(v, canon.Typed), err), nil
	case "sen.parse.bad":
		// a call that fails (the reader forms in turn), then nothing: the next caller of a pooled
		// parser gets whatever this one left in it
		t := badSenTexts[op.D%len(badSenTexts)]
		var v any
		var err error
		if op.X%3 == 0 {
			v, err = sen.ParseReader(&yieldReader{data: []byte(t), size: 2 + op.X})
		} else {
			v, err = sen.Parse([]byte(t))
		}
		return fmt.Sprintf("%s %v", canon.String(v, canon.Typed), err), nil
	case "oj.parse.bad":
		t := badTexts[op.D%len(badTexts)]
		var v any
		var err error
		if op.X%3 == 0 {
			v, err = oj.Load(&yieldReader{data: []byte(t), size: 2 + op.X})
		} else {
			v, err = oj.Parse([]byte(t))
		}
		return fmt.Sprintf("%s %v", canon.String(v, canon.Typed), err), nil
	case "oj.unmarshal":
		t := e.recs[op.D%len(e.recs)]
		b, err := oj.Marshal(t.data)
		if err != nil {
			return "marshal: " + err.Error(), nil
		}
		out := t.mk()
		err = oj.Unmarshal(b, out, e.rec)
		return fmt.Sprintf("%s %v", canon.String(out, canon.Value), err), nil
	case "oj.json":
		if pooled {
			return oj.JSON(tree()), nil
		}
		return oj.JSON(tree(), opt), nil
	case "oj.marshal":
		var b []byte
		var err error
		if pooled {
			b, err = oj.Marshal(tree())
		} else {
			b, err = oj.Marshal(tree(), opt)
		}
		return fmt.Sprintf("%s %v", b, err), b
	case "oj.write":
		var w bytes.Buffer
		var err error
		if pooled {
			err = oj.Write(&w, tree())
		} else {
			err = oj.Write(&w, tree(), opt)
		}
		return fmt.Sprintf("%s %v", w.String(), err), nil
	case "sen.string":
		if pooled {
			return sen.String(tree()), nil
		}
		return sen.String(tree(), opt), nil
	case "sen.bytes":
		var b []byte
		if pooled {
			b = sen.Bytes(tree())
		} else {
			b = sen.Bytes(tree(), opt)
		}
		return string(b), b
	case "pretty.json":
		if pooled {
			return pretty.JSON(tree()), nil
		}
		return pretty.JSON(tree(), opt), nil
	case "pretty.sen":
		if pooled {
			return pretty.SEN(tree()), nil
		}
		return pretty.SEN(tree(), opt), nil
	case "struct.oj.json":
		if pooled {
			return oj.JSON(e.val()), nil
		}
		return oj.JSON(e.val(), opt), nil
	case "struct.oj.marshal":
		var b []byte
		var err error
		if pooled {
			b, err = oj.Marshal(e.val())
		} else {
			b, err = oj.Marshal(e.val(), opt)
		}
		return fmt.Sprintf("%s %v", b, err), b
	case "struct.sen.string":
		if pooled {
			return sen.String(e.val()), nil
		}
		return sen.String(e.val(), opt), nil
	case "struct.pretty":
		if pooled {
			return pretty.JSON(e.val()), nil
		}
		return pretty.JSON(e.val(), opt), nil
	case "struct.decompose":
		return canon.String(alt.Decompose(e.val(), opt), canon.Typed), nil
	case "named.oj.json":
		return oj.JSON(namedSamples[op.D%len(namedSamples)](), opt), nil
	case "named.decompose":
		return canon.String(alt.Decompose(namedSamples[op.D%len(namedSamples)](), opt), canon.Typed), nil
	case "alt.generify":
		return canon.String(alt.Generify(tree(), opt), canon.Typed), nil
	case "alt.alter":
		return canon.String(alt.Alter(tree(), opt), canon.Typed), nil
	case "alt.dup":
		return canon.String(alt.Dup(tree(), opt), canon.Typed), nil
	case "alt.recompose":
		t := e.recs[op.D%len(e.recs)]
		out, err := e.rec.Recompose(canon.Copy(t.data), t.mk())
		return fmt.Sprintf("%s %v", canon.String(out, canon.Value), err), nil
	case "alt.recompose.cold":
		// a recomposer that got its types when it was made and has not been used since: all it
		// needs for them - also for the struct reached through a map only - is there already
		out, err := e.recCold.Recompose(canon.Copy(shelfData), &shelf{})
		return fmt.Sprintf("%s %v", canon.String(out, canon.Value), err), nil
	case "alt.recompose.anon":
		// a registered type with fields of two struct types without a name (all such types go by
		// the same empty name): registered beforehand, and used before, is all that is asked
		out, err := e.recAnon.Recompose(canon.Copy(twoAnonData), &twoAnon{})
		return fmt.Sprintf("%s %v", canon.String(out, canon.Value), err), nil
	case "jp.get.pattern":
		// filters that call match / search / length / count through shared expressions; the
		// patterns come from the data and every call brings patterns nobody has used before
		// (an alternative that matches nothing is appended), so whatever the library keeps
		// per pattern is filled while others use it
		px := patternExprs[op.X%len(patternExprs)]
		u := patternSerial.Add(1)
		list := make([]any, 0, 6)
		for i := 0; i < 6; i++ {
			list = append(list, map[string]any{
				"k": fmt.Sprintf("key%d", (i+op.D)%4), "v": int64(i), "w": []any{int64(1), int64(i)},
				"pat": fmt.Sprintf("k.y[%d-9]|never-%d-%d", i%3, u, i), "sub": fmt.Sprintf("y%d|never-%d-%d", i%2, u, i),
			})
		}
		return canon.String(px.Get(map[string]any{"list": list}), canon.Typed), nil
	case "jp.get":
		return canon.String(sortedIfDescent(x, x.Get(tree())), canon.Typed), nil
	case "jp.first":
		if hasUnordered(x) {
			return "skipped", nil
		}
		return canon.String(x.First(tree()), canon.Typed), nil
	case "jp.has":
		return fmt.Sprint(x.Has(tree())), nil
	case "jp.set":
		d := tree()
		err := x.Set(d, "marker")
		return fmt.Sprintf("%s %v", canon.String(d, canon.Typed), err != nil), nil
	case "jp.del":
		d := tree()
		err := x.Del(d)
		return fmt.Sprintf("%s %v", canon.String(d, canon.Typed), err != nil), nil
	case "jp.remove":
		d := tree()
		out, err := removeExprs[op.X%len(removeExprs)].Remove(d)
		return fmt.Sprintf("%s %v", canon.String(out, canon.Typed), err != nil), nil
	case "jp.modify":
		d := tree()
		out, err := x.Modify(d, func(v any) (any, bool) { return "m", true })
		return fmt.Sprintf("%s %v", canon.String(out, canon.Typed), err != nil), nil
	case "jp.parse":
		p, err := jp.ParseString(exprTexts[op.X%len(exprTexts)])
		return fmt.Sprintf("%s %v", p.String(), err), nil
	}
	return "unknown op", nil
}

// Matches below a descent or a wildcard over an object come in map order.
func hasUnordered(x jp.Expr) bool {
	for _, f := range x {
		switch f.(type) {
		case jp.Descent, jp.Wildcard:
			return true
		}
	}
	return false
}

func sortedIfDescent(x jp.Expr, res []any) any {
	if !hasUnordered(x) {
		return res
	}
	ss := make([]string, len(res))
	for i, r := range res {
		ss[i] = canon.String(r, canon.Typed)
	}
	sort.Strings(ss)
	return strings.Join(ss, "|")
}

func newEnv(cs Case) *env {
	tyx.ResetCache()
	e := &env{}
	e.rt = cs.Type.Build()
	proto := cs.Type.New(e.rt)
	e.val = func() any {
		p := reflect.New(e.rt)
		p.Elem().Set(proto)
		return p.Interface()
	}
	mks := []func() any{
		func() any { return &pa.Item{} }, func() any { return &pb.Item{} }, func() any { return &pa.Box{} }, func() any { return &pb.Box{} }, func() any { return &tyx.Nums{} },
	}
	srcs := []any{pa.Sample("Item", 0), pb.Sample("Item", 1), pa.Sample("Box", 0), pb.Sample("Box", 0), func() any { v := tyx.Catalogue(9).(tyx.Nums); return &v }()}
	reg := map[any]alt.RecomposeFunc{}
	for _, mk := range mks {
		reg[mk()] = nil
	}
	r, err := alt.NewRecomposer("", reg)
	if err != nil {
		panic(err)
	}
	e.rec = r
	if e.recCold, err = alt.NewRecomposer("", map[any]alt.RecomposeFunc{&shelf{}: nil}); err != nil {
		panic(err)
	}
	if e.recAnon, err = alt.NewRecomposer("", map[any]alt.RecomposeFunc{&twoAnon{}: nil}); err != nil {
		panic(err)
	}
	if _, err = e.recAnon.Recompose(canon.Copy(twoAnonData), &twoAnon{}); err != nil {
		panic(err)
	}
	for i, mk := range mks {
		src := srcs[i]
		t := recTarget{data: alt.Decompose(src, &ojg.Options{}), mk: func() any { return reflect.New(reflect.TypeOf(src).Elem()).Interface() }}
		e.recs = append(e.recs, t)
		// warm up: every target type has been through the recomposer before the goroutines start
		_, _ = r.Recompose(canon.Copy(t.data), mk())
	}
	return e
}

// raceLog returns the size of the race detector's log for this process (GORACE
// log_path, set by the driver), or -1.
func raceLog() (int64, string) {
	base := os.Getenv("VERIF_RACE_LOG")
	if base == "" {
		return -1, ""
	}
	path := fmt.Sprintf("%s.%d", base, os.Getpid())
	fi, err := os.Stat(path)
	if err != nil {
		return 0, path
	}
	return fi.Size(), path
}

const repeats = 3

func Run(cs Case, c *vrt.Ctx) {
	if len(cs.Seqs) < 1 || cs.Type == nil {
		c.DontCare("empty case")
		return
	}
	e := newEnv(cs)
	users := map[string]int{}
	for _, seq := range cs.Seqs {
		seen := map[string]bool{}
		for _, op := range seq {
			seen[shared(op.K)] = true
			c.Class("op:" + op.K)
		}
		for k := range seen {
			users[k]++
		}
	}
	for k, n := range users {
		if n >= 2 && k != "other" {
			c.NonTrivial()
			c.Class("shared-by-several:" + k)
		}
	}
	c.Class(fmt.Sprintf("goroutines:%d", len(cs.Seqs)))
	c.Sample(map[string]any{"goroutines": len(cs.Seqs), "first": cs.Seqs[0]})

	// sequential baseline (on a value of the same struct type, built before: the plans of
	// the fresh type are built here for the first option record only if the baseline
	// touches it; the concurrent runs use a type of their own, see below)
	want := make([][]string, len(cs.Seqs))
	for i, seq := range cs.Seqs {
		want[i] = make([]string, len(seq))
		for j, op := range seq {
			want[i][j], _ = e.do(op)
			if op.K == "sen.parse" || op.K == "oj.parse" || op.K == "sen.parse.bad" || op.K == "oj.parse.bad" || op.K == "jp.remove" {
				// "what it returns when run alone": for the plain parse calls that is what a parser
				// nobody has used returns (the sequential run takes its parsers from the pools too)
				res, _ := e.call(op)
				if a, ok := e.alone(op); ok && a != res {
					c.Fail("result-differs-from-alone", op.K, fmt.Sprintf("goroutine %d call %d in the sequential run: alone %s, in sequence %s", i, j, clip(a), clip(res)))
				}
			}
		}
	}
	for rep := 0; rep < repeats; rep++ {
		// a struct type nobody has encoded yet: its plans are built under contention
		ce := newEnv(cs)
		before, logPath := raceLog()
		type kept struct {
			i, j int
			buf  []byte
			copy string
		}
		var mu sync.Mutex
		var mismatches []string
		var keeps []kept
		var wg sync.WaitGroup
		start := make(chan struct{})
		for i, seq := range cs.Seqs {
			wg.Add(1)
			go func(i int, seq []Op) {
				defer wg.Done()
				<-start
				for j, op := range seq {
					got, buf := ce.do(op)
					if got != want[i][j] {
						mu.Lock()
						mismatches = append(mismatches, fmt.Sprintf("goroutine %d call %d %s: alone %s, concurrent %s", i, j, op.K, clip(want[i][j]), clip(got)))
						mu.Unlock()
					}
					if buf != nil {
						mu.Lock()
						keeps = append(keeps, kept{i, j, buf, string(buf)})
						mu.Unlock()
					}
					if (i+j)%3 == 0 {
						runtime.Gosched()
					}
				}
			}(i, seq)
		}
		close(start)
		wg.Wait()
		for _, m := range mismatches {
			c.Fail("result-differs-under-concurrency", "package level API", m)
		}
		for _, k := range keeps {
			if string(k.buf) != k.copy {
				c.Fail("returned-buffer-overwritten", cs.Seqs[k.i][k.j].K, fmt.Sprintf("goroutine %d call %d: the returned buffer held %s and now holds %s", k.i, k.j, clip(k.copy), clip(string(k.buf))))
			}
		}
		if after, _ := raceLog(); before >= 0 && after > before {
			report := ""
			if b, err := os.ReadFile(logPath); err == nil {
				report = string(b[before:])
			}
			c.Fail("data-race", raceSite(report), "the race detector reported: "+clip(firstLines(report, 40)), raceTags(report)...)
		}
	}
}

func firstLines(s string, n int) string {
	lines := strings.Split(s, "\n")
	if len(lines) > n {
		lines = lines[:n]
	}
	return strings.Join(lines, " | ")
}

// raceSite names the first ojg function in the report.
func raceSite(report string) string {
	for _, l := range strings.Split(report, "\n") {
		l = strings.TrimSpace(l)
		if strings.HasPrefix(l, "github.com/ohler55/ojg/") {
			if i := strings.Index(l, "("); i > 0 {
				return strings.TrimPrefix(l[:i], "github.com/ohler55/ojg/")
			}
		}
	}
	return "unknown"
}

func raceTags(report string) []string {
	var tags []string
	for _, p := range []string{"sen.Bytes", "sen.(*Writer)", "oj.(*Writer)", "structMap", "getSinfo", "Recomposer", "jp.", "pretty."} {
		if strings.Contains(report, p) {
			tags = append(tags, "in:"+p)
		}
	}
	sort.Strings(tags)
	return tags
}

func clip(s string) string {
	if len(s) > 400 {
		return s[:400] + "…"
	}
	return s
}

func drawCase(t *rapid.T) Case {
	n := rapid.IntRange(2, 8).Draw(t, "goroutines")
	cs := Case{Type: tyx.DrawType(t, 1)}
	// a case concentrates on a few call kinds so that the goroutines meet on the same shared object
	nk := rapid.IntRange(1, 4).Draw(t, "nkinds")
	var kinds []string
	for i := 0; i < nk; i++ {
		kinds = append(kinds, rapid.SampledFrom(opKinds).Draw(t, "kind"))
	}
	for i := 0; i < n; i++ {
		m := rapid.IntRange(2, 12).Draw(t, "ncalls")
		var seq []Op
		for j := 0; j < m; j++ {
			k := rapid.SampledFrom(kinds).Draw(t, "k")
			if rapid.IntRange(0, 5).Draw(t, "any") == 0 {
				k = rapid.SampledFrom(opKinds).Draw(t, "anyk")
			}
			seq = append(seq, Op{K: k, D: rapid.IntRange(0, 7).Draw(t, "d"), X: rapid.IntRange(0, 14).Draw(t, "x")})
		}
		cs.Seqs = append(cs.Seqs, seq)
	}
	return cs
}

func TestPropRandom(t *testing.T) {
	vrt.Rapid(t, suite, "concurrent", vrt.Scale(1500, 5000), drawCase, Run)
}

func TestReplay(t *testing.T) { suite.ReplayAll(t) }

var classifiers = []vrt.Classifier{}
