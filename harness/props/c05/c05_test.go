// Package c05 decides C05: Expr.Get returns exactly the elements the path denotes.
package c05

import (
	"fmt"
	"sort"
	"strings"
	"testing"

	"github.com/ohler55/ojg"
	"github.com/ohler55/ojg/alt"
	"github.com/ohler55/ojg/gen"
	"github.com/ohler55/ojg/jp"
	"pgregory.net/rapid"

	"verif/internal/canon"
	"verif/internal/jpx"
	"verif/internal/vrt"
	"verif/internal/wx"
)

var suite = vrt.NewSuite("C05", "(path recipe, data tree): expressions are built through the public constructors from 1-5 fragments (root, at, bracket, child, nth with indexes -8..8, wildcard, descent, union with mixed/duplicate members, slice with bounds -9..9/unbounded and steps -3..3 incl. 0, filters with nested sub-paths and the fixed-semantics operators), each kind in first, inner and last position; data trees have arrays of length 0-6 and maps over a small key pool, as simple and as gen values. plus exhaustive matrices: filter operands (17 shapes on either side of 6 comparisons), filter values (23 scalars against 23 constants under 6 comparisons, element or member, either side) descents that start from several elements at once, and every slice with small bounds and steps on arrays of 0-5 elements as last and as inner fragment. Get's result must equal the reference evaluator's selection: as a multiset always, as a sequence when the order is defined (no fan-out over a map with >=2 members, no descent). Non-trivial = reference result non-empty, or a slice/nth/union bound interacts with the array length (negative, out of range, empty range, step != 1); distinct = distinct (path, data)")

type Case struct {
	Path jpx.Path `json:"path"`
	Data any      `json:"data"`
	Gen  bool     `json:"gen,omitempty"`
}

func TestMain(m *testing.M) {
	vrt.InitRapid()
	vrt.RegisterReplay(suite, "get", Run)
	vrt.RegisterReplay(suite, "in", RunIn)
	vrt.RegisterReplay(suite, "count", RunCount)
	suite.Register(classifiers...)
	vrt.Main(m, suite)
}

var keepAll = &ojg.Options{}

func canonList(vs []any) []string {
	out := make([]string, len(vs))
	for i, v := range vs {
		out[i] = canon.String(v, canon.Value)
	}
	return out
}

func Run(cs Case, c *vrt.Ctx) {
	data := wx.Dec(cs.Data)
	res := jpx.Eval(cs.Path, data)
	want := make([]string, len(res.Locs))
	for i, l := range res.Locs {
		want[i] = canon.String(l.Val, canon.Value)
	}
	for f := range res.Feat {
		c.Tag(f)
	}
	for i, f := range cs.Path {
		pos := "inner"
		if i == len(cs.Path)-1 {
			pos = "last"
		}
		c.Class("frag:" + f.K + ":" + pos)
	}
	if res.DontCare == "trailing-bare-descent" {
		// a descent with nothing selecting after it: what the statement leaves open is whether a
		// scalar the descent starts from is itself selected. Every container it starts from and
		// every location below one is selected once, whichever way that is read.
		c.Class("trailing-descent(open:scalar starts)")
		var in any = data
		if cs.Gen {
			if g := alt.Generify(data, keepAll); g != nil {
				in = g
			}
		}
		x := cs.Path.Build()
		var got []any
		if pv, stack := vrt.Catch(func() { got = x.Get(in) }); pv != nil {
			c.Fail("panic", "jp.Expr.Get", fmt.Sprintf("%v at %s; path %s data %s", pv, stack, cs.Path, canon.String(data, canon.Value)), tagsOf(res, cs)...)
			return
		}
		left := map[string]int{}
		for _, g := range canonList(got) {
			left[g]++
		}
		for _, w := range want {
			left[w]--
		}
		for _, sv := range res.TrailScalars {
			if k := canon.String(sv, canon.Value); left[k] > 0 {
				left[k]--
			}
		}
		for k, n := range left {
			if n != 0 {
				c.Fail("wrong-selection", "jp.Expr.Get", fmt.Sprintf("path %s (%s) on %s: got %v want %v (and optionally the scalar starts %v): %s is there %+d times too often", cs.Path, x.String(), canon.String(data, canon.Value), canonList(got), want, canonList(res.TrailScalars), k, n), tagsOf(res, cs)...)
				return
			}
		}
		if len(want) > 0 {
			c.NonTrivial()
		}
		return
	}
	if res.DontCare != "" {
		c.DontCare(res.DontCare)
		return
	}
	interesting := len(want) > 0
	for f := range res.Feat {
		if strings.HasPrefix(f, "slice-") || strings.HasPrefix(f, "nth-") {
			interesting = true
		}
	}
	if interesting {
		c.NonTrivial()
	}
	if res.Ordered {
		c.Class("order-defined")
	}
	var in any = data
	if cs.Gen {
		if g := alt.Generify(data, keepAll); g != nil {
			in = g
		}
		c.Class("gen")
	}
	x := cs.Path.Build()
	c.Sample(map[string]any{"path": cs.Path.String(), "jp": x.String(), "data": canon.String(data, canon.Value), "want": want, "gen": cs.Gen})
	var got []any
	pv, stack := vrt.Catch(func() { got = x.Get(in) })
	if pv != nil {
		c.Fail("panic", "jp.Expr.Get", fmt.Sprintf("%v at %s; path %s data %s", pv, stack, cs.Path, canon.String(data, canon.Value)), tagsOf(res, cs)...)
		return
	}
	gs := canonList(got)
	if !sameMultiset(gs, want) {
		c.Fail("wrong-selection", "jp.Expr.Get", fmt.Sprintf("path %s (%s) on %s: got %v want %v", cs.Path, x.String(), canon.String(data, canon.Value), gs, want), tagsOf(res, cs)...)
		return
	}
	if res.Ordered && strings.Join(gs, "\x00") != strings.Join(want, "\x00") {
		c.Fail("wrong-order", "jp.Expr.Get", fmt.Sprintf("path %s (%s) on %s: got %v want %v", cs.Path, x.String(), canon.String(data, canon.Value), gs, want), tagsOf(res, cs)...)
	}
}

func tagsOf(res *jpx.Result, cs Case) []string {
	var t []string
	for f := range res.Feat {
		t = append(t, f)
	}
	sort.Strings(t)
	if cs.Gen {
		t = append(t, "gen")
	}
	return t
}

func sameMultiset(a, b []string) bool {
	if len(a) != len(b) {
		return false
	}
	x := append([]string(nil), a...)
	y := append([]string(nil), b...)
	sort.Strings(x)
	sort.Strings(y)
	for i := range x {
		if x[i] != y[i] {
			return false
		}
	}
	return true
}

func drawCase(t *rapid.T) Case {
	data := jpx.DrawData(t, 4)
	if rapid.IntRange(0, 3).Draw(t, "rootcont") != 0 {
		// make the root a container most of the time
		if _, ok := data.([]any); !ok {
			if _, ok2 := data.(map[string]any); !ok2 {
				data = []any{data, jpx.DrawData(t, 3), jpx.DrawData(t, 3)}
			}
		}
	}
	p := jpx.DrawPath(t, jpx.PathOpts{MaxFrags: 5, FilterDepth: 2, HostileKeys: true})
	return Case{Path: p, Data: wx.Enc(data), Gen: rapid.IntRange(0, 3).Draw(t, "gen") == 0}
}

// TestEnumFilterOperands is exhaustive over a small scope: filters whose operands are paths of
// every shape (one value, several values through a union, wildcard, slice or descent, nothing,
// the root) on either side of every comparison, on elements that hold the values in both
// orders, as last fragment and followed by another step, on simple and gen data. An operand
// that yields several values matches when any of them does; the evaluator has a shortcut for
// operands it takes for single-valued.
func TestEnumFilterOperands(t *testing.T) {
	i := func(n int) *int { return &n }
	k := func(s string) *string { return &s }
	get := func(p ...jpx.Frag) *jpx.Eq { return &jpx.Eq{Op: "get", P: append(jpx.Path{{K: "at"}}, p...)} }
	operands := []*jpx.Eq{
		get(jpx.Frag{K: "child", Key: "a"}),
		get(jpx.Frag{K: "union", U: []jpx.UItem{{Key: k("a")}, {Key: k("b")}}}),
		get(jpx.Frag{K: "union", U: []jpx.UItem{{Key: k("b")}, {Key: k("a")}}}),
		get(jpx.Frag{K: "union", U: []jpx.UItem{{Key: k("zz")}, {Key: k("b")}}}),
		get(jpx.Frag{K: "union", U: []jpx.UItem{{Idx: i(0)}, {Idx: i(1)}}}),
		get(jpx.Frag{K: "union", U: []jpx.UItem{{Idx: i(1)}, {Idx: i(-2)}}}),
		get(jpx.Frag{K: "child", Key: "l"}, jpx.Frag{K: "union", U: []jpx.UItem{{Idx: i(0)}, {Idx: i(1)}}}),
		get(jpx.Frag{K: "union", U: []jpx.UItem{{Key: k("a")}, {Key: k("l")}}}, jpx.Frag{K: "nth", N: 0}),
		get(jpx.Frag{K: "nth", N: -1}), get(jpx.Frag{K: "nth", N: -3}), get(jpx.Frag{K: "nth", N: 2}),
		get(jpx.Frag{K: "child", Key: "l"}, jpx.Frag{K: "nth", N: -3}),
		get(jpx.Frag{K: "wild"}),
		get(jpx.Frag{K: "slice", S: []int{0, 2}}),
		get(jpx.Frag{K: "descent"}, jpx.Frag{K: "child", Key: "a"}),
		get(jpx.Frag{K: "child", Key: "missing"}),
		get(),
		{Op: "get", P: jpx.Path{{K: "root"}, {K: "nth", N: 0}, {K: "child", Key: "a"}}},
		{Op: "const", CK: "int", CI: 1}, {Op: "const", CK: "int", CI: 2}, {Op: "const", CK: "nil"},
	}
	data := []any{
		map[string]any{"a": int64(1), "b": int64(2), "l": []any{int64(1), int64(2)}},
		map[string]any{"a": int64(2), "b": int64(1), "l": []any{int64(2), int64(1)}},
		[]any{int64(1), int64(2)}, []any{int64(2), int64(1)},
		map[string]any{"b": int64(2)}, int64(2), nil,
		[]any{int64(1)}, []any{int64(1), int64(2), int64(1)}, []any{}, map[string]any{"a": int64(1), "l": []any{int64(1), int64(2), int64(3)}},
	}
	enc := wx.Enc(data)
	n := 0
	for _, op := range []string{"eq", "neq", "lt", "gt", "lte", "gte"} {
		for _, l := range operands {
			for _, r := range operands {
				if l.Op == "const" && r.Op == "const" {
					continue
				}
				for _, tail := range [][]jpx.Frag{nil, {{K: "child", Key: "a"}}} {
					for _, gen := range []bool{false, true} {
						ll, rr := *l, *r
						p := append(jpx.Path{{K: "root"}, {K: "filter", F: &jpx.Eq{Op: op, L: &ll, R: &rr}}}, tail...)
						vrt.Eval(suite, "get", Case{Path: p, Data: enc, Gen: gen}, Run)
						n++
					}
				}
			}
		}
	}
	suite.AddExtra("filter_operand_matrix_cases", int64(n))
	suite.Extra("filter_operand_matrix_exhaustive_over", fmt.Sprintf("6 comparisons x %d x %d operands x {last, followed by a child step} x {simple, gen}", len(operands), len(operands)))
}

// TestEnumFilterValues: every scalar against every scalar constant under every comparison,
// the element on either side, as the element itself and as a member of it: the kinds of the
// two operands select the code that compares them.
func TestEnumFilterValues(t *testing.T) {
	values := []any{nil, true, false, int64(-1), int64(0), int64(1), int64(2), int64(3), int64(1) << 40,
		-1.5, -0.5, 0.0, 0.5, 1.5, 2.0, 2.5, 1e3, float64(int64(1) << 40), "a", "b", "1", "", "2.5"}
	consts := make([]*jpx.Eq, 0, len(values))
	for _, v := range values {
		switch tv := v.(type) {
		case nil:
			consts = append(consts, &jpx.Eq{Op: "const", CK: "nil"})
		case bool:
			consts = append(consts, &jpx.Eq{Op: "const", CK: "bool", CB: tv})
		case int64:
			consts = append(consts, &jpx.Eq{Op: "const", CK: "int", CI: tv})
		case float64:
			consts = append(consts, &jpx.Eq{Op: "const", CK: "float", CF: tv})
		case string:
			consts = append(consts, &jpx.Eq{Op: "const", CK: "string", CS: tv})
		}
	}
	members := make([]any, len(values))
	for i, v := range values {
		members[i] = map[string]any{"a": v}
	}
	plain, inMember := wx.Enc(values), wx.Enc(members)
	n := 0
	for _, op := range []string{"eq", "neq", "lt", "gt", "lte", "gte"} {
		for _, cst := range consts {
			for _, member := range []bool{false, true} {
				for _, elemLeft := range []bool{true, false} {
					for _, gen := range []bool{false, true} {
						operand := &jpx.Eq{Op: "get", P: jpx.Path{{K: "at"}}}
						data := plain
						if member {
							operand.P = append(operand.P, jpx.Frag{K: "child", Key: "a"})
							data = inMember
						}
						cc := *cst
						f := &jpx.Eq{Op: op, L: operand, R: &cc}
						if !elemLeft {
							f.L, f.R = f.R, f.L
						}
						vrt.Eval(suite, "get", Case{Path: jpx.Path{{K: "root"}, {K: "filter", F: f}}, Data: data, Gen: gen}, Run)
						n++
					}
				}
			}
		}
	}
	suite.AddExtra("filter_value_matrix_cases", int64(n))
	suite.Extra("filter_value_matrix_exhaustive_over", fmt.Sprintf("6 comparisons x %d constants x %d element values x {element, member of it} x {element left, right} x {simple, gen}", len(consts), len(values)))
}

// TestEnumDescentAfter: a descent that starts from several elements at once (after a wildcard,
// union, slice, filter or another descent) on trees where the matches lie at different depths
// below different elements.
func TestEnumDescentAfter(t *testing.T) {
	m := func(kv ...any) map[string]any {
		out := map[string]any{}
		for i := 0; i+1 < len(kv); i += 2 {
			out[kv[i].(string)] = kv[i+1]
		}
		return out
	}
	i := func(n int) *int { return &n }
	k := func(s string) *string { return &s }
	datas := []any{
		[]any{m("c", int64(1)), m("b", m("a", int64(5))), m("a", int64(6), "c", m("a", int64(7)))},
		[]any{m("c", m("c", int64(1))), m("c", int64(2)), m("b", []any{m("a", int64(5))}), []any{m("a", int64(8))}},
		m("a", m("c", int64(1)), "b", m("b", m("a", int64(5))), "c", []any{m("a", int64(8))}),
		[]any{[]any{int64(1), int64(2)}, []any{m("a", int64(5))}, m("a", []any{m("a", int64(9))})},
		[]any{m("c", int64(1)), m("b", []any{int64(3), []any{int64(4), int64(5)}}), []any{[]any{int64(6)}}},
	}
	all := &jpx.Eq{Op: "neq", L: &jpx.Eq{Op: "get", P: jpx.Path{{K: "at"}}}, R: &jpx.Eq{Op: "const", CK: "int", CI: 99}}
	heads := [][]jpx.Frag{
		{{K: "wild"}}, {{K: "union", U: []jpx.UItem{{Idx: i(0)}, {Idx: i(1)}}}}, {{K: "union", U: []jpx.UItem{{Idx: i(0)}, {Idx: i(1)}, {Idx: i(2)}, {Idx: i(3)}}}},
		{{K: "union", U: []jpx.UItem{{Key: k("a")}, {Key: k("b")}, {Key: k("c")}}}}, {{K: "slice", S: []int{0, 2}}}, {{K: "slice", S: nil}}, {{K: "slice", S: []int{-1, 0, -1}}},
		{{K: "filter", F: all}}, {{K: "wild"}, {K: "wild"}}, {{K: "descent"}, {K: "wild"}}, {{K: "nth", N: 1}}, {},
	}
	tails := [][]jpx.Frag{{{K: "child", Key: "a"}}, {{K: "nth", N: 0}}, {{K: "nth", N: -1}}, {{K: "wild"}}, {{K: "child", Key: "a"}, {K: "nth", N: 0}}, {{K: "filter", F: all}}, {{K: "union", U: []jpx.UItem{{Key: k("a")}, {Idx: i(1)}}}}, {{K: "slice", S: []int{1}}}}
	n := 0
	for _, d := range datas {
		enc := wx.Enc(d)
		for _, h := range heads {
			for _, tail := range tails {
				for _, gen := range []bool{false, true} {
					p := append(append(append(jpx.Path{{K: "root"}}, h...), jpx.Frag{K: "descent"}), tail...)
					vrt.Eval(suite, "get", Case{Path: p, Data: enc, Gen: gen}, Run)
					n++
				}
			}
		}
	}
	suite.AddExtra("descent_after_matrix_cases", int64(n))
}

// TestEnumSlices: every slice with bounds -4..4 (or left out) and steps -3..3 (or left out) on
// arrays of 0..5 elements, as the last fragment and in the middle of the path (followed by a child,
// an index, a wildcard, another slice), below the root and one level down, on simple and gen data.
// The helper that finds the last selected index for a slice in the middle of a path is code of its
// own (sliceLast), with a branch per step sign and guards per empty range.
func TestEnumSlices(t *testing.T) {
	lo, hi, maxLen := -4, 4, 5
	if vrt.Thorough() {
		lo, hi, maxLen = -7, 7, 7
	}
	var slices [][]int
	slices = append(slices, nil)
	for a := lo; a <= hi; a++ {
		slices = append(slices, []int{a})
		ends := []int{jpx.MaxEnd}
		for b := lo; b <= hi; b++ {
			ends = append(ends, b)
		}
		for _, b := range ends {
			slices = append(slices, []int{a, b})
			for st := -3; st <= 3; st++ {
				slices = append(slices, []int{a, b, st})
			}
		}
	}
	tails := [][]jpx.Frag{nil, {{K: "child", Key: "a"}}, {{K: "nth", N: 0}}, {{K: "nth", N: -1}}, {{K: "wild"}}, {{K: "slice", S: []int{0, 1}}}}
	n := 0
	for size := 0; size <= maxLen; size++ {
		arr := make([]any, size)
		for i := range arr {
			arr[i] = map[string]any{"a": int64(i)}
			if i%3 == 2 {
				arr[i] = []any{int64(i), int64(i + 10)}
			}
		}
		for _, nested := range []bool{false, true} {
			var data any = arr
			head := jpx.Path{{K: "root"}}
			if nested {
				data = map[string]any{"k": arr, "other": "x"}
				head = jpx.Path{{K: "root"}, {K: "child", Key: "k"}}
			}
			enc := wx.Enc(data)
			for _, sl := range slices {
				for _, tail := range tails {
					for _, gen := range []bool{false, true} {
						p := append(append(append(jpx.Path{}, head...), jpx.Frag{K: "slice", S: sl}), tail...)
						vrt.Eval(suite, "get", Case{Path: p, Data: enc, Gen: gen}, Run)
						n++
					}
				}
			}
		}
	}
	suite.AddExtra("slice_matrix_cases", int64(n))
	suite.Extra("slice_matrix_exhaustive_over", fmt.Sprintf("arrays of 0..%d elements x slices with bounds %d..%d or left out and steps -3..3 or left out x {last, followed by child / index / negative index / wildcard / slice} x {at the root, one level down} x {simple, gen}", maxLen, lo, hi))
}

// InCase: the in operator with its list taken from the element, from the root and from a constant,
// on data whose numbers are held in other Go kinds (int, int32, uint8, float32) or as gen scalars
// inside simple containers. No document states what in means beyond membership, so the oracle is
// differential: the same path on the plain form of the data (int64 / float64) selects the elements
// at the same positions.
type InCase struct {
	Path string `json:"path"`
	Form string `json:"form"` // goints | genleaves
}

func inData() any {
	m := func(kv ...any) map[string]any {
		out := map[string]any{}
		for i := 0; i+1 < len(kv); i += 2 {
			out[kv[i].(string)] = kv[i+1]
		}
		return out
	}
	elems := []any{
		m("id", int64(0), "x", int64(3), "l", []any{int64(1), int64(2), int64(3)}),
		m("id", int64(1), "x", int64(4), "l", []any{int64(1), int64(2)}),
		m("id", int64(2), "x", 2.0, "l", []any{int64(1), int64(2), "b"}),
		m("id", int64(3), "x", "b", "l", []any{}),
		m("id", int64(4), "x", 1.5, "l", []any{1.5, true}),
		m("id", int64(5), "x", int64(200), "l", []any{int64(200), 2.5}),
	}
	return m("items", elems, "pool", []any{int64(4), "b", 2.0, 1.5})
}

func RunIn(cs InCase, c *vrt.Ctx) {
	x, err := jp.ParseString(cs.Path)
	if err != nil {
		c.DontCare("path does not parse")
		return
	}
	data := inData()
	var form any = goInts(data, new(int))
	if cs.Form == "genleaves" {
		form = genLeaves(data)
	}
	var want, got []any
	if pv, stack := vrt.Catch(func() { want, got = x.Get(data), x.Get(form) }); pv != nil {
		c.Fail("panic", "jp.Expr.Get", fmt.Sprintf("%v at %s; path %s", pv, stack, cs.Path))
		return
	}
	c.NonTrivial()
	w, g := canonList(want), canonList(got)
	if strings.Join(w, ",") != strings.Join(g, ",") {
		c.Fail("wrong-selection", "jp.Expr.Get", fmt.Sprintf("path %s on the %s form of %s selects ids %v, on the plain form %v", cs.Path, cs.Form, canon.String(data, canon.Value), g, w))
	}
}

// CountCase: count() of a path that starts at the root, inside a filter: the root is the document,
// not the element (as for every other operand that starts with $), so the count is the same for
// every element - the filter selects all elements or none, and all of them when n is the number
// of nodes the path selects in the document.
type CountCase struct {
	N int `json:"n"`
}

func RunCount(cs CountCase, c *vrt.Ctx) {
	data := inData()
	x, err := jp.ParseString(fmt.Sprintf("$.items[?(count($.pool[*]) == %d)].id", cs.N))
	if err != nil {
		c.DontCare("path does not parse")
		return
	}
	nodes := len(jp.MustParseString("$.pool[*]").Get(data))
	items := len(jp.MustParseString("$.items[*]").Get(data))
	var got []any
	if pv, stack := vrt.Catch(func() { got = x.Get(data) }); pv != nil {
		c.Fail("panic", "jp.Expr.Get", fmt.Sprintf("%v at %s", pv, stack))
		return
	}
	c.NonTrivial()
	want := 0
	if cs.N == nodes {
		want = items
	}
	if len(got) != want {
		c.Fail("wrong-selection", "jp.Expr.Get", fmt.Sprintf("path %s on %s: %d elements selected, want %d ($.pool[*] selects %d nodes in the document)", x.String(), canon.String(data, canon.Value), len(got), want, nodes))
	}
}

func TestEnumInOperator(t *testing.T) {
	for n := 0; n <= 6; n++ {
		vrt.Eval(suite, "count", CountCase{N: n}, RunCount)
	}

	paths := []string{"$.items[?(@.x in @.l)].id", "$.items[?(@.x in $.pool)].id", "$.items[?(@.x in [1, 2, 3, 'b', 1.5])].id", "$.items[?(!(@.x in @.l))].id", "$.items[?(@.x in @.l || @.x in $.pool)].id"}
	n := 0
	for _, pt := range paths {
		for _, form := range []string{"goints", "genleaves"} {
			vrt.Eval(suite, "in", InCase{Path: pt, Form: form}, RunIn)
			n++
		}
	}
	suite.AddExtra("in_operator_cases", int64(n))
}

func goInts(v any, n *int) any {
	switch tv := v.(type) {
	case map[string]any:
		out := map[string]any{}
		for k, e := range tv {
			out[k] = goInts(e, n)
		}
		return out
	case []any:
		out := make([]any, len(tv))
		for i, e := range tv {
			out[i] = goInts(e, n)
		}
		return out
	case int64:
		*n++
		switch {
		case *n%3 == 0 && 0 <= tv && tv <= 255:
			return uint8(tv)
		case *n%3 == 1:
			return int32(tv)
		}
		return int(tv)
	case float64:
		if float64(float32(tv)) == tv {
			return float32(tv)
		}
	}
	return v
}

func genLeaves(v any) any {
	switch tv := v.(type) {
	case map[string]any:
		out := map[string]any{}
		for k, e := range tv {
			out[k] = genLeaves(e)
		}
		return out
	case []any:
		out := make([]any, len(tv))
		for i, e := range tv {
			out[i] = genLeaves(e)
		}
		return out
	case int64:
		return gen.Int(tv)
	case float64:
		return gen.Float(tv)
	case string:
		return gen.String(tv)
	case bool:
		return gen.Bool(tv)
	}
	return v
}

func TestPropRandom(t *testing.T) {
	vrt.Rapid(t, suite, "get", vrt.Scale(40000, 300000), drawCase, Run)
}

func TestReplay(t *testing.T) { suite.ReplayAll(t) }

var _ = jp.R

var classifiers = []vrt.Classifier{}
