// Package c17 decides C17: streaming Match equals parse-then-locate.
package c17

import (
	"encoding/json"
	"fmt"
	"math"
	"sort"
	"strconv"
	"strings"
	"testing"
	"unicode/utf8"

	"github.com/ohler55/ojg"
	"github.com/ohler55/ojg/jp"
	"github.com/ohler55/ojg/oj"
	"github.com/ohler55/ojg/sen"
	"pgregory.net/rapid"

	"verif/internal/canon"
	"verif/internal/gx"
	"verif/internal/jpx"
	"verif/internal/vrt"
	"verif/internal/wx"
)

var suite = vrt.NewSuite("C17", "(document, target set, chunking): documents are generated trees (one in eight a bare scalar) written as JSON (no duplicate keys; keys ascending or, for a quarter, descending; floats also spelled 3.0 / 3.00 / 3E+00; numbers beyond int64 and float64 as digits), 1-3 target paths from child, index (also negative), wildcard, union, slice, descent and trailing filter fragments; oj.Match, MatchString, MatchLoad (generated chunkings incl. 1-byte reads and splits inside tokens) and sen.Match. Oracle: the reference evaluator selects the locations of every target on the tree oj.Parse gives for the very text that is streamed; the union is reduced to the outermost locations and sorted in document order; the callback sequence must equal that list: same normalized path text, equal value of the same type (int64, float64, json.Number ...), each exactly once. Non-trivial = >=2 expected matches, a match inside a nested array, or a target with wildcard/slice/descent/filter/union; distinct = distinct (document, targets, chunking)")

type Case struct {
	Doc     any         `json:"doc"`
	Targets []jpx.Path  `json:"targets"`
	Chunk   gx.Chunking `json:"chunk"`
	Indent  int         `json:"indent,omitempty"`
	// Reverse: object members are written in descending key order (the document order is then
	// not the order of the keys)
	Reverse bool `json:"reverse,omitempty"`
	// Sen: the sen entry points get the document in SEN notation (bare tokens, single quoted
	// strings, no commas) instead of JSON
	Sen bool `json:"sen,omitempty"`
	// Spell: how floats are spelled in the text (see spellFloat)
	Spell int `json:"spell,omitempty"`
	// BOM: the streamed text starts with a byte order mark (the readers join their first reads
	// so that a mark is not split; BomRead is the size of the reads it then arrives in)
	BOM     bool `json:"bom,omitempty"`
	BomRead int  `json:"bomread,omitempty"`
}

func TestMain(m *testing.M) {
	vrt.InitRapid()
	vrt.RegisterReplay(suite, "match", Run)
	suite.Register(classifiers...)
	vrt.Main(m, suite)
}

type hit struct {
	path string
	val  string
}

func locText(steps []any) string {
	x := jp.R()
	for _, s := range steps {
		switch ts := s.(type) {
		case string:
			x = x.C(ts)
		case int:
			x = x.N(ts)
		}
	}
	return x.String()
}

func key(steps []any) string {
	var sb strings.Builder
	for _, s := range steps {
		switch ts := s.(type) {
		case string:
			sb.WriteString("." + strconv.Quote(ts))
		case int:
			sb.WriteString("[" + strconv.Itoa(ts) + "]")
		}
	}
	return sb.String()
}

// docLess compares two locations by position in the written document: the writer puts the keys
// in ascending (or, with reverse, descending) order.
func docLess(a, b []any, reverse bool) bool {
	for i := 0; i < len(a) && i < len(b); i++ {
		switch ta := a[i].(type) {
		case string:
			tb, _ := b[i].(string)
			if ta != tb {
				return (ta < tb) != reverse
			}
		case int:
			tb, _ := b[i].(int)
			if ta != tb {
				return ta < tb
			}
		}
	}
	return len(a) < len(b)
}

// writeDoc writes the tree as JSON with the members of every object in ascending or descending
// key order.
func writeDoc(v any, indent int, reverse bool, spell int) string {
	if !reverse && !hasBig(v) && spell == 0 {
		return oj.JSON(v, &ojg.Options{Sort: true, Indent: indent})
	}
	var sb strings.Builder
	var w func(v any, depth int)
	nl := func(depth int) {
		if indent > 0 {
			sb.WriteByte('\n')
			sb.WriteString(strings.Repeat(" ", indent*depth))
		}
	}
	w = func(v any, depth int) {
		switch tv := v.(type) {
		case map[string]any:
			if len(tv) == 0 {
				sb.WriteString("{}")
				return
			}
			keys := make([]string, 0, len(tv))
			for k := range tv {
				keys = append(keys, k)
			}
			sort.Strings(keys)
			if reverse {
				sort.Sort(sort.Reverse(sort.StringSlice(keys)))
			}
			sb.WriteByte('{')
			for i, k := range keys {
				if i > 0 {
					sb.WriteByte(',')
				}
				nl(depth + 1)
				sb.WriteString(oj.JSON(k))
				sb.WriteByte(':')
				if indent > 0 {
					sb.WriteByte(' ')
				}
				w(tv[k], depth+1)
			}
			nl(depth)
			sb.WriteByte('}')
		case []any:
			if len(tv) == 0 {
				sb.WriteString("[]")
				return
			}
			sb.WriteByte('[')
			for i, e := range tv {
				if i > 0 {
					sb.WriteByte(',')
				}
				nl(depth + 1)
				w(e, depth+1)
			}
			nl(depth)
			sb.WriteByte(']')
		case json.Number:
			sb.WriteString(string(tv)) // the writers would quote it
		case float64:
			sb.WriteString(spellFloat(tv, spell))
		default:
			sb.WriteString(oj.JSON(v))
		}
	}
	w(v, 0)
	return sb.String()
}

// spellFloat: a float the way a writer other than the library's might spell it: 1 = a whole
// number keeps a fraction part ("3.0"), 2 = exponent form ("3E+00", "1.5E+00"); the value
// read back is the same float64 either way.
func spellFloat(f float64, spell int) string {
	switch {
	case spell == 1 && f == math.Trunc(f) && math.Abs(f) < 1e15:
		return strconv.FormatFloat(f, 'f', 1+int(math.Abs(f))%2, 64)
	case spell == 2 && !math.IsInf(f, 0) && !math.IsNaN(f):
		return strconv.FormatFloat(f, 'E', -1, 64)
	}
	return oj.JSON(f)
}

// hasBig: does the tree hold a number kept as text (the library's writers would quote it).
func hasBig(v any) bool {
	switch tv := v.(type) {
	case json.Number:
		return true
	case []any:
		for _, e := range tv {
			if hasBig(e) {
				return true
			}
		}
	case map[string]any:
		for _, e := range tv {
			if hasBig(e) {
				return true
			}
		}
	}
	return false
}

// writeSEN writes the tree in SEN notation as sen.md describes it: tokens ([A-Za-z_^~.] then
// also digits and '-') bare, other strings single quoted when they contain neither a single
// quote, a backslash nor a control character (a double quote inside needs no escape then) and
// JSON quoted otherwise; members and elements separated by blanks; keys in ascending or
// descending order like writeDoc.
func writeSEN(v any, reverse bool, spell int) string {
	var sb strings.Builder
	str := func(s string, key bool) {
		// a member name spelled like a literal is written bare, as sen.String writes it
		bare := len(s) > 0 && (key || (s != "true" && s != "false" && s != "null"))
		plain := utf8.ValidString(s)
		for i := 0; i < len(s); i++ {
			b := s[i]
			start := b == '_' || b == '^' || b == '~' || b == '.' || ('a' <= b && b <= 'z') || ('A' <= b && b <= 'Z')
			if !(start || (i > 0 && (('0' <= b && b <= '9') || b == '-'))) {
				bare = false
			}
			if b == 39 || b == 92 || b < 0x20 || b == 0x7f {
				plain = false
			}
		}
		switch {
		case bare:
			sb.WriteString(s)
		case plain:
			sb.WriteByte(39)
			sb.WriteString(s)
			sb.WriteByte(39)
		default:
			sb.WriteString(oj.JSON(s))
		}
	}
	var w func(v any)
	w = func(v any) {
		switch tv := v.(type) {
		case map[string]any:
			keys := make([]string, 0, len(tv))
			for k := range tv {
				keys = append(keys, k)
			}
			sort.Strings(keys)
			if reverse {
				sort.Sort(sort.Reverse(sort.StringSlice(keys)))
			}
			sb.WriteByte('{')
			for i, k := range keys {
				if i > 0 {
					sb.WriteByte(' ')
				}
				str(k, true)
				sb.WriteString(": ")
				w(tv[k])
			}
			sb.WriteByte('}')
		case []any:
			sb.WriteByte('[')
			for i, e := range tv {
				if i > 0 {
					sb.WriteByte(' ')
				}
				w(e)
			}
			sb.WriteByte(']')
		case string:
			str(tv, false)
		case json.Number:
			sb.WriteString(string(tv)) // the writers would quote it
		case float64:
			sb.WriteString(spellFloat(tv, spell))
		default:
			sb.WriteString(oj.JSON(v))
		}
	}
	w(v)
	return sb.String()
}

// ---- the streaming handler's reading of the targets (attribution of C17-K1..K3 only) ----
//
// jp.MatchHandler decides with jp.PathMatch on the path of the element being read: a negative
// index never equals a normalized one (K1), a slice accepts every index (K2, documented), the
// part of a target from its first filter on is applied, with the collected container as root,
// once that container is complete, and nothing inside a container that is being collected is
// looked at for the other targets (K3). handlerReading replays exactly that on the parsed
// document; a discrepancy is attributed to those findings only when it gives what was delivered.

// prefixMatch is jp.PathMatch for a target recipe without filter against a normalized location.
func prefixMatch(target jpx.Path, path []any) bool {
	for len(target) > 0 && (target[0].K == "root" || target[0].K == "at") {
		target = target[1:]
	}
	for i, f := range target {
		if len(path) == 0 {
			return false
		}
		if f.K == "bracket" {
			continue
		}
		switch f.K {
		case "child":
			if k, ok := path[0].(string); !ok || k != f.Key {
				return false
			}
		case "nth":
			if n, ok := path[0].(int); !ok || n != f.N {
				return false
			}
		case "wild":
		case "union":
			ok := false
			for _, u := range f.U {
				switch ts := path[0].(type) {
				case string:
					if u.Key != nil && *u.Key == ts {
						ok = true
					}
				case int:
					if u.Idx != nil && *u.Idx == ts {
						ok = true
					}
				}
			}
			if !ok {
				return false
			}
		case "slice":
			if _, ok := path[0].(int); !ok {
				return false
			}
		case "descent":
			rest := target[i+1:]
			for len(path) > 0 {
				if prefixMatch(rest, path) {
					return true
				}
				path = path[1:]
			}
			return false
		default:
			return false
		}
		path = path[1:]
	}
	return true
}

type splitTarget struct {
	prefix, rest jpx.Path
}

func handlerReading(doc any, targets []jpx.Path, reverse bool) (hits []hit, open string) {
	var sts []splitTarget
	for _, t := range targets {
		st := splitTarget{prefix: t}
		for i, f := range t {
			if f.K == "filter" {
				st.prefix, st.rest = t[:i], t[i:]
				break
			}
		}
		sts = append(sts, st)
	}
	var walk func(v any, path []any)
	walk = func(v any, path []any) {
		matched, plain := false, false
		for _, st := range sts {
			if prefixMatch(st.prefix, path) {
				matched = true
				if st.rest == nil {
					plain = true
				}
			}
		}
		switch tv := v.(type) {
		case map[string]any, []any:
			if !matched {
				if m, ok := tv.(map[string]any); ok {
					keys := make([]string, 0, len(m))
					for k := range m {
						keys = append(keys, k)
					}
					sort.Strings(keys)
					if reverse {
						sort.Sort(sort.Reverse(sort.StringSlice(keys)))
					}
					for _, k := range keys {
						walk(m[k], append(append([]any(nil), path...), k))
					}
				} else {
					for i, e := range tv.([]any) {
						walk(e, append(append([]any(nil), path...), i))
					}
				}
				return
			}
			if plain {
				hits = append(hits, hit{locText(path), canon.String(v, canon.Typed)})
				return
			}
			seen := map[string]bool{}
			var locs []jpx.Loc
			for _, st := range sts {
				if st.rest != nil && prefixMatch(st.prefix, path) {
					r := jpx.Eval(st.rest, v)
					if r.DontCare != "" {
						open = r.DontCare
					}
					for _, l := range r.Locs {
						if !seen[key(l.Path)] {
							seen[key(l.Path)] = true
							locs = append(locs, l)
						}
					}
				}
			}
			sort.Slice(locs, func(i, j int) bool { return handlerLess(locs[i].Path, locs[j].Path) })
			for _, l := range locs {
				hits = append(hits, hit{locText(append(append([]any(nil), path...), l.Path...)), canon.String(l.Val, canon.Typed)})
			}
		default:
			if plain {
				hits = append(hits, hit{locText(path), canon.String(v, canon.Typed)})
			}
		}
	}
	walk(doc, nil)
	return hits, open
}

// handlerLess: indices by number, keys by name, an index before a key, a prefix first.
func handlerLess(a, b []any) bool {
	for i := range a {
		if len(b) <= i {
			return false
		}
		switch ta := a[i].(type) {
		case int:
			tb, ok := b[i].(int)
			if !ok {
				return true
			}
			if ta != tb {
				return ta < tb
			}
		case string:
			tb, ok := b[i].(string)
			if !ok {
				return false
			}
			if ta != tb {
				return ta < tb
			}
		}
	}
	return len(a) < len(b)
}

func Run(cs Case, c *vrt.Ctx) {
	doc := wx.Dec(cs.Doc)
	text := writeDoc(doc, cs.Indent, cs.Reverse, cs.Spell)
	if cs.Reverse {
		c.Class("keys-descending")
	}
	stext := text
	if cs.Sen {
		stext = writeSEN(doc, cs.Reverse, cs.Spell)
		c.Class("sen-notation")
	}
	if cs.BOM {
		text = "\xef\xbb\xbf" + text
		stext = "\xef\xbb\xbf" + stext
		c.Class("byte-order-mark")
		if cs.BomRead > 0 {
			cs.Chunk = gx.Chunking{Sizes: []int{cs.BomRead}}
		}
	}
	// parse-then-locate: the tree the text denotes (a float written without a fraction part is
	// read as an integer; C02 decides the parser)
	if parsed, err := oj.ParseString(text); err != nil {
		c.Failf("oracle-defect", "oracle", "the generated text %q does not parse: %v", text, err)
		return
	} else if canon.String(parsed, canon.Value) != canon.String(doc, canon.Value) {
		c.Failf("oracle-defect", "oracle", "the generated text %q denotes %s, not %s", text, canon.String(parsed, canon.Value), canon.String(doc, canon.Value))
		return
	} else {
		doc = parsed
	}
	var targets []jp.Expr
	var all []jpx.Loc
	feats := map[string]bool{}
	dontCare := ""
	cleanPath := map[string]bool{} // locations selected by a target without slice, filter or negative index
	var collected []string         // containers a filter target collects
	for _, t := range cs.Targets {
		targets = append(targets, t.Build())
		res := jpx.Eval(t, doc)
		clean := true
		for _, f := range t {
			if f.K == "slice" || f.K == "filter" || (f.K == "nth" && f.N < 0) {
				clean = false
			}
			if f.K == "union" {
				for _, u := range f.U {
					if u.Idx != nil && *u.Idx < 0 {
						clean = false
					}
				}
			}
		}
		if clean {
			for _, l := range res.Locs {
				cleanPath[locText(l.Path)] = true
			}
		}
		// a target with a filter makes the handler collect the whole container the filter is
		// applied to; everything inside it is then subject to C17-K3
		for i, f := range t {
			if f.K == "filter" {
				for _, l := range jpx.Eval(t[:i], doc).Locs {
					collected = append(collected, locText(l.Path))
				}
				break
			}
		}
		if res.DontCare != "" {
			dontCare = res.DontCare
		}
		for f := range res.Feat {
			feats[f] = true
		}
		all = append(all, res.Locs...)
		for _, f := range t {
			feats["has:"+f.K] = true
			if f.K == "nth" && f.N < 0 {
				feats["negative-index"] = true
			}
			if f.K == "union" {
				for _, u := range f.U {
					if u.Idx != nil && *u.Idx < 0 {
						feats["negative-index"] = true
					}
				}
			}
		}
	}
	for f := range feats {
		c.Tag(f)
	}
	if dontCare != "" {
		c.DontCare(dontCare)
		return
	}
	// union -> outermost -> document order
	seen := map[string][]any{}
	for _, l := range all {
		seen[key(l.Path)] = l.Path
	}
	var keep [][]any
	for k, p := range seen {
		outer := true
		for k2 := range seen {
			if k2 != k && strings.HasPrefix(k, k2) && (len(k2) == 0 || k[len(k2)] == '.' || k[len(k2)] == '[') {
				outer = false
			}
		}
		if outer {
			keep = append(keep, p)
		}
	}
	sort.Slice(keep, func(i, j int) bool { return docLess(keep[i], keep[j], cs.Reverse) })
	var want []hit
	for _, p := range keep {
		r := jpx.Eval(pathOf(p), doc)
		if len(r.Locs) != 1 {
			continue
		}
		want = append(want, hit{locText(p), canon.String(r.Locs[0].Val, canon.Typed)})
	}
	nested := false
	for _, p := range keep {
		if len(p) >= 2 {
			if _, ok := p[len(p)-1].(int); ok {
				nested = true
			}
		}
	}
	if len(want) >= 2 || nested || feats["has:wild"] || feats["has:slice"] || feats["has:descent"] || feats["has:filter"] || feats["has:union"] {
		c.NonTrivial()
	}
	var tstr []string
	for _, t := range targets {
		tstr = append(tstr, t.String())
	}
	c.Sample(map[string]any{"doc": text, "targets": tstr, "want": fmt.Sprint(want), "chunk": cs.Chunk})
	var tags []string
	for _, f := range []string{"has:slice", "has:filter", "has:descent", "has:union", "has:wild", "negative-index", "filter-uses-root"} {
		if feats[f] {
			tags = append(tags, f)
		}
	}
	if len(cs.Targets) > 1 {
		tags = append(tags, "multi-target")
	}
	for _, e := range []struct {
		name string
		f    func(cb func(jp.Expr, any)) error
	}{
		{"oj.Match", func(cb func(jp.Expr, any)) error { return oj.Match([]byte(text), cb, targets...) }},
		{"oj.MatchString", func(cb func(jp.Expr, any)) error { return oj.MatchString(text, cb, targets...) }},
		{"oj.MatchLoad", func(cb func(jp.Expr, any)) error { return oj.MatchLoad(cs.Chunk.Reader([]byte(text)), cb, targets...) }},
		{"sen.Match", func(cb func(jp.Expr, any)) error { return sen.Match([]byte(stext), cb, targets...) }},
		{"sen.MatchString", func(cb func(jp.Expr, any)) error { return sen.MatchString(stext, cb, targets...) }},
		{"sen.MatchLoad", func(cb func(jp.Expr, any)) error {
			size := 1 + len(stext)%5
			if cs.BomRead > 0 {
				size = cs.BomRead
			}
			return sen.MatchLoad(gx.Chunking{Sizes: []int{size}}.Reader([]byte(stext)), cb, targets...)
		}},
	} {
		var got []hit
		var err error
		pv, stack := vrt.Catch(func() {
			err = e.f(func(p jp.Expr, v any) {
				got = append(got, hit{p.String(), canon.String(v, canon.Typed)})
			})
		})
		if pv != nil {
			c.Fail("panic", e.name, fmt.Sprintf("%v at %s; doc %s targets %v", pv, stack, text, tstr), tags...)
			continue
		}
		if err != nil {
			c.Fail("error", e.name, fmt.Sprintf("%v; doc %s targets %v", err, text, tstr), tags...)
			continue
		}
		// The recorded findings (negative index, trailing filter) only lose matches of the
		// targets that have those features: what a clean target selects - and nothing else
		// selects from further out - is still due, whatever other targets are listed with it.
		if !feats["has:slice"] {
			for _, w := range want {
				if !cleanPath[w.path] {
					continue
				}
				inside := false
				for _, cp := range collected {
					if w.path == cp || strings.HasPrefix(w.path, cp+".") || strings.HasPrefix(w.path, cp+"[") {
						inside = true
					}
				}
				if inside {
					continue
				}
				found := false
				for _, g := range got {
					if g == w {
						found = true
					}
				}
				if !found {
					c.Fail("clean-target-match-missing", e.name, fmt.Sprintf("doc %s targets %v chunk %+v: %v is selected by a target without slice, filter or negative index, outside every container a filter target collects, but was not delivered; got %v", clip(text), tstr, cs.Chunk, w, got), "multi-target-clean")
				}
			}
		}
		if fmt.Sprint(got) != fmt.Sprint(want) {
			tags := tags
			if hr, open := handlerReading(doc, cs.Targets, cs.Reverse); fmt.Sprint(got) == fmt.Sprint(hr) || open != "" {
				tags = append(append([]string(nil), tags...), "explained-by-handler-reading")
			}
			kind := "wrong-matches"
			gs, ws := append([]hit(nil), got...), append([]hit(nil), want...)
			sort.Slice(gs, func(i, j int) bool { return gs[i].path+gs[i].val < gs[j].path+gs[j].val })
			sort.Slice(ws, func(i, j int) bool { return ws[i].path+ws[i].val < ws[j].path+ws[j].val })
			if fmt.Sprint(gs) == fmt.Sprint(ws) {
				kind = "wrong-order"
			}
			c.Fail(kind, e.name, fmt.Sprintf("doc %s targets %v chunk %+v: got %v want %v", clip(text), tstr, cs.Chunk, got, want), tags...)
		}
	}
}

func clip(s string) string {
	if len(s) > 300 {
		return s[:300] + "…"
	}
	return s
}

func pathOf(steps []any) jpx.Path {
	p := jpx.Path{{K: "root"}}
	for _, s := range steps {
		switch ts := s.(type) {
		case string:
			p = append(p, jpx.Frag{K: "child", Key: ts})
		case int:
			p = append(p, jpx.Frag{K: "nth", N: ts})
		}
	}
	return p
}

func drawTarget(t *rapid.T) jpx.Path {
	p := jpx.Path{{K: "root"}}
	n := rapid.IntRange(1, 4).Draw(t, "nfrag")
	for i := 0; i < n; i++ {
		kind := rapid.SampledFrom([]string{"child", "child", "child", "nth", "nth", "wild", "union", "slice", "descent"}).Draw(t, "k")
		last := i == n-1
		if kind == "descent" && last {
			kind = "child"
		}
		if last && rapid.IntRange(0, 7).Draw(t, "trailfilter") == 0 {
			q := jpx.DrawPath(t, jpx.PathOpts{MaxFrags: 1, FilterDepth: 1, LastAdmit: []string{"filter"}})
			p = append(p, q[len(q)-1])
			continue
		}
		q := jpx.DrawPath(t, jpx.PathOpts{MaxFrags: 1, LastAdmit: []string{kind}})
		f := q[len(q)-1]
		if f.K == "union" && len(f.U) == 1 {
			f.U = append(f.U, f.U[0])
		}
		p = append(p, f)
	}
	return p
}

var bigNumbers = []json.Number{"123456789012345678901234567890", "-98765432109876543210", "0.12345678901234567890123", "1e2000", "-1.5e-2000"}

// withBigNumbers replaces some of the numeric leaves by numbers that are kept as text.
func withBigNumbers(t *rapid.T, v any) any {
	switch tv := v.(type) {
	case []any:
		for i, e := range tv {
			tv[i] = withBigNumbers(t, e)
		}
	case map[string]any:
		keys := make([]string, 0, len(tv))
		for k := range tv {
			keys = append(keys, k)
		}
		sort.Strings(keys)
		for _, k := range keys {
			tv[k] = withBigNumbers(t, tv[k])
		}
	case int64, float64:
		if rapid.IntRange(0, 2).Draw(t, "big") == 0 {
			return rapid.SampledFrom(bigNumbers).Draw(t, "bignum")
		}
	}
	return v
}

func drawCase(t *rapid.T) Case {
	doc := jpx.DrawData(t, 4)
	// one document in eight is a bare scalar: nothing follows a number there but the end of the input
	scalarDoc := rapid.IntRange(0, 7).Draw(t, "scalardoc") == 0
	if scalarDoc {
		doc = rapid.SampledFrom([]any{int64(42), int64(-7), 2.5, -1500.0, int64(0), "s", true, nil, 1e300, int64(1) << 60}).Draw(t, "scalar")
	}
	if _, ok := doc.([]any); !ok && !scalarDoc {
		if _, ok2 := doc.(map[string]any); !ok2 {
			doc = map[string]any{"a": doc, "b": jpx.DrawData(t, 3), "c": []any{jpx.DrawData(t, 2), jpx.DrawData(t, 2)}}
		}
	}
	if rapid.IntRange(0, 5).Draw(t, "literalkey") == 0 {
		// a member named like a literal (the SEN writers write such a name bare)
		name := rapid.SampledFrom([]string{"null", "true", "false"}).Draw(t, "literalname")
		var add func(v any) bool
		add = func(v any) bool {
			switch tv := v.(type) {
			case map[string]any:
				tv[name] = int64(len(tv))
				return true
			case []any:
				for _, e := range tv {
					if add(e) {
						return true
					}
				}
			}
			return false
		}
		add(doc)
	}
	cs := Case{Indent: rapid.SampledFrom([]int{0, 0, 2}).Draw(t, "indent")}
	n := rapid.IntRange(1, 3).Draw(t, "ntargets")
	filters := false
	for i := 0; i < n; i++ {
		tg := drawTarget(t)
		if (scalarDoc && i == 0) || rapid.IntRange(0, 11).Draw(t, "roottarget") == 0 {
			tg = jpx.Path{{K: "root"}} // the document itself
		}
		for _, f := range tg {
			filters = filters || f.K == "filter"
		}
		cs.Targets = append(cs.Targets, tg)
	}
	if !filters && rapid.IntRange(0, 2).Draw(t, "bignums") == 0 {
		// numbers that fit neither int64 nor float64 reach the handler through another callback
		// and have to arrive as json.Number like in the parsed document (not under filter
		// targets: how a script compares a json.Number is said nowhere)
		doc = withBigNumbers(t, doc)
	}
	cs.Doc = wx.Enc(doc)
	cs.Reverse = rapid.IntRange(0, 3).Draw(t, "reverse") == 0
	cs.Sen = rapid.IntRange(0, 1).Draw(t, "sen") == 0
	cs.Spell = rapid.SampledFrom([]int{0, 0, 1, 1, 2}).Draw(t, "spell")
	text := writeDoc(doc, cs.Indent, cs.Reverse, cs.Spell)
	var cuts []int
	for i := 1; i < len(text); i++ {
		if text[i-1] != ' ' && text[i] != ' ' {
			cuts = append(cuts, i)
		}
	}
	cs.Chunk = gx.DrawChunking(t, len(text), cuts)
	if rapid.IntRange(0, 7).Draw(t, "bom") == 0 {
		cs.BOM = true
		cs.BomRead = rapid.SampledFrom([]int{0, 1, 2, 3, 4, 5}).Draw(t, "bomread")
	}
	return cs
}

func TestPropRandom(t *testing.T) {
	vrt.Rapid(t, suite, "match", vrt.Scale(20000, 150000), drawCase, Run)
}

func TestReplay(t *testing.T) { suite.ReplayAll(t) }

func has(d vrt.Disc, t string) bool {
	for _, x := range d.Tags {
		if x == t {
			return true
		}
	}
	return false
}

var classifiers = []vrt.Classifier{
	// C17-K1: a negative index (or negative union member) in a target never matches while
	// streaming: PathMatch compares the target index with the normalized index of the element
	// being read and the array length is not known at that point.
	{ID: "C17-K1", Match: func(d vrt.Disc, c *vrt.Ctx) bool {
		return has(d, "negative-index") && has(d, "explained-by-handler-reading")
	}},
	// C17-K2: a slice in a target matches every array index (documented in jp.PathMatch: "Slice
	// fragments always return true as long as the path element is an Nth"), so bounds and step
	// are ignored by the streaming matchers.
	{ID: "C17-K2", Match: func(d vrt.Disc, c *vrt.Ctx) bool {
		return has(d, "has:slice") && has(d, "explained-by-handler-reading")
	}},
	// C17-K3: a trailing filter is evaluated on the collected parent with Locate(v, 1)/First, so
	// only the first matching member is reported (and $ in the filter has no root); the other
	// members the filter selects are not delivered.
	{ID: "C17-K3", Match: func(d vrt.Disc, c *vrt.Ctx) bool {
		return has(d, "has:filter") && has(d, "explained-by-handler-reading")
	}},
}
