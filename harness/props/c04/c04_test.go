// Package c04 decides C04: JSON writers emit valid JSON that denotes the data written.
package c04

import (
	"bytes"
	"encoding/json"
	"fmt"
	"math/big"
	"strconv"
	"strings"
	"testing"

	"github.com/ohler55/ojg"
	"github.com/ohler55/ojg/alt"
	"github.com/ohler55/ojg/oj"
	"github.com/ohler55/ojg/pretty"
	"pgregory.net/rapid"

	"verif/internal/gx"
	"verif/internal/ref"
	"verif/internal/vrt"
	"verif/internal/wx"
)

var suite = vrt.NewSuite("C04", "(value tree, option record): trees of nil/bool/int64/finite float64/hostile strings (control, quote, HTML, U+2028/9, invalid UTF-8, long), arrays and maps nested to depth 6 (sometimes 40), as simple and as gen values; options Indent/Tab/Sort/OmitNil/OmitEmpty/HTML-safe/WriteLimit/InitSize and pretty Width/MaxDepth/Align. Each of 8 JSON writer entry points must emit text that the reference recogniser and encoding/json accept, whose exact decoding equals the tree minus exactly the members the Omit options name; streaming output must equal the in-memory text; Sort must give ascending keys and identical text on a second run; HTML-safe output has no raw <>&. Non-trivial = tree has a container with >=2 members and (an escaped string, an omitted member, a mid-container flush, depth beyond 4, or an aligned table); distinct = distinct (tree, options)")

type Case struct {
	Tree any    `json:"tree"`
	Opt  wx.Opt `json:"opt"`
	Gen  bool   `json:"gen,omitempty"`
}

func TestMain(m *testing.M) {
	vrt.InitRapid()
	vrt.RegisterReplay(suite, "write", Run)
	suite.Register(classifiers...)
	vrt.Main(m, suite)
}

var reused = &oj.Writer{Options: ojg.DefaultOptions}
var reusedPretty = &pretty.Writer{Options: ojg.DefaultOptions}

type entry struct {
	name   string
	pretty bool
	stream bool
	f      func(data any, o wx.Opt) ([]byte, *wx.Rec, error)
}

func prettyArgs(o wx.Opt) []any {
	oo := o.Options()
	return []any{&oo, float64(o.Width) + float64(o.MaxDepth)/10.0, o.Align}
}

var entries = []entry{
	{"oj.JSON", false, false, func(d any, o wx.Opt) ([]byte, *wx.Rec, error) {
		oo := o.Options()
		return []byte(oj.JSON(d, &oo)), nil, nil
	}},
	{"oj.Marshal", false, false, func(d any, o wx.Opt) ([]byte, *wx.Rec, error) {
		oo := o.Options()
		b, err := oj.Marshal(d, &oo)
		return b, nil, err
	}},
	{"oj.Write", false, true, func(d any, o wx.Opt) ([]byte, *wx.Rec, error) {
		oo := o.Options()
		r := &wx.Rec{}
		err := oj.Write(r, d, &oo)
		return r.Buf, r, err
	}},
	{"oj.Writer(reused).JSON", false, false, func(d any, o wx.Opt) ([]byte, *wx.Rec, error) {
		reused.Options = o.Options()
		return []byte(reused.JSON(d)), nil, nil
	}},
	{"oj.Writer(reused).Write", false, true, func(d any, o wx.Opt) ([]byte, *wx.Rec, error) {
		reused.Options = o.Options()
		r := &wx.Rec{}
		err := reused.Write(r, d)
		return r.Buf, r, err
	}},
	// Marshal with the caller's own Writer: the bytes handed back have to stay what they are when
	// the Writer is used again ("Marshal copies the buffer before returning")
	{"oj.Marshal(own writer, kept)", false, false, func(d any, o wx.Opt) ([]byte, *wx.Rec, error) {
		wr := &oj.Writer{Options: o.Options()}
		b, err := oj.Marshal(d, wr)
		if err != nil {
			return b, nil, err
		}
		keep := append([]byte(nil), b...)
		_ = wr.JSON([]any{false, false, "overwritten", int64(1234567890), nil})
		_, _ = oj.Marshal(map[string]any{"zzzzzzzz": "zzzzzzzzzzzzzzzz"}, wr)
		if !bytes.Equal(b, keep) {
			return b, nil, fmt.Errorf("the result of Marshal changed when its Writer was used again: %q became %q", keep, b)
		}
		return b, nil, nil
	}},
	{"pretty.JSON", true, false, func(d any, o wx.Opt) ([]byte, *wx.Rec, error) {
		return []byte(pretty.JSON(d, prettyArgs(o)...)), nil, nil
	}},
	{"pretty.WriteJSON", true, true, func(d any, o wx.Opt) ([]byte, *wx.Rec, error) {
		r := &wx.Rec{}
		err := pretty.WriteJSON(r, d, prettyArgs(o)...)
		return r.Buf, r, err
	}},
	{"pretty.Writer(reused).Marshal", true, false, func(d any, o wx.Opt) ([]byte, *wx.Rec, error) {
		reusedPretty.Options = o.Options()
		reusedPretty.Width, reusedPretty.MaxDepth, reusedPretty.Align, reusedPretty.SEN = o.Width, o.MaxDepth, o.Align, false
		b, err := reusedPretty.Marshal(d)
		return b, nil, err
	}},
}

type feat struct {
	multi, escaped, omitted, deep, table bool
}

func scan(v any, o wx.Opt, depth int, f *feat) {
	if depth > 4 {
		f.deep = true
	}
	switch tv := v.(type) {
	case string:
		if needsEscape(tv) {
			f.escaped = true
		}
	case []any:
		if len(tv) >= 2 {
			f.multi = true
			maps := 0
			for _, e := range tv {
				if _, ok := e.(map[string]any); ok {
					maps++
				}
			}
			if maps >= 2 {
				f.table = true
			}
		}
		for _, e := range tv {
			scan(e, o, depth+1, f)
		}
	case map[string]any:
		if len(tv) >= 2 {
			f.multi = true
		}
		for k, e := range tv {
			if needsEscape(k) {
				f.escaped = true
			}
			if drop(e, o) != keep {
				f.omitted = true
			}
			scan(e, o, depth+1, f)
		}
	}
}

func needsEscape(s string) bool {
	for i := 0; i < len(s); i++ {
		b := s[i]
		if b < 0x20 || b == '"' || b == '\\' || b >= 0x7f || b == '<' || b == '>' || b == '&' {
			return true
		}
	}
	return false
}

type dropRule int

const (
	keep dropRule = iota
	mustDrop
	mayDrop
)

// drop says whether an object member with value v must / may / must not be omitted.
func drop(v any, o wx.Opt) dropRule {
	if v == nil {
		if o.OmitNil {
			return mustDrop
		}
		if o.OmitEmpty {
			return mayDrop // options.go: "empty string, slices, maps, and zero values": nil undecided (Z)
		}
		return keep
	}
	switch tv := v.(type) {
	case string:
		if tv == "" && o.OmitEmpty {
			return mustDrop
		}
	case []any:
		if len(tv) == 0 {
			if o.OmitEmpty {
				return mustDrop
			}
			if o.OmitNil && !o.KeepsEmpty {
				return mayDrop // pretty drops empty containers under OmitNil, oj does not (Z)
			}
		}
	case map[string]any:
		if len(tv) == 0 {
			if o.OmitEmpty {
				return mustDrop
			}
			if o.OmitNil && !o.KeepsEmpty {
				return mayDrop
			}
		} else if o.OmitEmpty || o.OmitNil {
			// a map all of whose members are (or may be) dropped may itself be dropped (Z)
			all := true
			for _, e := range tv {
				if drop(e, o) == keep {
					all = false
					break
				}
			}
			if all {
				return mayDrop
			}
		}
	default:
		if o.OmitEmpty && wx.IsZeroNum(v) {
			return mayDrop // "zero values": writers and alt disagree (Z)
		}
	}
	return keep
}

func match(orig any, n *ref.Node, o wx.Opt, path string, out *[]string) {
	if len(*out) > 5 {
		return
	}
	bad := func(f string, a ...any) { *out = append(*out, path+": "+fmt.Sprintf(f, a...)) }
	switch tv := orig.(type) {
	case nil:
		if n.Kind != ref.Null {
			bad("want null got kind %d", n.Kind)
		}
	case bool:
		if n.Kind != ref.Bool || n.B != tv {
			bad("want %v", tv)
		}
	case int64:
		if n.Kind != ref.Num || n.HugeExp() || n.Rat().Cmp(new(big.Rat).SetInt64(tv)) != 0 {
			bad("want int %d got %s", tv, n.Lit)
		}
	case float64:
		if n.Kind != ref.Num {
			bad("want float %v got kind %d", tv, n.Kind)
			return
		}
		f, err := strconv.ParseFloat(n.Lit, 64)
		if err != nil || f != tv {
			bad("want float %s got %s", strconv.FormatFloat(tv, 'g', -1, 64), n.Lit)
		}
	case string:
		if n.Kind != ref.Str || n.S != wx.ReplaceInvalid(tv) {
			bad("want string %q got %q", wx.ReplaceInvalid(tv), n.S)
		}
	case []any:
		if n.Kind != ref.Arr {
			bad("want array")
			return
		}
		if len(n.Arr) != len(tv) {
			bad("array of %d elements written with %d (elements are never omitted)", len(tv), len(n.Arr))
			return
		}
		for i, e := range tv {
			match(e, n.Arr[i], o, fmt.Sprintf("%s[%d]", path, i), out)
		}
	case map[string]any:
		if n.Kind != ref.Obj {
			bad("want object")
			return
		}
		got := map[string]*ref.Node{}
		for i, k := range n.Keys {
			if _, dup := got[k]; dup {
				bad("duplicate key %q in output", k)
			}
			got[k] = n.Vals[i]
		}
		want := map[string]bool{}
		for k, e := range tv {
			wk := wx.ReplaceInvalid(k)
			want[wk] = true
			g, present := got[wk]
			switch drop(e, o) {
			case mustDrop:
				if present {
					bad("member %q (%v) must be omitted but was written", k, e)
				}
			case mayDrop:
				if present {
					match(e, g, o, path+"."+strconv.Quote(k), out)
				}
			default:
				if !present {
					bad("member %q (%T) is missing", k, e)
				} else {
					match(e, g, o, path+"."+strconv.Quote(k), out)
				}
			}
		}
		for k := range got {
			if !want[k] {
				bad("invented member %q", k)
			}
		}
	}
}

// dropCommaBeforeClose removes each comma that is followed only by spaces and '}'
// (outside of strings). Returns nil if there is none.
func dropCommaBeforeClose(b []byte) []byte {
	var out []byte
	inStr, changed := false, false
	for i := 0; i < len(b); i++ {
		ch := b[i]
		if inStr {
			if ch == '\\' && i+1 < len(b) {
				out = append(out, ch, b[i+1])
				i++
				continue
			}
			if ch == '"' {
				inStr = false
			}
			out = append(out, ch)
			continue
		}
		if ch == '"' {
			inStr = true
		}
		if ch == ',' {
			j := i + 1
			for j < len(b) && b[j] == ' ' {
				j++
			}
			if j < len(b) && b[j] == '}' {
				out = append(out, ' ')
				changed = true
				continue
			}
		}
		out = append(out, ch)
	}
	if !changed {
		return nil
	}
	return out
}

func hasMultiMap(v any) bool {
	switch tv := v.(type) {
	case []any:
		for _, e := range tv {
			if hasMultiMap(e) {
				return true
			}
		}
	case map[string]any:
		if len(tv) >= 2 {
			return true
		}
		for _, e := range tv {
			if hasMultiMap(e) {
				return true
			}
		}
	}
	return false
}

func sortedKeys(n *ref.Node, path string, htmlSafe bool, out *[]string) {
	switch n.Kind {
	case ref.Arr:
		for i, c := range n.Arr {
			sortedKeys(c, fmt.Sprintf("%s[%d]", path, i), htmlSafe, out)
		}
	case ref.Obj:
		for i := range n.Keys {
			if i > 0 && !(n.Keys[i-1] < n.Keys[i]) {
				m := fmt.Sprintf("%s: key %q written before %q", path, n.Keys[i-1], n.Keys[i])
				// ascending in the JSON-encoded spelling but not in the key itself?
				// (the spelling the writer used: with HTMLSafe < > & are escapes as well)
				if ea, eb := string(ojg.AppendJSONString(nil, n.Keys[i-1], htmlSafe)), string(ojg.AppendJSONString(nil, n.Keys[i], htmlSafe)); ea < eb {
					m = "ENCODED-ORDER " + m
				}
				*out = append(*out, m)
			}
			sortedKeys(n.Vals[i], path+"."+n.Keys[i], htmlSafe, out)
		}
	}
}

func Run(cs Case, c *vrt.Ctx) {
	tree := wx.Dec(cs.Tree)
	o := cs.Opt
	var f feat
	scan(tree, o, 0, &f)
	var data any = tree
	if cs.Gen {
		data = alt.Generify(tree, &ojg.Options{}) // explicit options: alt defaults to OmitNil
		c.Class("gen")
	}
	deterministic := o.Sort || !hasMultiMap(tree)
	var memText map[bool][]byte = map[bool][]byte{}
	midFlush := false
	for _, e := range entries {
		var out []byte
		var rec *wx.Rec
		var err error
		pv, stack := vrt.Catch(func() { out, rec, err = e.f(data, o) })
		if pv != nil {
			c.Fail("panic", e.name, fmt.Sprintf("%v at %s opt=%+v", pv, stack, o))
			continue
		}
		if err != nil {
			c.Fail("error", e.name, fmt.Sprintf("%v opt=%+v", err, o))
			continue
		}
		tags := []string{}
		if e.pretty {
			tags = append(tags, "pretty")
			if o.Align {
				tags = append(tags, "align")
			}
		}
		if o.OmitNil {
			tags = append(tags, "omitnil")
		}
		if o.OmitEmpty {
			tags = append(tags, "omitempty")
		}
		// (1) syntactically valid
		v := ref.Scan(out)
		if !v.Complete || !json.Valid(out) {
			tg := tags
			// known finding C04-K1: the only problem is a comma before '}' in an aligned row
			if rep := dropCommaBeforeClose(out); e.pretty && o.Align && rep != nil && ref.Scan(rep).Complete {
				if n2, err2 := ref.Decode(rep); err2 == nil {
					var ms []string
					match(tree, n2, o, "$", &ms)
					if len(ms) == 0 {
						tg = append(append([]string(nil), tags...), "only-comma-before-close")
					}
				}
			}
			c.Fail("invalid-json", e.name, fmt.Sprintf("output is not valid JSON (dead at %d, %s): %s opt=%+v", v.DeadAt, v.EndState, clip(out), o), tg...)
			continue
		}
		// (2) denotes the tree
		n, derr := ref.Decode(out)
		if derr != nil {
			c.Fail("oracle-defect", "oracle", fmt.Sprintf("scan ok but decode failed: %v", derr))
			continue
		}
		var ms []string
		mo := o
		mo.KeepsEmpty = !e.pretty // an empty container is not nil: the oj writers keep it under OmitNil alone
		match(tree, n, mo, "$", &ms)
		for _, m := range ms {
			c.Fail("wrong-content", e.name, fmt.Sprintf("%s; output %s opt=%+v", m, clip(out), o), tags...)
		}
		// (3) streaming == in-memory
		if deterministic {
			if prev, ok := memText[e.pretty]; ok {
				if !bytes.Equal(prev, out) {
					c.Fail("stream-differs", e.name, fmt.Sprintf("text differs from the first %s entry point: %s vs %s opt=%+v", map[bool]string{false: "oj", true: "pretty"}[e.pretty], clip(out), clip(prev), o), tags...)
				}
			} else {
				memText[e.pretty] = out
			}
		}
		if rec != nil && rec.Writes > 1 {
			midFlush = true
		}
		// (4) sorted
		if o.Sort {
			var sk []string
			sortedKeys(n, "$", o.HTMLSafe, &sk)
			for _, m := range sk {
				tg := tags
				if strings.HasPrefix(m, "ENCODED-ORDER ") {
					tg = append(append([]string(nil), tags...), "encoded-key-order")
				}
				c.Fail("not-sorted", e.name, m+"; output "+clip(out), tg...)
			}
		}
		// (6) HTML safe, U+2028/9
		if o.HTMLSafe && bytes.ContainsAny(out, "<>&") {
			c.Fail("html-unsafe", e.name, "raw <, > or & in HTML-safe output "+clip(out), tags...)
		}
		if bytes.Contains(out, []byte(" ")) || bytes.Contains(out, []byte(" ")) {
			c.Fail("raw-u2028", e.name, "raw U+2028/9 in output "+clip(out), tags...)
		}
	}
	// (5) Marshal copies out of the pooled writer
	oo := o.Options()
	b1, err1 := oj.Marshal(data, &oo)
	if err1 == nil {
		keepCopy := append([]byte(nil), b1...)
		_, _ = oj.Marshal([]any{"overwrite", "the", "pooled", "buffer", int64(1234567890)})
		_, _ = oj.Marshal(data)
		if !bytes.Equal(keepCopy, b1) {
			c.Fail("marshal-aliases-pool", "oj.Marshal", "result changed after later Marshal calls")
		}
	}
	if f.multi && (f.escaped || f.omitted || f.deep || midFlush || (f.table && o.Align)) {
		c.NonTrivial()
	}
	if f.escaped {
		c.Class("escaped-string")
	}
	if f.omitted {
		c.Class("omitted-member")
	}
	if f.deep {
		c.Class("deep")
	}
	if midFlush {
		c.Class("mid-flush")
	}
	if f.table && o.Align {
		c.Class("aligned-table")
	}
	c.Sample(map[string]any{"tree": oj.JSON(tree, &ojg.Options{Sort: true}), "opt": o, "gen": cs.Gen})
}

func clip(b []byte) string {
	s := string(b)
	if len(s) > 300 {
		s = s[:200] + "…" + s[len(s)-80:]
	}
	return strconv.Quote(s)
}

var keysPool = []string{"a", "b", "c", "x", "key", "k1", "a b", "", "é", "z9", "A", "aa", "<k>", "q\"", "back\\slash", "\n", " ", "😀", strings.Repeat("k", 70), "\x7f"}

func drawCase(t *rapid.T) Case {
	tree := gx.Tree(t, gx.TreeOpts{MaxDepth: 6, MaxMembers: 5, DeepOK: true, RandStr: true, Keys: keysPool})
	if rapid.IntRange(0, 3).Draw(t, "table") == 0 {
		// rows for the aligned table code: an array of maps / arrays with similar shape
		rows := rapid.IntRange(2, 5).Draw(t, "rows")
		cols := rapid.SampledFrom([][]string{{"a", "b", "c"}, {"x", "key"}, {"a", "aa", "b", "k1"}}).Draw(t, "cols")
		var arr []any
		for i := 0; i < rows; i++ {
			m := map[string]any{}
			for _, col := range cols {
				if rapid.IntRange(0, 4).Draw(t, "missing") != 0 {
					m[col] = gx.Scalar(t, gx.TreeOpts{})
				}
			}
			arr = append(arr, m)
		}
		tree = map[string]any{"rows": arr, "other": tree}
	}
	if rapid.IntRange(0, 5).Draw(t, "longkey") == 0 {
		// a member name (much) longer than its neighbours: the writers pad keys and cells from
		// fixed tables of blanks (128 of them), lengths around that and beyond; names of control
		// characters, quotes or '<' grow by a factor when they are encoded
		n := rapid.SampledFrom([]int{126, 127, 128, 129, 130, 131, 200, 300}).Draw(t, "longlen")
		var key string
		switch rapid.IntRange(0, 3).Draw(t, "longkind") {
		case 0, 1:
			key = strings.Repeat("k", n)
		case 2:
			key = strings.Repeat("\x01", n/6+1)
		default:
			key = strings.Repeat("<\"", n/4+1)
		}
		val := gx.Scalar(t, gx.TreeOpts{})
		placed := false
		if rapid.Bool().Draw(t, "longinrow") {
			if m, ok := tree.(map[string]any); ok {
				if rows, ok := m["rows"].([]any); ok && len(rows) > 0 {
					if r, ok := rows[rapid.IntRange(0, len(rows)-1).Draw(t, "longrow")].(map[string]any); ok {
						r[key] = val
						placed = true
					}
				}
			}
		}
		if !placed {
			if m, ok := tree.(map[string]any); ok {
				m[key] = val
				m["id"] = int64(1)
			} else {
				tree = map[string]any{"id": tree, key: val, "b": []any{map[string]any{"x": int64(1), key: val}, map[string]any{"x": int64(2)}}}
			}
		}
	}
	return Case{Tree: wx.Enc(tree), Opt: wx.DrawOpt(t, true), Gen: rapid.IntRange(0, 3).Draw(t, "gen") == 0}
}

func TestPropRandom(t *testing.T) {
	vrt.Rapid(t, suite, "write", vrt.Scale(12000, 70000), drawCase, Run)
}

func TestReplay(t *testing.T) { suite.ReplayAll(t) }

func has(d vrt.Disc, t string) bool {
	for _, x := range d.Tags {
		if x == t {
			return true
		}
	}
	return false
}

var classifiers = []vrt.Classifier{
	// C04-K1: pretty with Align writes a comma after the last member of a row whose remaining
	// columns are missing ('{"a": 1,        }'). pretty/align_test.go pins this output, so it can
	// not be repaired without editing the repository's tests.
	{ID: "C04-K1", Match: func(d vrt.Disc, c *vrt.Ctx) bool {
		return d.Kind == "invalid-json" && has(d, "pretty") && has(d, "align") && has(d, "only-comma-before-close")
	}},
	// C04-K2: aligned map rows are ordered by the JSON-encoded key text (pretty/node.go sorts the
	// table columns on the quoted, escaped key), so with Sort keys that need escaping are not in
	// ascending key order.
	{ID: "C04-K2", Match: func(d vrt.Disc, c *vrt.Ctx) bool {
		return d.Kind == "not-sorted" && has(d, "pretty") && has(d, "align") && has(d, "encoded-key-order")
	}},
}
