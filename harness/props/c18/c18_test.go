// Package c18 decides C18: generic and simple forms convert losslessly and copy deeply.
package c18

import (
	"fmt"
	"io"
	"sort"
	"strings"
	"testing"
	"time"

	"github.com/ohler55/ojg"
	"github.com/ohler55/ojg/alt"
	"github.com/ohler55/ojg/gen"
	"github.com/ohler55/ojg/oj"
	"github.com/ohler55/ojg/pretty"
	"github.com/ohler55/ojg/sen"
	"pgregory.net/rapid"

	"verif/internal/canon"
	"verif/internal/gx"
	"verif/internal/vet"
	"verif/internal/vrt"
	"verif/internal/wx"
)

var suite = vrt.NewSuite("C18", "(tree of simple values incl. nil members, nested empty containers and time.Time, conversion, mutation script): Generify->Simplify, GenAlter->Alter, Dup, Decompose (explicit options that keep nulls; TimeFormat 'time' where times occur) must give a typed-canon-equal tree; writers must give identical text for a gen tree and its simple equivalent; gen.Parser(text) must equal Generify(oj.Parser(text)), also through readers with 1-7 byte reads, with kinds compared (1.0 is a float on both sides), for the text with its numbers respelled (integer mantissa with exponent, upper case exponent, trailing zeros, whole numbers with a fraction part of zeros), with CR LF and bare CR line ends, and for a stream of documents handed to callbacks by parsers that recycle their maps (Reuse); after a generated mutation script (set/delete member, overwrite element, write through a retained sub-slice) applied to the copy or to the original, the other side's canon is unchanged for the copying operations. Non-trivial = tree with >=2 container levels and a mutation that hits a nested container; distinct = distinct (tree, script)")

type Mut struct {
	Target int `json:"target"` // which container (in walk order, modulo count)
	Kind   int `json:"kind"`
	Idx    int `json:"idx"`
}

type Case struct {
	Tree     any   `json:"tree"`
	Muts     []Mut `json:"muts"`
	OnOrigin bool  `json:"on_origin,omitempty"` // mutate the original instead of the copy
}

func TestMain(m *testing.M) {
	vrt.InitRapid()
	vrt.RegisterReplay(suite, "convert", Run)
	suite.Register(classifiers...)
	vrt.Main(m, suite)
}

var keepAll = &ojg.Options{TimeFormat: "time"} // OmitNil false; times stay time.Time

func hasTime(v any) bool {
	switch tv := v.(type) {
	case time.Time:
		return true
	case []any:
		for _, e := range tv {
			if hasTime(e) {
				return true
			}
		}
	case map[string]any:
		for _, e := range tv {
			if hasTime(e) {
				return true
			}
		}
	}
	return false
}

func depthOf(v any) int {
	d := 0
	switch tv := v.(type) {
	case []any:
		for _, e := range tv {
			if x := depthOf(e); x > d {
				d = x
			}
		}
		return d + 1
	case map[string]any:
		for _, e := range tv {
			if x := depthOf(e); x > d {
				d = x
			}
		}
		return d + 1
	}
	return 0
}

// containers lists the containers of a simple or gen tree in a deterministic walk order.
func containers(v any, depth int, out *[]any, depths *[]int) {
	switch tv := v.(type) {
	case []any:
		*out = append(*out, tv)
		*depths = append(*depths, depth)
		for _, e := range tv {
			containers(e, depth+1, out, depths)
		}
	case map[string]any:
		*out = append(*out, tv)
		*depths = append(*depths, depth)
		for _, k := range sortedKeys(tv) {
			containers(tv[k], depth+1, out, depths)
		}
	case gen.Array:
		*out = append(*out, tv)
		*depths = append(*depths, depth)
		for _, e := range tv {
			containers(e, depth+1, out, depths)
		}
	case gen.Object:
		*out = append(*out, tv)
		*depths = append(*depths, depth)
		keys := make([]string, 0, len(tv))
		for k := range tv {
			keys = append(keys, k)
		}
		sortStrings(keys)
		for _, k := range keys {
			containers(tv[k], depth+1, out, depths)
		}
	}
}

func sortedKeys(m map[string]any) []string {
	keys := make([]string, 0, len(m))
	for k := range m {
		keys = append(keys, k)
	}
	sortStrings(keys)
	return keys
}

func sortStrings(a []string) {
	for i := 1; i < len(a); i++ {
		for j := i; j > 0 && a[j] < a[j-1]; j-- {
			a[j], a[j-1] = a[j-1], a[j]
		}
	}
}

// mutate applies the script to a tree; reports whether a nested container was hit.
func mutate(root any, muts []Mut) (nested bool) {
	for _, m := range muts {
		var cs []any
		var ds []int
		containers(root, 0, &cs, &ds)
		if len(cs) == 0 {
			return
		}
		i := m.Target % len(cs)
		if ds[i] > 0 {
			nested = true
		}
		switch c := cs[i].(type) {
		case []any:
			if len(c) == 0 {
				continue
			}
			switch m.Kind % 3 {
			case 0:
				c[m.Idx%len(c)] = "MUTATED"
			case 1:
				sub := c[m.Idx%len(c):]
				sub[0] = int64(-424242) // write through a retained sub-slice
			default:
				_ = append(c[:0], "APPENDED") // append into the existing backing array
			}
		case map[string]any:
			keys := sortedKeys(c)
			if m.Kind%2 == 0 || len(keys) == 0 {
				c["MUT"] = "MUTATED"
			} else {
				delete(c, keys[m.Idx%len(keys)])
			}
		case gen.Array:
			if len(c) == 0 {
				continue
			}
			switch m.Kind % 3 {
			case 0:
				c[m.Idx%len(c)] = gen.String("MUTATED")
			case 1:
				sub := c[m.Idx%len(c):]
				sub[0] = gen.Int(-424242)
			default:
				_ = append(c[:0], gen.String("APPENDED"))
			}
		case gen.Object:
			keys := make([]string, 0, len(c))
			for k := range c {
				keys = append(keys, k)
			}
			sortStrings(keys)
			if m.Kind%2 == 0 || len(keys) == 0 {
				c["MUT"] = gen.String("MUTATED")
			} else {
				delete(c, keys[m.Idx%len(keys)])
			}
		}
	}
	return
}

type conv struct {
	name   string
	copies bool // documented as copying: no shared mutable state
	f      func(v any) any
}

// preps turns the simple tree into the input the copying operation really receives (a gen
// tree for the gen copies); the no-shared-state check is between that input and the copy.
var preps = map[string]func(v any) any{
	"gen.Node.Dup(gen input)":      genOf,
	"alt.Dup(gen input)":           genOf,
	"gen.Node.Simplify(gen input)": genOf,
}

func genOf(v any) any {
	g := alt.Generify(v, keepAll)
	if g == nil {
		return nil
	}
	return g
}

var convs = []conv{
	{"alt.Generify->Simplify", true, func(v any) any {
		g := alt.Generify(v, keepAll)
		if g == nil {
			return nil
		}
		return g.Simplify()
	}},
	{"alt.Generify", true, func(v any) any {
		g := alt.Generify(v, keepAll)
		if g == nil {
			return nil
		}
		return g
	}},
	{"gen.Node.Dup", true, func(v any) any {
		g := alt.Generify(v, keepAll)
		if g == nil {
			return nil
		}
		return g.Dup()
	}},
	{"alt.Dup", true, func(v any) any { return alt.Dup(v, keepAll) }},
	{"gen.Node.Dup(gen input)", true, func(v any) any {
		if n, ok := v.(gen.Node); ok {
			return n.Dup()
		}
		return nil
	}},
	{"alt.Dup(gen input)", true, func(v any) any { return alt.Dup(v, keepAll) }},
	{"gen.Node.Simplify(gen input)", true, func(v any) any {
		if n, ok := v.(gen.Node); ok {
			return n.Simplify()
		}
		return nil
	}},
	{"alt.Decompose", true, func(v any) any { return alt.Decompose(v, keepAll) }},
	{"alt.GenAlter->Alter", false, func(v any) any {
		d := canon.Copy(v)
		g := alt.GenAlter(d, keepAll)
		if g == nil {
			return nil
		}
		return g.Alter()
	}},
	{"alt.GenAlter->alt.Alter", false, func(v any) any {
		d := canon.Copy(v)
		g := alt.GenAlter(d, keepAll)
		if g == nil {
			return nil
		}
		return alt.Alter(g, keepAll)
	}},
}

func Run(cs Case, c *vrt.Ctx) {
	tree := wx.Dec(cs.Tree)
	before := canon.String(tree, canon.Typed)
	deep := depthOf(tree) >= 2
	if hasTime(tree) {
		c.Class("has-time")
	}
	c.Sample(map[string]any{"tree": before, "muts": cs.Muts, "on_origin": cs.OnOrigin})
	for _, cv := range convs {
		var out any
		in := tree
		if prep := preps[cv.name]; prep != nil {
			in = prep(tree)
		}
		pv, stack := vrt.Catch(func() { out = cv.f(in) })
		if pv != nil {
			c.Fail("panic", cv.name, fmt.Sprintf("%v at %s on %s", pv, stack, clip(before)))
			continue
		}
		if now := canon.String(tree, canon.Typed); now != before {
			c.Fail("input-modified", cv.name, fmt.Sprintf("the conversion changed its input: %s -> %s", clip(before), clip(now)))
			tree = wx.Dec(cs.Tree)
			continue
		}
		if got := canon.String(out, canon.Typed); got != before {
			c.Fail("value-differs", cv.name, fmt.Sprintf("got %s want %s", clip(got), clip(before)))
			continue
		}
		if !cv.copies || len(cs.Muts) == 0 {
			continue
		}
		// no shared mutable state: mutate one side, the other must not change
		orig := wx.Dec(cs.Tree)
		if prep := preps[cv.name]; prep != nil {
			orig = prep(orig)
		}
		var cp any
		if pv, _ := vrt.Catch(func() { cp = cv.f(orig) }); pv != nil {
			continue
		}
		var nested bool
		if cs.OnOrigin {
			keep := canon.String(cp, canon.Typed)
			nested = mutate(orig, cs.Muts)
			if now := canon.String(cp, canon.Typed); now != keep {
				c.Fail("shares-state", cv.name, fmt.Sprintf("mutating the original changed the copy: %s -> %s (script %+v)", clip(keep), clip(now), cs.Muts), "mutated:original")
			}
		} else {
			nested = mutate(cp, cs.Muts)
			if now := canon.String(orig, canon.Typed); now != before {
				c.Fail("shares-state", cv.name, fmt.Sprintf("mutating the copy changed the original: %s -> %s (script %+v)", clip(before), clip(now), cs.Muts), "mutated:copy")
			}
		}
		if nested && deep {
			c.NonTrivial()
			c.Class("nested-mutation")
		}
	}
	// writers give identical text for gen and simple
	if !hasTime(tree) {
		g := alt.Generify(tree, keepAll)
		var gd any
		if g != nil {
			gd = g
		}
		sortOpt := &ojg.Options{Sort: true}
		sortOpt2 := &ojg.Options{Sort: true, Indent: 2}
		omitNil := &ojg.Options{Sort: true, OmitNil: true}
		omitEmpty := &ojg.Options{Sort: true, OmitEmpty: true, Indent: 1}
		for _, w := range []struct {
			name string
			f    func(v any) string
		}{
			{"oj.JSON", func(v any) string { return oj.JSON(v, sortOpt) }},
			{"oj.JSON(indent)", func(v any) string { return oj.JSON(v, sortOpt2) }},
			{"sen.String", func(v any) string { return sen.String(v, sortOpt) }},
			{"sen.String(indent)", func(v any) string { return sen.String(v, sortOpt2) }},
			{"pretty.JSON", func(v any) string { return pretty.JSON(v, sortOpt, 40.3) }},
			{"pretty.SEN", func(v any) string { return pretty.SEN(v, sortOpt, 40.3) }},
			// the options that leave members out decide per node kind, once for the simple and once
			// for the gen form of every kind
			{"oj.JSON(OmitNil)", func(v any) string { return oj.JSON(v, omitNil) }},
			{"oj.JSON(OmitEmpty)", func(v any) string { return oj.JSON(v, omitEmpty) }},
			{"sen.String(OmitNil)", func(v any) string { return sen.String(v, omitNil) }},
			{"sen.String(OmitEmpty)", func(v any) string { return sen.String(v, omitEmpty) }},
			{"pretty.JSON(OmitNil)", func(v any) string { return pretty.JSON(v, omitNil, 40.3) }},
			{"pretty.JSON(OmitEmpty)", func(v any) string { return pretty.JSON(v, omitEmpty, 40.3) }},
			{"pretty.SEN(OmitNil)", func(v any) string { return pretty.SEN(v, omitNil, 40.3) }},
		} {
			var a, b string
			if pv, stack := vrt.Catch(func() { a, b = w.f(tree), w.f(gd) }); pv != nil {
				c.Fail("panic", w.name, fmt.Sprintf("%v at %s", pv, stack))
				continue
			}
			if a != b {
				c.Fail("writer-text-differs", w.name, fmt.Sprintf("simple: %s gen: %s", clip(a), clip(b)))
			}
		}
		// gen.Parser(text) == Generify(oj.Parser(text))
		text := oj.JSON(tree, sortOpt)
		sp := oj.Parser{}
		gp := gen.Parser{}
		if len(text)%3 == 0 {
			// every third text goes to a parser whose last call a reader error ended with
			// containers open (C07 says it is as good as new)
			gp = *vet.GenParserAfterAbort()
		}
		sv, err1 := sp.Parse([]byte(text))
		gv, err2 := gp.Parse([]byte(text))
		if (err1 != nil) != (err2 != nil) {
			c.Fail("parser-error-differs", "gen.Parser", fmt.Sprintf("oj: %v gen: %v on %s", err1, err2, clip(text)))
		} else if err1 == nil {
			gs := alt.Generify(sv, keepAll)
			var x, y any
			if gs != nil {
				x = gs
			}
			if gv != nil {
				y = gv
			}
			if !sameKinds(x, y) {
				c.Fail("gen-parser-differs", "gen.Parser", fmt.Sprintf("Generify(oj.Parse)=%s gen.Parse=%s on %s", clip(canon.String(x, canon.Typed)), clip(canon.String(y, canon.Typed)), clip(text)))
			}
			// the same through the reader entry point, however the text arrives (1, 2, 3, 5 and 7
			// byte reads put every token boundary and every string start on a chunk end), also
			// for the indented text and on a parser that has read other documents before
			// other spellings of the same numbers (integer mantissa with an exponent, upper case
			// exponent, trailing zeros): the two parsers finish a number in code of their own
			// ... and the indented text with CR LF line ends (and bare CR), respelled or not
			crlf := strings.ReplaceAll(oj.JSON(tree, &ojg.Options{Sort: true, Indent: 2}), "\n", "\r\n")
			cr := strings.ReplaceAll(oj.JSON(tree, &ojg.Options{Sort: true, Indent: 1}), "\n", "\r")
			for mode := 1; mode <= 14; mode++ {
				src := text
				switch mode / 5 {
				case 1:
					src = crlf
				case 2:
					src = cr
				}
				// mode%5 == 4: whole numbers written with a fraction part of zeros (1.0): a float64
				// from oj.Parser, so a gen.Float from gen.Parser
				rt := gx.RespellFloats([]byte(src), mode%5)
				if string(rt) == text {
					continue
				}
				c.Class("respelled-floats")
				rsp, rgp := oj.Parser{}, gen.Parser{}
				rsv, rerr1 := rsp.Parse(rt)
				rgv, rerr2 := rgp.Parse(rt)
				if rerr1 != nil || rerr2 != nil {
					c.Fail("parser-error-differs", "gen.Parser", fmt.Sprintf("oj: %v gen: %v on the respelled text %s", rerr1, rerr2, clip(string(rt))))
					continue
				}
				var rx, ry any
				if g := alt.Generify(rsv, keepAll); g != nil {
					rx = g
				}
				if rgv != nil {
					ry = rgv
				}
				if !sameKinds(rx, ry) {
					c.Fail("gen-parser-differs", "gen.Parser", fmt.Sprintf("Generify(oj.Parse)=%s gen.Parse=%s on the respelled text %s", clip(canon.String(rx, canon.Typed)), clip(canon.String(ry, canon.Typed)), clip(string(rt))))
				}
			}
			// a stream of documents (the tree, the tree with every other member and element taken
			// out, the tree again) through parsers that recycle their maps (Reuse) and hand each
			// document to a callback: what gen.Parser delivers, looked at when it is delivered, is
			// Generify of what oj.Parser delivers
			stream := text + "\n" + oj.JSON(thinned(tree), sortOpt) + " " + text + "\n" + oj.JSON(thinned(thinned(tree)), sortOpt)
			for _, reuse := range []bool{true, false} {
				for _, size := range []int{0, 1, 5} {
					var want, got []string
					op := oj.Parser{Reuse: reuse}
					gpr := gen.Parser{Reuse: reuse}
					ocb := func(v any) bool {
						var gv any
						if g := alt.Generify(v, keepAll); g != nil {
							gv = g
						}
						want = append(want, canon.String(gv, canon.Typed))
						return false
					}
					gcb := func(n gen.Node) bool {
						var gv any
						if n != nil {
							gv = n
						}
						got = append(got, canon.String(gv, canon.Typed))
						return false
					}
					var oerr, gerr error
					if pv, stack := vrt.Catch(func() {
						if size == 0 {
							_, oerr = op.Parse([]byte(stream), ocb)
							_, gerr = gpr.Parse([]byte(stream), gcb)
						} else {
							_, oerr = op.ParseReader(&sizedReader{data: []byte(stream), size: size}, ocb)
							_, gerr = gpr.ParseReader(&sizedReader{data: []byte(stream), size: size}, gcb)
						}
					}); pv != nil {
						c.Fail("panic", "gen.Parser(stream)", fmt.Sprintf("%v at %s", pv, stack))
						continue
					}
					where := fmt.Sprintf("gen.Parser(stream,reuse=%v,reads=%d)", reuse, size)
					if oerr != nil || gerr != nil {
						c.Fail("parser-error-differs", where, fmt.Sprintf("oj: %v gen: %v on %s", oerr, gerr, clip(stream)))
					} else if strings.Join(want, "\x00") != strings.Join(got, "\x00") {
						c.Fail("gen-parser-differs", where, fmt.Sprintf("Generify(oj.Parser) delivers %s gen.Parser delivers %s on %s", clip(strings.Join(want, " | ")), clip(strings.Join(got, " | ")), clip(stream)))
					}
				}
			}
			for _, txt := range []string{text, oj.JSON(tree, &ojg.Options{Sort: true, Indent: 2})} {
				for _, size := range []int{1, 2, 3, 5, 7} {
					gr := &gen.Parser{}
					if size == 3 {
						gr = vet.GenParser()
					}
					if size == 5 {
						// a parser whose last call a reader error ended with containers open
						gr = vet.GenParserAfterAbort()
					}
					rv, rerr := gr.ParseReader(&sizedReader{data: []byte(txt), size: size})
					var z any
					if rv != nil {
						z = rv
					}
					if rerr != nil {
						c.Fail("parser-error-differs", "gen.Parser.ParseReader", fmt.Sprintf("%d byte reads: %v on %s", size, rerr, clip(txt)))
					} else if !sameKinds(x, z) {
						c.Fail("gen-parser-differs", "gen.Parser.ParseReader", fmt.Sprintf("%d byte reads: Generify(oj.Parse)=%s gen.ParseReader=%s on %s", size, clip(canon.String(x, canon.Typed)), clip(canon.String(z, canon.Typed)), clip(txt)))
					}
				}
			}
		}
	}
}

// sameKinds: the same tree with the same number kinds. Plain integers in the top decade of int64
// come back as int64 or as big text depending on how the text arrives (C02-K1, pinned by the
// repository's tests): with one of those in the tree only the values are compared.
func sameKinds(a, b any) bool {
	if !canon.Same(a, b) {
		return false
	}
	ta, tb := canon.String(a, canon.Typed), canon.String(b, canon.Typed)
	return ta == tb || strings.Contains(ta, "922337203685477580") || strings.Contains(tb, "922337203685477580")
}

// thinned gives a copy of the tree without every other member (in key order) of each map and
// every other element of each array.
func thinned(v any) any {
	switch tv := v.(type) {
	case map[string]any:
		keys := make([]string, 0, len(tv))
		for k := range tv {
			keys = append(keys, k)
		}
		sort.Strings(keys)
		out := map[string]any{}
		for i, k := range keys {
			if i%2 == 0 {
				out[k] = thinned(tv[k])
			}
		}
		return out
	case []any:
		out := []any{}
		for i, e := range tv {
			if i%2 == 0 {
				out = append(out, thinned(e))
			}
		}
		return out
	}
	return v
}

// sizedReader hands out its data in reads of a fixed size.
type sizedReader struct {
	data []byte
	size int
}

func (r *sizedReader) Read(p []byte) (int, error) {
	if len(r.data) == 0 {
		return 0, io.EOF
	}
	n := r.size
	if len(p) < n {
		n = len(p)
	}
	if len(r.data) < n {
		n = len(r.data)
	}
	copy(p, r.data[:n])
	r.data = r.data[n:]
	return n, nil
}

func clip(s string) string {
	if len(s) > 260 {
		return s[:180] + "…" + s[len(s)-60:]
	}
	return s
}

func withTimes(t *rapid.T, v any) any {
	switch tv := v.(type) {
	case []any:
		for i, e := range tv {
			tv[i] = withTimes(t, e)
		}
	case map[string]any:
		for k, e := range tv {
			tv[k] = withTimes(t, e)
		}
	case string:
		if rapid.IntRange(0, 5).Draw(t, "astime") == 0 {
			tm := time.Unix(rapid.Int64Range(-1e9, 4e9).Draw(t, "sec"), int64(rapid.IntRange(0, 999999999).Draw(t, "ns"))).UTC()
			if off := rapid.SampledFrom([]int{0, 0, 3600, -5 * 3600, 19800, -34200}).Draw(t, "zone"); off != 0 {
				// a time keeps its location through the conversions ("preserve the value exactly")
				tm = tm.In(time.FixedZone("", off))
			}
			return tm
		}
	}
	return v
}

func drawCase(t *rapid.T) Case {
	tree := gx.Tree(t, gx.TreeOpts{MaxDepth: 5, MaxMembers: 4, DeepOK: true})
	if rapid.IntRange(0, 2).Draw(t, "cont") != 0 {
		tree = gx.Container(t, gx.TreeOpts{MaxDepth: 5, MaxMembers: 4})
	}
	if rapid.IntRange(0, 3).Draw(t, "times") == 0 {
		tree = withTimes(t, tree)
	}
	n := rapid.IntRange(0, 3).Draw(t, "nmuts")
	cs := Case{Tree: wx.Enc(tree), OnOrigin: rapid.Bool().Draw(t, "onorigin")}
	for i := 0; i < n; i++ {
		cs.Muts = append(cs.Muts, Mut{rapid.IntRange(0, 40).Draw(t, "mt"), rapid.IntRange(0, 5).Draw(t, "mk"), rapid.IntRange(0, 9).Draw(t, "mi")})
	}
	return cs
}

func TestPropRandom(t *testing.T) {
	vrt.Rapid(t, suite, "convert", vrt.Scale(15000, 100000), drawCase, Run)
}

func TestReplay(t *testing.T) { suite.ReplayAll(t) }

var classifiers = []vrt.Classifier{}
