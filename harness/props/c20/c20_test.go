// Package c20 decides C20: assembly plans evaluate totally, deterministically and as
// documented.
package c20

import (
	"encoding/json"
	"fmt"
	"math"
	"os"
	"reflect"
	"regexp"
	"sort"
	"strconv"
	"strings"
	"testing"
	"time"

	"github.com/ohler55/ojg/asm"
	"github.com/ohler55/ojg/jp"
	"github.com/ohler55/ojg/sen"
	"pgregory.net/rapid"

	"verif/internal/canon"
	"verif/internal/vrt"
	"verif/internal/wx"
)

var suite = vrt.NewSuite("C20", "(plan array, root document): plans are generated from a typed grammar over all documented functions except inspect (arithmetic, comparison, logic, cond, get / getall / set / setall / del / delall, at / root, list and string functions, predicates, conversions, time, zone, each, quote, asm) with literals, $.src / $.asm / @ paths and nested calls to depth 3 as arguments, 1-5 steps per plan (a quarter start with a path or a plain string whose value the next step reads through @, with the asm name written or implied), and a generated share of arguments of the wrong kind, wrong arity and hostile values (0, -0.0, 2^53+1, MinInt64, empty strings and lists, non ASCII text); roots hold typed slots under $.src (ints, floats, strings, booleans, null, lists with spare capacity, lists of maps, nested maps). Oracles: (totality) asm.NewPlan, Plan.Execute, String and Simplify never panic or hang; (determinism) two executions on equal roots give equal roots and the same error status; (documented semantics) a reference evaluator written from the function descriptions in asm/doc.go decides the resulting root or that an error is due, and gives up where a description is silent; (round trip) the plan rebuilt from String() and from Simplify() behaves the same; (non-interference) $.src is unchanged unless the plan holds a set / setall / del / delall whose target is not a $.asm slot. Non-trivial = the reference decided the outcome and the plan has a nested call or a path argument; distinct = distinct (plan, root)")

type Case struct {
	Plan any `json:"plan"` // wx.Enc of the plan array
	Root any `json:"root"` // wx.Enc of the root
}

func TestMain(m *testing.M) {
	vrt.InitRapid()
	vrt.RegisterReplay(suite, "plan", Run)
	suite.Register(classifiers...)
	vrt.Main(m, suite)
}

// spare gives every list spare capacity, as parsed documents have.
func spare(v any) any {
	switch tv := v.(type) {
	case []any:
		out := make([]any, len(tv), len(tv)+3)
		for i, e := range tv {
			out[i] = spare(e)
		}
		return out
	case map[string]any:
		out := make(map[string]any, len(tv))
		for k, e := range tv {
			out[k] = spare(e)
		}
		return out
	}
	return v
}

func freshRoot(cs Case) map[string]any {
	r, _ := spare(wx.Dec(cs.Root)).(map[string]any)
	if r == nil {
		r = map[string]any{}
	}
	return r
}

func freshPlan(cs Case) []any {
	p, _ := wx.Dec(cs.Plan).([]any)
	return p
}

type outcome struct {
	err   string
	root  string
	src   string
	panic string
}

func execute(plan []any, root map[string]any) (out outcome) {
	var p *asm.Plan
	if pv, stack := vrt.Catch(func() { p = asm.NewPlan(plan) }); pv != nil {
		out.panic = fmt.Sprintf("NewPlan: %v at %s", pv, stack)
		return
	}
	if p == nil {
		out.err = "nil plan"
		return
	}
	return run(p, root)
}

func run(p *asm.Plan, root map[string]any) (out outcome) {
	if pv, stack := vrt.Catch(func() {
		if err := p.Execute(root); err != nil {
			out.err = err.Error()
		}
	}); pv != nil {
		out.panic = fmt.Sprintf("Execute: %v at %s", pv, stack)
		return
	}
	out.root = render(root, 0)
	out.src = render(root["src"], 0)
	return
}

// render is canon.String(v, canon.Typed) for values that may contain themselves (a plan can
// store the root inside itself): a container met again on the way down is written as <cycle>.
// (A depth limit alone is not enough: four references to the root in the root make 4^depth
// copies to write - found by the thorough tier as a case that did not return in 30 s.)
func render(v any, depth int) string {
	return renderOn(v, depth, map[uintptr]bool{})
}

func renderOn(v any, depth int, onPath map[uintptr]bool) string {
	if depth > 12 {
		return "<deep>"
	}
	switch tv := v.(type) {
	case []any:
		if len(tv) > 0 {
			p := reflect.ValueOf(tv).Pointer()
			if onPath[p] {
				return "<cycle>"
			}
			onPath[p] = true
			defer delete(onPath, p)
		}
		parts := make([]string, len(tv))
		for i, e := range tv {
			parts[i] = renderOn(e, depth+1, onPath)
		}
		return "[" + strings.Join(parts, ",") + "]"
	case map[string]any:
		p := reflect.ValueOf(tv).Pointer()
		if onPath[p] {
			return "<cycle>"
		}
		onPath[p] = true
		defer delete(onPath, p)
		keys := make([]string, 0, len(tv))
		for k := range tv {
			keys = append(keys, k)
		}
		sort.Strings(keys)
		parts := make([]string, len(keys))
		for i, k := range keys {
			parts[i] = strconv.Quote(k) + ":" + renderOn(tv[k], depth+1, onPath)
		}
		return "{" + strings.Join(parts, ",") + "}"
	case float64:
		if tv == 0 {
			tv = 0 // the sign of a zero is not part of any description
		}
		return canon.String(tv, canon.Typed)
	case jp.Expr:
		return "path:" + tv.String()
	case time.Time:
		return "t:" + tv.Format(time.RFC3339Nano)
	}
	return canon.String(v, canon.Typed)
}

func same(a, b outcome) bool {
	return (a.err != "") == (b.err != "") && (a.err != "" || a.root == b.root) && a.panic == "" && b.panic == ""
}

func reference(cs Case, plan []any, zoneSeconds bool) (r *ref, refErr, refOpen string) {
	r = &ref{root: freshRoot(cs), feats: map[string]bool{}, zoneSeconds: zoneSeconds}
	defer func() {
		switch tv := recover().(type) {
		case nil:
		case refError:
			refErr = tv.msg
		case refUnspec:
			refOpen = tv.why
		default:
			refOpen = fmt.Sprintf("reference gave up: %v", tv)
		}
	}()
	p := plan
	if name, _, ok := isCall(plan); !ok || name == "" {
		p = append([]any{"asm"}, plan...)
	}
	r.evalArg(r.root, p)
	return
}

// walk calls f for every call in the plan.
func walk(v any, f func(name string, args []any)) {
	list, _ := v.([]any)
	if name, args, ok := isCall(v); ok {
		f(name, args)
	}
	for _, e := range list {
		walk(e, f)
	}
}

func Run(cs Case, c *vrt.Ctx) {
	if p := os.Getenv("VERIF_TRACE_CASE"); p != "" {
		// debugging aid: the case that was running when the process died
		if b, err := json.Marshal(cs); err == nil {
			_ = os.WriteFile(fmt.Sprintf("%s.%d", p, os.Getpid()), b, 0o644)
		}
	}
	plan := freshPlan(cs)
	if len(plan) == 0 {
		c.DontCare("empty plan")
		return
	}
	planText := clip(canon.String(plan, canon.Typed))
	rootText := clip(canon.String(freshRoot(cs), canon.Typed))
	c.Sample(map[string]any{"plan": planText, "root": rootText})
	mutSrc, nested, hasPath, integralFloat := false, false, false, false
	depth := 0
	walk(plan, func(name string, args []any) {
		depth++
		switch name {
		case "set", "setall", "del", "delall":
			if len(args) > 0 {
				s, _ := args[0].(string)
				rest := strings.TrimPrefix(s, "$.asm.")
				if rest == s || strings.ContainsAny(rest, ".[*?@") {
					mutSrc = true
				}
			}
		case "each":
			mutSrc = true // its function works on a local map that holds the element itself
		}
		for _, a := range args {
			if _, _, ok := isCall(a); ok {
				nested = true
			}
			if _, ok := isPath(a); ok {
				hasPath = true
			}
		}
	})
	var scan func(v any)
	scan = func(v any) {
		switch tv := v.(type) {
		case float64:
			if tv == math.Trunc(tv) && !math.IsInf(tv, 0) {
				integralFloat = true
			}
		case int64:
			if tv >= 1e18 || tv <= -1e18 {
				integralFloat = true // 19 digits: read back from text as a json.Number (C02-K1)
			}
		case []any:
			for _, e := range tv {
				scan(e)
			}
		case map[string]any:
			for _, e := range tv {
				scan(e)
			}
		}
	}
	scan(plan)

	// A plan can store the root (or $.asm) inside $.asm; string, equal / neq and include then
	// recurse without end on the cyclic value and the process dies with a stack overflow
	// that no recover catches (known finding C20-K3). Such plans are counted, not executed.
	deepFn := false
	walk(plan, func(name string, args []any) {
		switch name {
		case "string", "equal", "eq", "==", "neq", "!=", "include", "inspect":
			deepFn = true
		}
	})
	if deepFn {
		// a set that stores a container inside itself (the value reads a prefix of the target:
		// [set @.asm @] in an each body, [set "$.src.ints[1]" $.src.ints]) can make and use the
		// cycle within one step, where the stepwise search below does not see it
		static := false
		walk(plan, func(name string, args []any) {
			if (name != "set" && name != "setall") || len(args) != 2 {
				return
			}
			target, _ := args[0].(string)
			var scan func(v any)
			scan = func(v any) {
				switch tv := v.(type) {
				case string:
					if tv == "$" || (tv == "@" && strings.HasPrefix(target, "@")) || (len(tv) > 1 && (target == tv || strings.HasPrefix(target, tv+".") || strings.HasPrefix(target, tv+"["))) {
						static = true
					}
				case []any:
					for _, e := range tv {
						scan(e)
					}
				}
			}
			scan(args[1])
		})
		if static {
			c.Fail("crash-by-construction", "Plan.Execute", "the plan stores a container inside itself and applies string / equal / include (not executed); "+ctxOf(planText, rootText), "cyclic-root-then-deep-function")
			return
		}
		// run the plan step by step (prefixes of the top level sequence, each on a fresh root)
		// and look for a cycle in the root before the next step runs
		steps := plan
		if name, args, ok := isCall(plan); ok && name == "asm" {
			steps = args
		} else if ok {
			steps = nil // a single call: nothing runs before it
		}
		for k := 1; k < len(steps); k++ {
			root := freshRoot(cs)
			prefix := append([]any{"asm"}, canon.Copy(steps[:k]).([]any)...)
			// a deep function in this prefix runs on a root that the previous round found
			// acyclic, so the prefix is safe to execute
			if o := execute(prefix, root); o.panic != "" {
				break
			}
			if isCyclic(root, map[uintptr]bool{}) {
				c.Fail("crash-by-construction", "Plan.Execute", "the plan makes the root cyclic and then applies string / equal / include (not executed); "+ctxOf(planText, rootText), "cyclic-root-then-deep-function")
				return
			}
		}
	}
	// reference
	r, refErr, refOpen := reference(cs, plan, false)
	var tags []string
	for f := range r.feats {
		c.Tag(f)
		if !strings.HasPrefix(f, "fn:") {
			tags = append(tags, f)
		}
	}
	sort.Strings(tags)
	switch {
	case refOpen != "":
		c.Class("reference:open")
	case refErr != "":
		c.Class("reference:error-due")
	default:
		c.Class("reference:value")
	}
	if refOpen == "" && (nested || hasPath) {
		c.NonTrivial()
	}
	ctx := fmt.Sprintf("plan=%s root=%s", planText, rootText)

	// totality
	first := execute(freshPlan(cs), freshRoot(cs))
	if first.panic != "" {
		c.Fail("panic", "asm", first.panic+"; "+ctx, tags...)
		return
	}
	// determinism
	second := execute(freshPlan(cs), freshRoot(cs))
	if !same(first, second) {
		c.Fail("nondeterministic", "Plan.Execute", fmt.Sprintf("first %s second %s; %s", show(first), show(second), ctx), tags...)
	}
	// a plan is a value that can be executed any number of times: after a run on another root (the
	// same document with every leaf of $.src changed) a run on this root gives what a new plan gives
	{
		var p *asm.Plan
		vrt.Catch(func() { p = asm.NewPlan(freshPlan(cs)) })
		if p != nil {
			other := freshRoot(cs)
			other["src"] = varied(other["src"])
			if o := run(p, other); o.panic == "" {
				again := run(p, freshRoot(cs))
				if !same(first, again) {
					w, g := window(show(first), show(again))
					t := tags
					if planHasContainerLiteral(plan) {
						t = append(append([]string{}, tags...), "container-literal-in-plan")
					}
					c.Fail("second-execution-differs", "Plan.Execute", fmt.Sprintf("a new plan gives …%s… the same plan after a run on another root gives …%s…; %s", w, g, ctx), t...)
				}
			}
		}
	}
	// documented semantics
	if refOpen == "" {
		switch {
		case refErr != "" && first.err == "":
			t := tags
			if r.feats["zone-minutes"] {
				// the recorded finding C20-K2 (zone reads seconds where its description says minutes)
				// can change which branch a plan takes: attributed only when the reference in the
				// seconds reading gives exactly the outcome
				// (no error is due in that reading: it gives this result, or leaves the case open)
				if r2, e2, o2 := reference(cs, freshPlan(cs), true); e2 == "" && (o2 != "" || render(r2.root, 0) == first.root) {
					t = append(append([]string{}, tags...), "explained-by-zone-seconds")
				}
			}
			c.Fail("no-error", "Plan.Execute", fmt.Sprintf("an error is due (%s) but the plan completed with %s; %s", refErr, clip(first.root), ctx), t...)
		case refErr == "" && first.err != "":
			t := tags
			if r.feats["zone-minutes"] {
				if _, e2, o2 := reference(cs, freshPlan(cs), true); e2 != "" || o2 != "" {
					t = append(append([]string{}, tags...), "explained-by-zone-seconds")
				}
			}
			c.Fail("unexpected-error", "Plan.Execute", fmt.Sprintf("%s; expected %s; %s", clip(first.err), clip(render(r.root, 0)), ctx), t...)
		case refErr == "":
			if want := render(r.root, 0); want != first.root {
				w, g := window(want, first.root)
				t := tags
				if r.feats["zone-minutes"] {
					if r2, e2, o2 := reference(cs, freshPlan(cs), true); e2 == "" && o2 == "" && render(r2.root, 0) == first.root {
						t = append(append([]string{}, tags...), "explained-by-zone-seconds")
					}
				}
				c.Fail("wrong-result", "Plan.Execute", fmt.Sprintf("want …%s… got …%s…; %s", w, g, ctx), t...)
			}
		}
	}
	// non-interference with $.src
	if !mutSrc && first.err == "" {
		c.Class("src-must-not-change")
		if before := render(freshRoot(cs)["src"], 0); before != first.src {
			c.Fail("src-changed", "Plan.Execute", fmt.Sprintf("$.src was %s and is %s; %s", clip(before), clip(first.src), ctx), tags...)
		}
	}
	// String() and Simplify() round trips
	var p *asm.Plan
	vrt.Catch(func() { p = asm.NewPlan(freshPlan(cs)) })
	if p == nil {
		return
	}
	var text string
	var simple any
	// executing a plan leaves its text as it was (what a plan compiles while it runs is its own
	// business, what it prints is the plan)
	if first.err == "" {
		var before, after string
		var px *asm.Plan
		vrt.Catch(func() { px = asm.NewPlan(freshPlan(cs)) })
		if px != nil {
			if pv, _ := vrt.Catch(func() { before = px.String(); _ = run(px, freshRoot(cs)); after = px.String() }); pv == nil && !sameText(before, after) {
				c.Fail("text-changed-by-execution", "Plan.String", fmt.Sprintf("before %s after %s; %s", clip(before), clip(after), ctx), tags...)
			}
		}
	}
	if pv, stack := vrt.Catch(func() { text = p.String(); simple = p.Simplify() }); pv != nil {
		c.Fail("panic", "Plan.String", fmt.Sprintf("%v at %s; %s", pv, stack, ctx), tags...)
		return
	}
	if arr, ok := simple.([]any); ok {
		third := execute(canon.Copy(arr).([]any), freshRoot(cs))
		if !same(first, third) {
			c.Fail("simplify-round-trip", "Plan.Simplify", fmt.Sprintf("original %s rebuilt %s; simplified %s; %s", show(first), show(third), clip(canon.String(arr, canon.Typed)), ctx), tags...)
		}
	} else {
		c.Fail("simplify-round-trip", "Plan.Simplify", fmt.Sprintf("Simplify gave a %T; %s", simple, ctx), tags...)
	}
	if integralFloat {
		// 2.0 is written as 2 and read back as an integer: number kinds are not part of
		// what SEN text keeps (C03), so the text form of such a plan is not compared
		c.Class("string-round-trip-skipped(integral float or 19 digit literal)")
		return
	}
	parsed, err := sen.Parse([]byte(text))
	arr, ok := parsed.([]any)
	if err != nil || !ok {
		t := tags
		if barePlusMinus.MatchString(text) {
			t = append(append([]string{}, tags...), "bare-plus-or-minus-name")
		}
		c.Fail("string-round-trip", "Plan.String", fmt.Sprintf("String() %q does not parse to an array: %v; %s", clip(text), err, ctx), t...)
		return
	}
	fourth := execute(arr, freshRoot(cs))
	if !same(first, fourth) {
		w, g := window(show(first), show(fourth))
		c.Fail("string-round-trip", "Plan.String", fmt.Sprintf("original …%s… rebuilt …%s…; text %s; %s", w, g, clip(text), ctx), tags...)
	}
}

// sameText: the same plan text but for the order in which the members of maps are written (Plan.String
// does not sort them). Texts that do not read back (C20-K1) are compared as bags of bytes.
func sameText(a, b string) bool {
	if a == b {
		return true
	}
	pa, ea := sen.Parse([]byte(a))
	pb, eb := sen.Parse([]byte(b))
	if ea == nil && eb == nil {
		return canon.String(pa, canon.Typed) == canon.String(pb, canon.Typed)
	}
	x, y := []byte(a), []byte(b)
	sort.Slice(x, func(i, j int) bool { return x[i] < x[j] })
	sort.Slice(y, func(i, j int) bool { return y[i] < y[j] })
	return string(x) == string(y)
}

// varied gives the same shape with every leaf changed.
func varied(v any) any {
	switch tv := v.(type) {
	case map[string]any:
		out := map[string]any{}
		for k, e := range tv {
			out[k] = varied(e)
		}
		return out
	case []any:
		out := make([]any, len(tv))
		for i, e := range tv {
			out[len(tv)-1-i] = varied(e)
		}
		return out
	case int64:
		return tv + 1
	case float64:
		return tv + 0.5
	case string:
		return tv + "~"
	case bool:
		return !tv
	}
	return v
}

// planHasContainerLiteral: a map, or an array that is not a call, somewhere in the plan.
func planHasContainerLiteral(plan any) bool {
	switch tv := plan.(type) {
	case map[string]any:
		return true
	case []any:
		if _, _, ok := isCall(tv); !ok {
			return true
		}
		for _, e := range tv {
			if planHasContainerLiteral(e) {
				return true
			}
		}
	}
	return false
}

// window cuts both strings around their first difference.
func window(a, b string) (string, string) {
	i := 0
	for i < len(a) && i < len(b) && a[i] == b[i] {
		i++
	}
	lo := i - 40
	if lo < 0 {
		lo = 0
	}
	cut := func(s string) string {
		hi := i + 60
		if hi > len(s) {
			hi = len(s)
		}
		if lo > len(s) {
			return ""
		}
		return s[lo:hi]
	}
	return cut(a), cut(b)
}

// the function names - and + written bare by the SEN writer (C10-K1)
var barePlusMinus = regexp.MustCompile(`\[[-+][ \]]`)

// isCyclic reports whether a container is reachable from itself.
func isCyclic(v any, onPath map[uintptr]bool) bool {
	var id uintptr
	switch tv := v.(type) {
	case map[string]any:
		id = reflect.ValueOf(tv).Pointer()
	case []any:
		if len(tv) == 0 {
			return false
		}
		id = reflect.ValueOf(tv).Pointer()
	default:
		return false
	}
	if onPath[id] {
		return true
	}
	onPath[id] = true
	defer delete(onPath, id)
	switch tv := v.(type) {
	case map[string]any:
		for _, e := range tv {
			if isCyclic(e, onPath) {
				return true
			}
		}
	case []any:
		for _, e := range tv {
			if isCyclic(e, onPath) {
				return true
			}
		}
	}
	return false
}

func ctxOf(planText, rootText string) string {
	return fmt.Sprintf("plan=%s root=%s", planText, rootText)
}

func show(o outcome) string {
	switch {
	case o.panic != "":
		return "panic " + clip(o.panic)
	case o.err != "":
		return "error " + clip(o.err)
	}
	return o.root
}

func clip(s string) string {
	if len(s) > 700 {
		return s[:700] + "…"
	}
	return s
}

// ---- generators ----

var (
	intPool   = []int64{0, 1, -1, 2, 3, 5, 7, 10, 60, 100, -60, 1 << 31, 1 << 53, 1<<53 + 1, math.MaxInt64, math.MinInt64, 9999999999, 10000000000}
	floatPool = []float64{0, math.Copysign(0, -1), 1.5, -2.25, 0.1, 2, 1e21, 3.75, 1e-7}
	strPool   = []string{"", "a", "abc", "Hello World", "  pad  ", "x,y,z", "é", "日本", "10", "1.5", "2021-03-04T05:06:07Z", "$x", "@", "b"}
	srcInts   = []string{"$.src.i1", "$.src.i2", "$.src.ints[0]", "$.src.ints[-1]", "$.src.objs[1].v", "$.src.deep.a.n"}
	srcFloats = []string{"$.src.f1", "$.src.f2"}
	srcStrs   = []string{"$.src.s1", "$.src.s2", "$.src.strs[0]", "$.src.objs[0].k", "$.src.deep.a.s"}
	srcBools  = []string{"$.src.b1", "$.src.b2"}
	srcLists  = []string{"$.src.ints", "$.src.strs", "$.src.objs", "$.src.empty", "$.src.mixed"}
	srcMaps   = []string{"$.src.m", "$.src.deep", "$.src.deep.a", "$.src.objs[0]", "$.src.mn1", "$.src.mn2"}
	srcOther  = []string{"$.src.n1", "$.src.missing", "$.src", "$", "@", "@.src", "$.asm.r0", "$.asm"}
)

func pick[T any](t *rapid.T, pool []T, label string) T {
	return pool[rapid.IntRange(0, len(pool)-1).Draw(t, label)]
}

type gen struct {
	t *rapid.T
	// at: what the local value (@) is at this point of the plan when an earlier step replaced
	// it by a known map ("" = the root): local paths are then generated too
	at string
}

// members of the maps a plan step can make the local value
var atInts = map[string][]string{"$.src.m": {"@.x"}, "$.src.deep.a": {"@.n"}, "$.src.objs[0]": {"@.v"}, "$.src": {"@.i1", "@.i2"}}
var atStrs = map[string][]string{"$.src.m": {"@.y"}, "$.src.deep.a": {"@.s"}, "$.src.objs[0]": {"@.k"}, "$.src": {"@.s1", "@.s2"}}

// wrong returns an argument of another kind than wanted (literal, path or call).
func (g *gen) wrong(kind string, depth int) any {
	kinds := []string{"int", "float", "str", "bool", "list", "map", "nil"}
	for {
		k := pick(g.t, kinds, "wrongkind")
		if k != kind && !(kind == "num" && (k == "int" || k == "float")) {
			return g.expr(k, depth)
		}
	}
}

func (g *gen) arg(kind string, depth int) any {
	if rapid.IntRange(0, 39).Draw(g.t, "illtyped") == 0 {
		return g.wrong(kind, depth)
	}
	return g.expr(kind, depth)
}

func (g *gen) expr(kind string, depth int) any {
	leaf := depth <= 0 || rapid.IntRange(0, 2).Draw(g.t, "leaf") == 0
	switch kind {
	case "nil":
		if leaf {
			return pick(g.t, []any{nil, "$.src.n1", "$.src.missing"}, "nil")
		}
		return []any{"nth", g.expr("list", depth-1), int64(99)}
	case "num":
		if rapid.Bool().Draw(g.t, "numint") {
			return g.expr("int", depth)
		}
		return g.expr("float", depth)
	case "int":
		if leaf {
			if rapid.Bool().Draw(g.t, "lit") {
				return pick(g.t, intPool, "int")
			}
			if g.at != "" && rapid.Bool().Draw(g.t, "local") {
				return pick(g.t, atInts[g.at], "localint")
			}
			return pick(g.t, srcInts, "intpath")
		}
		switch rapid.IntRange(0, 9).Draw(g.t, "intfn") {
		case 0, 1:
			return g.call(pick(g.t, []string{"sum", "+"}, "n"), "int", 1, 3, depth)
		case 2:
			return g.call(pick(g.t, []string{"dif", "-"}, "n"), "int", 1, 3, depth)
		case 3:
			return g.call(pick(g.t, []string{"product", "*"}, "n"), "int", 1, 3, depth)
		case 4:
			return g.call(pick(g.t, []string{"quotient", "/"}, "n"), "int", 2, 3, depth)
		case 5:
			return []any{"mod", g.arg("int", depth-1), g.arg("int", depth-1)}
		case 6:
			return []any{"size", g.arg(pick(g.t, []string{"str", "list", "map"}, "sizeof"), depth-1)}
		case 7:
			return []any{"int", g.arg(pick(g.t, []string{"str", "float", "int"}, "intof"), depth-1)}
		case 8:
			return []any{"nth", g.arg("list", depth-1), g.arg("int", depth-1)}
		default:
			if rapid.IntRange(0, 3).Draw(g.t, "builtpath") == 0 {
				// a path put together when the step runs, from a name found in the data
				return []any{"get", []any{pick(g.t, []string{"root", "at"}, "builder"), "src", pick(g.t, []string{"$.src.pick", "$.src.keys[0]", "$.src.keys[-1]"}, "part")}}
			}
			return []any{"get", pick(g.t, srcInts, "getpath")}
		}
	case "float":
		if leaf {
			if rapid.Bool().Draw(g.t, "lit") {
				return pick(g.t, floatPool, "float")
			}
			return pick(g.t, srcFloats, "floatpath")
		}
		switch rapid.IntRange(0, 4).Draw(g.t, "floatfn") {
		case 0:
			return g.call(pick(g.t, []string{"sum", "+"}, "n"), "num", 2, 3, depth)
		case 1:
			return g.call(pick(g.t, []string{"quotient", "/"}, "n"), "num", 2, 3, depth)
		case 2:
			return g.call(pick(g.t, []string{"product", "*", "dif", "-"}, "n"), "num", 2, 3, depth)
		case 3:
			return []any{"float", g.arg(pick(g.t, []string{"str", "int", "float"}, "floatof"), depth-1)}
		default:
			return []any{"get", pick(g.t, srcFloats, "getpath")}
		}
	case "str":
		if leaf {
			if rapid.Bool().Draw(g.t, "lit") {
				return pick(g.t, strPool, "str")
			}
			if g.at != "" && rapid.Bool().Draw(g.t, "local") {
				return pick(g.t, atStrs[g.at], "localstr")
			}
			return pick(g.t, srcStrs, "strpath")
		}
		switch rapid.IntRange(0, 11).Draw(g.t, "strfn") {
		case 0:
			return []any{pick(g.t, []string{"tolower", "toupper", "title"}, "n"), g.arg("str", depth-1)}
		case 1:
			out := []any{"trim", g.arg("str", depth-1)}
			if rapid.Bool().Draw(g.t, "cut") {
				out = append(out, g.arg("str", depth-1))
			}
			return out
		case 2:
			return []any{"replace", g.arg("str", depth-1), g.arg("str", depth-1), g.arg("str", depth-1)}
		case 3:
			out := []any{"substr", g.arg("str", depth-1), g.arg("int", depth-1)}
			if rapid.Bool().Draw(g.t, "len") {
				out = append(out, g.arg("int", depth-1))
			}
			return out
		case 4:
			out := []any{"join", g.arg("strlist", depth-1)}
			if rapid.Bool().Draw(g.t, "sep") {
				out = append(out, g.arg("str", depth-1))
			}
			return out
		case 5:
			return []any{"string", g.arg(pick(g.t, []string{"int", "str", "time", "float", "list", "objlist", "map", "objlist"}, "strof"), depth-1)}
		case 6:
			return []any{pick(g.t, []string{"sum", "+"}, "n"), g.arg("str", depth-1), g.arg(pick(g.t, []string{"str", "int"}, "k"), depth-1)}
		case 7:
			return []any{pick(g.t, []string{"sum", "+"}, "n"), g.arg("int", depth-1), g.arg("str", depth-1), g.arg("int", depth-1)}
		case 8:
			return []any{"string", []any{"zone", g.arg("time", depth-1), g.arg("int", depth-1)}}
		case 9:
			return []any{"quote", pick(g.t, []any{"@.x", "$.src.s1", "abc"}, "quoted")}
		default:
			return []any{"get", pick(g.t, srcStrs, "getpath")}
		}
	case "time":
		if leaf || true {
			return []any{"time", pick(g.t, []any{int64(0), int64(1614834367), int64(1614834367000000000), "2021-03-04T05:06:07Z", "2021-03-04T05:06:07.123+02:00", int64(60), int64(9999999999), int64(10000000000), "2021-03-04T05:06:07Z", "nope", true, "$.src.i2"}, "timearg")}
		}
		return nil
	case "bool":
		if leaf {
			if rapid.Bool().Draw(g.t, "lit") {
				return rapid.Bool().Draw(g.t, "bool")
			}
			return pick(g.t, srcBools, "boolpath")
		}
		switch rapid.IntRange(0, 8).Draw(g.t, "boolfn") {
		case 0:
			k := pick(g.t, []string{"int", "num", "str", "any", "list", "map"}, "eqkind")
			return g.call(pick(g.t, []string{"equal", "eq", "==", "neq", "!="}, "n"), k, 2, 3, depth)
		case 1, 2:
			if rapid.IntRange(0, 7).Draw(g.t, "bigcmp") == 0 {
				// neighbours beyond 2^53: as integers they are in order, as floats they are equal
				bigs := []any{int64(1 << 53), int64(1<<53 + 1), int64(1<<53 + 2), int64(-(1 << 53) - 1), int64(-(1 << 53)), int64(1<<60 + 1), int64(1 << 60)}
				out := []any{pick(g.t, []string{"gt", ">", "gte", ">=", "lt", "<", "lte", "<="}, "n")}
				for i, n := 0, rapid.IntRange(2, 3).Draw(g.t, "nbig"); i < n; i++ {
					out = append(out, pick(g.t, bigs, "big"))
				}
				return out
			}
			k := pick(g.t, []string{"int", "num", "str"}, "cmpkind")
			return g.call(pick(g.t, []string{"gt", ">", "gte", ">=", "lt", "<", "lte", "<="}, "n"), k, 2, 3, depth)
		case 3:
			return g.call(pick(g.t, []string{"and", "or"}, "n"), "bool", 1, 3, depth)
		case 4:
			return []any{"not", g.arg("bool", depth-1)}
		case 5:
			return []any{pick(g.t, []string{"array?", "bool?", "map?", "nil?", "null?", "num?", "string?", "time?"}, "n"), g.arg("any", depth-1)}
		case 6:
			if rapid.Bool().Draw(g.t, "inlist") {
				if rapid.IntRange(0, 3).Draw(g.t, "mapmember") == 0 {
					return []any{"include", []any{"list", g.arg("map", depth-1), g.arg("map", depth-1)}, g.arg("map", depth-1)}
				}
				return []any{"include", g.arg("list", depth-1), g.arg(pick(g.t, []string{"int", "str", "num"}, "k"), depth-1)}
			}
			return []any{"include", g.arg("str", depth-1), g.arg("str", depth-1)}
		default:
			return []any{"get", pick(g.t, srcBools, "getpath")}
		}
	case "strlist":
		if leaf {
			return pick(g.t, []any{"$.src.strs", []any{"x", "y"}, []any{"only"}, "$.src.empty"}, "strlist")
		}
		switch rapid.IntRange(0, 2).Draw(g.t, "slfn") {
		case 0:
			return []any{"split", g.arg("str", depth-1), g.arg("str", depth-1)}
		case 1:
			return []any{"list", g.arg("str", depth-1), g.arg("str", depth-1)}
		default:
			return []any{"reverse", g.arg("strlist", depth-1)}
		}
	case "list":
		if leaf {
			switch rapid.IntRange(0, 5).Draw(g.t, "lit") {
			case 0:
				return pick(g.t, []any{[]any{int64(1), int64(2), int64(3)}, []any{}, []any{int64(2), 2.0, "2"}, []any{[]any{int64(1)}, map[string]any{"k": "v"}}}, "listlit")
			case 1:
				// a list written in the plan that reaches the data through quote or through a cond
				// clause (a later step may change it there: the plan keeps what was written)
				lit := pick(g.t, []any{[]any{int64(1), int64(2), int64(3)}, []any{int64(7), []any{int64(8)}}}, "quoted")
				if rapid.Bool().Draw(g.t, "viacond") {
					return []any{"cond", []any{false, int64(0)}, []any{true, lit}}
				}
				return []any{"quote", lit}
			}
			return pick(g.t, srcLists, "listpath")
		}
		switch rapid.IntRange(0, 6).Draw(g.t, "listfn") {
		case 0:
			n := rapid.IntRange(0, 3).Draw(g.t, "nlist")
			out := []any{"list"}
			for i := 0; i < n; i++ {
				out = append(out, g.arg("any", depth-1))
			}
			return out
		case 1:
			return []any{"reverse", g.arg("list", depth-1)}
		case 2:
			if rapid.IntRange(0, 5).Draw(g.t, "bigsort") == 0 {
				// keys that are neighbours beyond 2^53
				return []any{"sort", []any{"list", int64(1<<53 + 1), int64(1 << 53), int64(1<<53 + 2), pick(g.t, []any{int64(5), int64(1<<60 + 1), int64(-(1 << 53) - 1)}, "bigkey")}, "@"}
			}
			return []any{"sort", g.arg(pick(g.t, []string{"list", "objlist"}, "k"), depth-1), pick(g.t, []any{"@.v", "@.k", "@", "@.t", "$.src.i1", int64(1)}, "sortkey")}
		case 3:
			return []any{"append", g.arg("list", depth-1), g.arg("any", depth-1)}
		case 4:
			// no wildcard over a map: jp returns those matches in map order, which is not fixed
			return []any{"getall", pick(g.t, []string{"$.src.objs[*].v", "$.src.ints[*]", "$.src.objs[*].k", "$.src.nothing[*]", "$.src.mixed[1:3]", "$.src.deep.l[*]"}, "allpath")}
		case 5:
			// the function works on a local value per element: bodies that keep something in a
			// scratch member and read it back, some under another result key
			switch rapid.IntRange(0, 5).Draw(g.t, "eachbody") {
			case 5:
				// the element names a member: the path is put together anew for every element
				return []any{"each", pick(g.t, []any{"$.src.keys", []any{"list", "i2", "i1", "i2", "b1"}}, "names"), []any{"set", "@.out", []any{"get", []any{"root", "src", "@.src"}}}, "out"}
			case 0:
				return []any{"each", g.arg("list", depth-1), []any{"asm", []any{"set", "@.asm", []any{"get", "@.prev"}}, []any{"set", "@.prev", "@.src"}}}
			case 1:
				return []any{"each", g.arg("list", depth-1), []any{"asm", []any{"set", "@.out", []any{"get", "@.seen"}}, []any{"set", "@.seen", true}}, "out"}
			case 2:
				return []any{"each", g.arg("list", depth-1), []any{"set", "@.asm", []any{"list", "@.src", []any{"get", "@.tmp"}}}}
			}
			return []any{"each", g.arg("list", depth-1), []any{"set", "@.asm", g.arg("any", depth-1)}}
		default:
			return g.expr("strlist", depth)
		}
	case "objlist":
		return "$.src.objs"
	case "map":
		if leaf || rapid.Bool().Draw(g.t, "mappath") {
			return pick(g.t, append([]any{map[string]any{"k": int64(1)}, map[string]any{},
				// same size, different key sets, null under the unmatched key; nested likewise
				map[string]any{"a": nil, "b": int64(1)}, map[string]any{"b": int64(1), "c": int64(2)}, map[string]any{"a": nil}, map[string]any{"b": nil},
				map[string]any{"m": map[string]any{"x": nil}, "l": []any{int64(1)}}, map[string]any{"m": map[string]any{"y": nil}, "l": []any{int64(1)}},
			}, toAny(srcMaps)...), "map")
		}
		return []any{"get", pick(g.t, srcMaps, "getpath")}
	}
	// any
	if leaf && rapid.IntRange(0, 4).Draw(g.t, "other") == 0 {
		return pick(g.t, srcOther, "otherpath")
	}
	k := pick(g.t, []string{"int", "float", "str", "bool", "list", "map", "nil", "time"}, "anykind")
	if !leaf && rapid.IntRange(0, 6).Draw(g.t, "cond") == 0 {
		n := rapid.IntRange(1, 3).Draw(g.t, "nclause")
		out := []any{"cond"}
		for i := 0; i < n; i++ {
			out = append(out, []any{g.arg("bool", depth-1), g.arg(k, depth-1)})
		}
		return out
	}
	return g.expr(k, depth)
}

func toAny(ss []string) []any {
	out := make([]any, len(ss))
	for i, s := range ss {
		out[i] = s
	}
	return out
}

func (g *gen) call(name, kind string, min, max, depth int) any {
	n := rapid.IntRange(min, max).Draw(g.t, "nargs")
	if rapid.IntRange(0, 59).Draw(g.t, "arity") == 0 {
		n = rapid.IntRange(0, 4).Draw(g.t, "oddarity")
	}
	out := []any{name}
	for i := 0; i < n; i++ {
		out = append(out, g.arg(kind, depth-1))
	}
	return out
}

func (g *gen) step(i int) any {
	depth := rapid.IntRange(0, 3).Draw(g.t, "depth")
	slot := fmt.Sprintf("$.asm.r%d", i)
	switch rapid.IntRange(0, 19).Draw(g.t, "stepkind") {
	case 0:
		return []any{"setall", pick(g.t, []string{slot, "$.asm.all[*]", "$.asm.r0"}, "p"), g.arg("any", depth)}
	case 1:
		return []any{pick(g.t, []string{"del", "delall"}, "n"), pick(g.t, []string{"$.asm.r0", "$.asm.r1", "$.asm.none", "$.src.i1", "$.src.ints[0]", "$.src.objs[*].v", "@.x"}, "p")}
	case 2:
		if g.at == "$.src" && rapid.Bool().Draw(g.t, "localmulti") {
			// a local path that matches several places: set is described as setting a single value
			// (no descent or wildcard over maps: which match is the first is then up to Go's map order)
			return []any{"set", pick(g.t, []string{"@.ints[*]", "@.objs[*].v", "@.mixed[1:3]", "@.strs[*]"}, "p"), g.arg("any", depth)}
		}
		return []any{"set", pick(g.t, []string{"@.x", "$.src.extra", "$.asm.nested.a.b", "$.asm.r0[1]", "$.src.ints[1]", "$.src.ints[*]", "$.src.objs[*].v", "@.src.ints[*]"}, "p"), g.arg("any", depth)}
	case 3:
		return []any{"set", []any{pick(g.t, []string{"root", "at"}, "n"), pick(g.t, []any{"asm", "x", "asm.r9", int64(3), "bad path["}, "part"), pick(g.t, []any{"viaroot", "y"}, "part2")}, g.arg("any", depth)}
	case 4:
		if rapid.Bool().Draw(g.t, "knownat") {
			// the local value of the following steps is a known map
			g.at = pick(g.t, []string{"$.src.m", "$.src.deep.a", "$.src.objs[0]", "$.src", "$.src"}, "atmap")
			return []any{"get", g.at}
		}
		g.at = ""
		return g.arg("any", depth) // becomes @ for the next step
	}
	if g.at != "" && rapid.IntRange(0, 2).Draw(g.t, "localcond") == 0 {
		// a cond whose clauses hold bare local paths (cond evaluates its clauses lazily, with
		// code of its own)
		k := pick(g.t, []string{"int", "str"}, "lck")
		return []any{"set", slot, []any{"cond", []any{g.arg("bool", depth), g.expr(k, 0)}, []any{true, g.expr(k, 0)}}}
	}
	return []any{"set", slot, g.arg("any", depth)}
}

func drawRoot(t *rapid.T) map[string]any {
	src := map[string]any{
		"i1":    pick(t, intPool, "i1"),
		"i2":    pick(t, []int64{2, 3, 0, -4}, "i2"),
		"f1":    pick(t, floatPool, "f1"),
		"f2":    pick(t, []float64{0.5, 0, 4}, "f2"),
		"s1":    pick(t, strPool, "s1"),
		"s2":    pick(t, []string{"a", "b,c", " x "}, "s2"),
		"b1":    rapid.Bool().Draw(t, "b1"),
		"b2":    true,
		"n1":    nil,
		"empty": []any{},
		"mixed": []any{int64(1), "a", nil, true, 1.5},
		"m":     map[string]any{"x": int64(1), "y": "why"},
		"mn1":   map[string]any{"a": nil, "b": int64(1)},
		"mn2":   map[string]any{"b": int64(1), "c": int64(2)},
		"deep":  map[string]any{"a": map[string]any{"n": int64(4), "s": "deep"}, "l": []any{int64(1)}},
		// names of members, for paths that a plan puts together from the data
		"pick": pick(t, []string{"i1", "i2", "i1"}, "pick"),
		"keys": []any{pick(t, []string{"i1", "i2"}, "key0"), "i2", pick(t, []string{"i1", "i2", "b1"}, "key2")},
	}
	n := rapid.IntRange(0, 4).Draw(t, "nints")
	ints := []any{}
	for i := 0; i < n; i++ {
		ints = append(ints, pick(t, []int64{3, 1, 2, 1, -5, 1 << 40}, "ie"))
	}
	src["ints"] = ints
	n = rapid.IntRange(0, 3).Draw(t, "nstrs")
	strs := []any{}
	for i := 0; i < n; i++ {
		strs = append(strs, pick(t, []string{"b", "a", "c", "", "é"}, "se"))
	}
	src["strs"] = strs
	n = rapid.IntRange(0, 4).Draw(t, "nobjs")
	objs := []any{}
	for i := 0; i < n; i++ {
		o := map[string]any{"k": pick(t, []string{"k1", "k0", "k2", "k1"}, "ok"), "v": pick(t, []int64{3, 1, 2, 1}, "ov")}
		if rapid.IntRange(0, 5).Draw(t, "oddkey") == 0 {
			o["v"] = pick(t, []any{"str", nil, 1.5}, "oddv")
		}
		objs = append(objs, o)
	}
	src["objs"] = objs
	root := map[string]any{"src": src}
	if rapid.Bool().Draw(t, "withasm") {
		root["asm"] = map[string]any{"r0": []any{int64(1), int64(2)}, "all": []any{int64(0), int64(0)}}
	}
	return root
}

func drawCase(t *rapid.T) Case {
	g := &gen{t: t}
	var plan []any
	if rapid.IntRange(0, 3).Draw(t, "explicitasm") != 0 {
		plan = append(plan, "asm")
	}
	if rapid.IntRange(0, 3).Draw(t, "valuefirst") == 0 {
		// the first argument is a value (a path or a plain string, not a call): it is the local
		// value (@) of the next step, with the function name written or implied
		plan = append(plan, pick(t, []any{"$", "$.src", "@", "@.src", "hello", "$.src.deep", "$.src.s1", "not a function", "$.src.i1"}, "first"))
		plan = append(plan, []any{"set", "$.asm.first", pick(t, []any{
			[]any{"get", "@.i1"}, []any{"get", "@.a.n"}, []any{"get", "@.src.i2"}, []any{"get", "@.s2"}, []any{"string?", "@"}, []any{"map?", "@"}, []any{"int?", "@"},
		}, "probe")})
	}
	n := rapid.IntRange(1, 5).Draw(t, "nsteps")
	for i := 0; i < n; i++ {
		plan = append(plan, g.step(i))
	}
	if rapid.IntRange(0, 30).Draw(t, "single") == 0 {
		// a plan that is a single call instead of an asm sequence
		if l, ok := g.expr("any", 2).([]any); ok && len(l) > 0 {
			plan = l
		}
	}
	return Case{Plan: wx.Enc(plan), Root: wx.Enc(drawRoot(t))}
}

func TestPropRandom(t *testing.T) {
	vrt.Rapid(t, suite, "plan", vrt.Scale(20000, 150000), drawCase, Run)
}

func TestReplay(t *testing.T) { suite.ReplayAll(t) }

func has(d vrt.Disc, t string) bool {
	for _, x := range d.Tags {
		if x == t {
			return true
		}
	}
	return false
}

var classifiers = []vrt.Classifier{
	// C20-K1: Plan.String() of a plan that calls the functions named - or + does not parse
	// again: the SEN writer writes those strings bare (C10-K1) and the SEN parser reads "- "
	// as a broken number and "+ x" as a concatenation.
	{ID: "C20-K1", Match: func(d vrt.Disc, c *vrt.Ctx) bool {
		return d.Kind == "string-round-trip" && has(d, "bare-plus-or-minus-name")
	}},
	// C20-K3: string, equal / neq and include recurse without end on a cyclic value, which a
	// plan can build by storing $ or $.asm under $.asm; the stack overflow kills the process.
	{ID: "C20-K3", Match: func(d vrt.Disc, c *vrt.Ctx) bool {
		return d.Kind == "crash-by-construction" && has(d, "cyclic-root-then-deep-function")
	}},
	// C20-K2: zone reads a numeric location as seconds east of UTC (pinned by asm/zone_test.go)
	// while its description says "the number of minutes offset from UTC".
	{ID: "C20-K2", Match: func(d vrt.Disc, c *vrt.Ctx) bool {
		return (d.Kind == "wrong-result" || d.Kind == "no-error" || d.Kind == "unexpected-error") && has(d, "explained-by-zone-seconds")
	}},
}
