package c20

import (
	"fmt"
	"math"
	"sort"
	"strconv"
	"strings"
	"time"
	"unicode/utf8"

	"github.com/ohler55/ojg/jp"

	"verif/internal/canon"
)

// The reference evaluator is written from asm/doc.go (the function descriptions) and
// the package documentation. Where a description is silent the reference gives up
// (unspecified): the case is then only checked for totality, determinism, the
// String()/Simplify() round trip and non-interference with $.src.

type refError struct{ msg string }  // the description demands an error
type refUnspec struct{ why string } // the description does not say

func fail(f string, a ...any) { panic(refError{fmt.Sprintf(f, a...)}) }
func unspec(f string, a ...any) {
	panic(refUnspec{fmt.Sprintf(f, a...)})
}

var fnNames = map[string]bool{}

func init() {
	for _, n := range strings.Fields("and append array? asm at bool? cond del delall dif - each equal eq == float get getall gt > gte >= include inspect int join list lt < lte <= map? mod neq != not nth null? nil? num? or product * quote quotient / replace reverse root set setall size sort split string? string substr sum + time? time title tolower toupper trim zone") {
		fnNames[n] = true
	}
}

type ref struct {
	root  map[string]any
	feats map[string]bool
	// zoneSeconds reads a numeric zone location as seconds (what the code and its test do)
	// instead of the documented minutes; used to attribute discrepancies to C20-K2.
	zoneSeconds bool
}

func isCall(arg any) (string, []any, bool) {
	list, _ := arg.([]any)
	if len(list) == 0 {
		return "", nil, false
	}
	name, _ := list[0].(string)
	if name == "" || !fnNames[name] {
		return "", nil, false
	}
	return name, list[1:], true
}

func isPath(arg any) (jp.Expr, bool) {
	s, _ := arg.(string)
	if len(s) == 0 || (s[0] != '$' && s[0] != '@') {
		return nil, false
	}
	x, err := jp.ParseString(s)
	if err != nil {
		return nil, false
	}
	return x, true
}

// evalArg: a call is evaluated, a path gives its first match, anything else is itself.
func (r *ref) evalArg(at, arg any) any {
	if name, args, ok := isCall(arg); ok {
		return r.call(at, name, args)
	}
	if x, ok := isPath(arg); ok {
		return r.first(x, at)
	}
	if x, ok := arg.(jp.Expr); ok { // the value of an at / root call
		return r.first(x, at)
	}
	return arg
}

func (r *ref) first(x jp.Expr, at any) any {
	if len(x) == 0 {
		return nil
	}
	if _, ok := x[0].(jp.At); ok {
		return x.First(at)
	}
	return x.First(r.root)
}

// after evaluates an argument that comes after the one that decided the result: the
// descriptions do not say whether it is evaluated at all, so an error there is open.
func (r *ref) after(at, arg any) any {
	defer func() {
		e := recover()
		if e == nil {
			return
		}
		if re, ok := e.(refError); ok {
			unspec("error in an argument after the deciding one: %s", re.msg)
		}
		panic(e)
	}()
	return r.evalArg(at, arg)
}

func isInt(v any) (int64, bool) {
	switch tv := v.(type) {
	case int64:
		return tv, true
	case int:
		return int64(tv), true
	}
	return 0, false
}

func isNum(v any) (float64, bool) {
	if i, ok := isInt(v); ok {
		return float64(i), true
	}
	f, ok := v.(float64)
	return f, ok
}

// pathArg: the argument of get / set / del that has to be a path.
func (r *ref) pathArg(at, arg any, fnOK bool) jp.Expr {
	if x, ok := isPath(arg); ok {
		return x
	}
	if name, args, ok := isCall(arg); ok {
		if !fnOK {
			unspec("a function in place of the path of del")
		}
		v := r.call(at, name, args)
		if x, ok := v.(jp.Expr); ok {
			return x
		}
		fail("not a path")
	}
	fail("not a path")
	return nil
}

func (r *ref) target(x jp.Expr, at any) any {
	if _, ok := x[0].(jp.At); ok {
		return at
	}
	return r.root
}

func exactF(i int64) bool { return -(1<<53) <= i && i <= 1<<53 }

func (r *ref) call(at any, name string, args []any) any {
	r.feats["fn:"+name] = true
	switch name {
	case "asm":
		for _, a := range args {
			at = r.evalArg(at, a)
		}
		return at
	case "quote":
		// "Does not evaluate arguments"
		if len(args) == 0 {
			return nil
		}
		if _, _, ok := isCall(args[0]); ok {
			unspec("quoted call") // printed as a call again by String()
		}
		return args[0]
	case "sum", "+":
		allInt, anyStr := true, false
		vals := make([]any, len(args))
		for i, a := range args {
			v := r.evalArg(at, a)
			vals[i] = v
			switch v.(type) {
			case int64, int:
			case float64:
				allInt = false
			case string:
				anyStr = true
			default:
				fail("sum of %T", v)
			}
		}
		if anyStr {
			var sb strings.Builder
			for _, v := range vals {
				switch tv := v.(type) {
				case string:
					sb.WriteString(tv)
				case float64:
					unspec("float in a string sum")
				default:
					i, _ := isInt(v)
					sb.WriteString(strconv.FormatInt(i, 10))
				}
			}
			// numbers before the first string are added first ("1 2 a" -> "3a" or "12a"): open
			ns := 0
			for _, v := range vals {
				if _, ok := v.(string); ok {
					break
				}
				ns++
			}
			if ns > 1 {
				unspec("several numbers before the first string of a sum")
			}
			return sb.String()
		}
		if allInt {
			var s int64
			for _, v := range vals {
				i, _ := isInt(v)
				if (i > 0 && s > math.MaxInt64-i) || (i < 0 && s < math.MinInt64-i) {
					unspec("integer overflow")
				}
				s += i
			}
			return s
		}
		return r.floatFold(vals, func(a, b float64) float64 { return a + b })
	case "dif", "-", "product", "*":
		vals := r.numbers(at, args, name)
		if len(vals) == 0 {
			unspec("no arguments")
		}
		allInt := true
		for _, v := range vals {
			if _, ok := isInt(v); !ok {
				allInt = false
			}
		}
		if allInt {
			s, _ := isInt(vals[0])
			for _, v := range vals[1:] {
				i, _ := isInt(v)
				var res int64
				if name == "dif" || name == "-" {
					res = s - i
					if (i < 0 && s > math.MaxInt64+i) || (i > 0 && s < math.MinInt64+i) {
						unspec("integer overflow")
					}
				} else {
					if s != 0 && i != 0 {
						res = s * i
						if res/i != s || (s == -1 && i == math.MinInt64) || (i == -1 && s == math.MinInt64) {
							unspec("integer overflow")
						}
					}
				}
				s = res
			}
			return s
		}
		if name == "dif" || name == "-" {
			return r.floatFold(vals, func(a, b float64) float64 { return a - b })
		}
		return r.floatFold(vals, func(a, b float64) float64 { return a * b })
	case "quotient", "/":
		vals := r.numbers(at, args, name)
		if len(vals) == 0 {
			unspec("no arguments")
		}
		for _, v := range vals[1:] {
			if f, _ := isNum(v); f == 0 {
				r.feats["divide-by-zero"] = true
				if _, ok := v.(float64); ok {
					r.feats["divide-by-float-zero"] = true
				}
				fail("divide by zero")
			}
		}
		allInt := true
		for _, v := range vals {
			if _, ok := isInt(v); !ok {
				allInt = false
			}
		}
		if allInt {
			s, _ := isInt(vals[0])
			for _, v := range vals[1:] {
				i, _ := isInt(v)
				if s%i != 0 || (s == math.MinInt64 && i == -1) {
					unspec("inexact integer quotient")
				}
				s /= i
			}
			return s
		}
		// integers before the first float are divided as integers: only exact steps are specified
		for i := range vals {
			if _, ok := vals[i].(float64); ok {
				break
			}
			if i > 0 {
				a, _ := isInt(vals[0])
				for _, v := range vals[1 : i+1] {
					b, _ := isInt(v)
					if a%b != 0 {
						unspec("inexact integer quotient before a float")
					}
					a /= b
				}
			}
		}
		return r.floatFold(vals, func(a, b float64) float64 { return a / b })
	case "mod":
		if len(args) != 2 {
			fail("mod needs two arguments")
		}
		a, ok1 := isInt(r.evalArg(at, args[0]))
		if !ok1 {
			fail("mod of a non integer")
		}
		b, ok2 := isInt(r.evalArg(at, args[1]))
		if !ok2 {
			fail("mod of a non integer")
		}
		if b == 0 || a < 0 || b < 0 {
			unspec("mod by zero or of negatives")
		}
		return a % b
	case "equal", "eq", "==", "neq", "!=":
		eq := true
		if len(args) > 0 {
			v0 := r.evalArg(at, args[0])
			for _, a := range args[1:] {
				if !eq {
					r.after(at, a)
					continue
				}
				eq = refEqual(v0, r.evalArg(at, a))
			}
		}
		if name == "neq" || name == "!=" {
			if len(args) < 2 {
				unspec("neq with fewer than two arguments")
			}
			return !eq
		}
		return eq
	case "gt", ">", "gte", ">=", "lt", "<", "lte", "<=":
		if len(args) < 2 {
			unspec("comparison with fewer than two arguments")
		}
		vals := make([]any, len(args))
		for i, a := range args {
			vals[i] = r.evalArg(at, a)
			if i > 0 && !cmpHolds(name, vals[i-1], vals[i]) {
				// decided: the rest may or may not be evaluated
				for j := i + 1; j < len(args); j++ {
					vals[j] = r.after(at, args[j])
				}
				break
			}
		}
		_, num0 := isNum(vals[0])
		_, str0 := vals[0].(string)
		if !num0 && !str0 {
			unspec("comparison of %T", vals[0])
		}
		for _, v := range vals[1:] {
			_, n := isNum(v)
			_, s := v.(string)
			if (num0 && !n) || (str0 && !s) {
				unspec("comparison of mixed kinds")
			}
		}
		res := true
		for i := 0; i+1 < len(vals); i++ {
			var c int
			if num0 {
				a, _ := isNum(vals[i])
				b, _ := isNum(vals[i+1])
				if math.IsNaN(a) || math.IsNaN(b) {
					unspec("NaN")
				}
				c = cmpExact(vals[i], vals[i+1])
			} else {
				c = strings.Compare(vals[i].(string), vals[i+1].(string))
			}
			ok := false
			switch name {
			case "gt", ">":
				ok = c > 0
			case "gte", ">=":
				ok = c >= 0
			case "lt", "<":
				ok = c < 0
			default:
				ok = c <= 0
			}
			if !ok {
				res = false
			}
		}
		return res
	case "and", "or":
		res := name == "and"
		decided := false
		for _, a := range args {
			var v any
			if decided {
				v = r.after(at, a)
			} else {
				v = r.evalArg(at, a)
			}
			var b bool
			switch tv := v.(type) {
			case nil:
			case bool:
				b = tv
			default:
				if decided {
					unspec("non boolean after the deciding argument")
				}
				fail("%s of %T", name, v)
			}
			if decided {
				continue
			}
			if name == "and" && !b {
				res, decided = false, true
			}
			if name == "or" && b {
				res, decided = true, true
			}
		}
		return res
	case "not":
		if len(args) != 1 {
			fail("not needs one argument")
		}
		b, ok := r.evalArg(at, args[0]).(bool)
		if !ok {
			fail("not of a non boolean")
		}
		return !b
	case "cond":
		for _, a := range args {
			pair, ok := a.([]any)
			if !ok || len(pair) != 2 {
				if _, _, isc := isCall(a); isc {
					unspec("cond clause that reads as a call")
				}
				fail("cond clause")
			}
		}
		for _, a := range args {
			pair := a.([]any)
			t := r.evalArg(at, pair[0])
			b, ok := t.(bool)
			if !ok {
				unspec("cond test that is not a boolean")
			}
			if b {
				return r.evalArg(at, pair[1])
			}
		}
		return nil
	case "get", "getall":
		if len(args) < 1 || len(args) > 2 {
			fail("%s arity", name)
		}
		x := r.pathArg(at, args[0], true)
		if len(x) == 0 {
			unspec("empty path")
		}
		data := r.target(x, at)
		if len(args) == 2 {
			data = r.evalArg(at, args[1])
		}
		if name == "get" {
			return x.First(data)
		}
		res := x.Get(data)
		if res == nil {
			unspec("getall without a match: nil or empty list")
		}
		return res
	case "set", "setall":
		if len(args) != 2 {
			fail("%s arity", name)
		}
		x := r.pathArg(at, args[0], true)
		v := r.evalArg(at, args[1])
		if len(x) == 0 {
			unspec("empty path")
		}
		if len(x) == 1 {
			unspec("set of the bare root")
		}
		r.feats["mutates"] = true
		var err error
		if name == "set" {
			err = x.SetOne(r.target(x, at), v)
		} else {
			err = x.Set(r.target(x, at), v)
		}
		if err != nil {
			fail("set: %v", err)
		}
		return at
	case "del", "delall":
		if len(args) != 1 {
			fail("%s arity", name)
		}
		x := r.pathArg(at, args[0], false)
		if len(x) < 2 {
			unspec("del of a bare root")
		}
		r.feats["mutates"] = true
		var err error
		if name == "del" {
			err = x.DelOne(r.target(x, at))
		} else {
			err = x.Del(r.target(x, at))
		}
		if err != nil {
			fail("del: %v", err)
		}
		return at
	case "at", "root":
		var parts []string
		for _, a := range args {
			s, ok := r.evalArg(at, a).(string)
			if !ok {
				fail("%s of a non string", name)
			}
			parts = append(parts, s)
		}
		x, err := jp.ParseString(strings.Join(parts, "."))
		if err != nil {
			fail("bad path")
		}
		if len(x) > 0 {
			switch x[0].(type) {
			case jp.Root, jp.At:
				unspec("path part that starts with $ or @")
			}
		}
		if name == "at" {
			return append(jp.A(), x...)
		}
		return append(jp.R(), x...)
	case "list":
		out := make([]any, 0, len(args))
		for _, a := range args {
			out = append(out, r.evalArg(at, a))
		}
		if len(out) == 0 {
			unspec("empty list: nil or []")
		}
		return out
	case "nth":
		if len(args) != 2 {
			fail("nth arity")
		}
		l, ok := r.evalArg(at, args[0]).([]any)
		if !ok {
			fail("nth of a non array")
		}
		i, ok := isInt(r.evalArg(at, args[1]))
		if !ok {
			fail("nth index")
		}
		if i < 0 {
			i += int64(len(l))
		}
		if i < 0 || i >= int64(len(l)) {
			unspec("nth out of range")
		}
		return l[i]
	case "size":
		if len(args) != 1 {
			fail("size arity")
		}
		switch tv := r.evalArg(at, args[0]).(type) {
		case string:
			if utf8.RuneCountInString(tv) != len(tv) {
				unspec("size of a non ASCII string: bytes or characters")
			}
			return int64(len(tv))
		case []any:
			return int64(len(tv))
		case map[string]any:
			return int64(len(tv))
		}
		return int64(0)
	case "reverse":
		if len(args) != 1 {
			fail("reverse arity")
		}
		l, ok := r.evalArg(at, args[0]).([]any)
		if !ok {
			fail("reverse of a non array")
		}
		out := make([]any, len(l))
		for i, v := range l {
			out[len(l)-1-i] = v
		}
		return out
	case "sort":
		if len(args) != 2 {
			unspec("sort arity (the description names no key path)")
		}
		l, ok := r.evalArg(at, args[0]).([]any)
		if !ok {
			fail("sort of a non array")
		}
		x, ok := isPath(args[1])
		if !ok {
			unspec("sort key that is not a path")
		}
		keys := make([]any, len(l))
		kind := ""
		for i, e := range l {
			keys[i] = x.First(e)
			k := ""
			switch tv := keys[i].(type) {
			case string:
				k = "s"
			case int64, int, float64:
				k = "n" // (two integer keys are compared exactly, see cmpExact)
			case time.Time:
				k = "t"
			default:
				if len(l) < 2 {
					unspec("bad key in a list that needs no comparison")
				}
				fail("sort key %T", tv)
			}
			if kind != "" && k != kind {
				fail("mixed sort keys")
			}
			kind = k
		}
		idx := make([]int, len(l))
		for i := range idx {
			idx[i] = i
		}
		less := func(a, b any) bool {
			switch kind {
			case "s":
				return a.(string) < b.(string)
			case "t":
				return a.(time.Time).Before(b.(time.Time))
			}
			return cmpExact(a, b) < 0
		}
		sort.SliceStable(idx, func(i, j int) bool { return less(keys[idx[i]], keys[idx[j]]) })
		for i := 0; i+1 < len(idx); i++ {
			if less(keys[idx[i]], keys[idx[i+1]]) {
				continue
			}
			if isCyclic(l[idx[i]], map[uintptr]bool{}) || isCyclic(l[idx[i+1]], map[uintptr]bool{}) {
				unspec("equal sort keys on elements that contain themselves: order open")
			}
			if canon.String(l[idx[i]], canon.Typed) != canon.String(l[idx[i+1]], canon.Typed) {
				unspec("equal sort keys on different elements: order open")
			}
		}
		out := make([]any, len(l))
		for i, j := range idx {
			out[i] = l[j]
		}
		return out
	case "join":
		if len(args) < 1 || len(args) > 2 {
			fail("join arity")
		}
		l, ok := r.evalArg(at, args[0]).([]any)
		if !ok {
			fail("join of a non array")
		}
		var parts []string
		for _, e := range l {
			s, ok := e.(string)
			if !ok {
				fail("join of non strings")
			}
			parts = append(parts, s)
		}
		sep := ""
		if len(args) == 2 {
			if sep, ok = r.evalArg(at, args[1]).(string); !ok {
				fail("join separator")
			}
		}
		return strings.Join(parts, sep)
	case "split":
		if len(args) != 2 {
			fail("split arity")
		}
		s, ok := r.evalArg(at, args[0]).(string)
		if !ok {
			fail("split of a non string")
		}
		sep, ok := r.evalArg(at, args[1]).(string)
		if !ok {
			fail("split separator")
		}
		if sep == "" {
			unspec("split on an empty separator")
		}
		var out []any
		for _, p := range strings.Split(s, sep) {
			out = append(out, p)
		}
		return out
	case "substr":
		if len(args) < 2 || len(args) > 3 {
			if len(args) == 1 {
				unspec("substr with one argument")
			}
			fail("substr arity")
		}
		s, ok := r.evalArg(at, args[0]).(string)
		if !ok {
			fail("substr of a non string")
		}
		start, ok := isInt(r.evalArg(at, args[1]))
		if !ok {
			fail("substr start")
		}
		if utf8.RuneCountInString(s) != len(s) {
			unspec("substr of a non ASCII string")
		}
		if start < 0 || start > int64(len(s)) {
			unspec("substr start out of range")
		}
		if len(args) == 3 {
			n, ok := isInt(r.evalArg(at, args[2]))
			if !ok {
				fail("substr length")
			}
			if n < 0 || start+n > int64(len(s)) {
				unspec("substr length out of range")
			}
			return s[start : start+n]
		}
		return s[start:]
	case "tolower", "toupper", "title":
		if len(args) != 1 {
			fail("%s arity", name)
		}
		s, ok := r.evalArg(at, args[0]).(string)
		if !ok {
			fail("%s of a non string", name)
		}
		if utf8.RuneCountInString(s) != len(s) {
			unspec("case of a non ASCII string")
		}
		switch name {
		case "tolower":
			return strings.ToLower(s)
		case "toupper":
			return strings.ToUpper(s)
		}
		if strings.ContainsAny(s, " \t\n-_") || s == "" {
			unspec("title of several words")
		}
		return strings.ToUpper(s[:1]) + s[1:]
	case "trim":
		if len(args) < 1 || len(args) > 2 {
			fail("trim arity")
		}
		s, ok := r.evalArg(at, args[0]).(string)
		if !ok {
			fail("trim of a non string")
		}
		if len(args) == 2 {
			cut, ok := r.evalArg(at, args[1]).(string)
			if !ok {
				fail("trim cut set")
			}
			return strings.Trim(s, cut)
		}
		if utf8.RuneCountInString(s) != len(s) {
			unspec("white space in a non ASCII string")
		}
		return strings.Trim(s, " \t\n\r\v\f")
	case "replace":
		if len(args) != 3 {
			fail("replace arity")
		}
		var ss [3]string
		for i := range ss {
			s, ok := r.evalArg(at, args[i]).(string)
			if !ok {
				fail("replace of a non string")
			}
			ss[i] = s
		}
		if ss[1] == "" {
			unspec("replace of the empty string")
		}
		return strings.ReplaceAll(ss[0], ss[1], ss[2])
	case "include":
		if len(args) != 2 {
			fail("include arity")
		}
		v0 := r.evalArg(at, args[0])
		v1 := r.evalArg(at, args[1])
		switch tv := v0.(type) {
		case []any:
			// the description says "includes": by value for containers as well (equal is by value)
			for _, m := range tv {
				if refEqual(m, v1) {
					// 1 and 1.0: equal by value, not identical
					if canon.String(m, canon.Typed) != canon.String(v1, canon.Typed) {
						unspec("include across number kinds")
					}
					return true
				}
			}
			return false
		case string:
			s, ok := v1.(string)
			if !ok {
				unspec("include of a non string in a string")
			}
			return strings.Contains(tv, s)
		}
		unspec("include in %T", v0)
	case "append":
		if len(args) != 2 {
			fail("append arity")
		}
		l, ok := r.evalArg(at, args[0]).([]any)
		if !ok {
			fail("append to a non array")
		}
		v := r.evalArg(at, args[1])
		r.feats["append"] = true
		out := make([]any, 0, len(l)+1)
		return append(append(out, l...), v)
	case "array?", "bool?", "map?", "nil?", "null?", "num?", "string?", "time?":
		if len(args) != 1 {
			fail("%s arity", name)
		}
		v := r.evalArg(at, args[0])
		switch name {
		case "array?":
			_, ok := v.([]any)
			return ok
		case "bool?":
			_, ok := v.(bool)
			return ok
		case "map?":
			_, ok := v.(map[string]any)
			return ok
		case "nil?", "null?":
			return v == nil
		case "num?":
			_, ok := isNum(v)
			return ok
		case "string?":
			_, ok := v.(string)
			return ok
		}
		_, ok := v.(time.Time)
		return ok
	case "int":
		if len(args) != 1 {
			fail("int arity")
		}
		switch tv := r.evalArg(at, args[0]).(type) {
		case int64:
			return tv
		case int:
			return int64(tv)
		case float64:
			if tv != math.Trunc(tv) || math.Abs(tv) > 1<<53 {
				unspec("int of a float that is not a small integer")
			}
			return int64(tv)
		case string:
			if i, err := strconv.ParseInt(tv, 10, 64); err == nil && strconv.FormatInt(i, 10) == tv {
				return i
			}
			if _, err := strconv.ParseFloat(tv, 64); err == nil {
				unspec("int of a string that holds another number spelling")
			}
			return nil
		case time.Time:
			unspec("int of a time")
		}
		return nil
	case "float":
		if len(args) != 1 {
			fail("float arity")
		}
		switch tv := r.evalArg(at, args[0]).(type) {
		case int64:
			if !exactF(tv) {
				unspec("float of a large integer")
			}
			return float64(tv)
		case float64:
			return tv
		case string:
			if f, err := strconv.ParseFloat(tv, 64); err == nil {
				if strings.ContainsAny(tv, "xXpP_nNiI") {
					unspec("float of a Go-only spelling")
				}
				return f
			}
			return nil
		case time.Time:
			unspec("float of a time")
		}
		return nil
	case "string":
		if len(args) != 1 {
			unspec("string with a format")
		}
		switch tv := r.evalArg(at, args[0]).(type) {
		case int64:
			return strconv.FormatInt(tv, 10)
		case string:
			return tv
		case time.Time:
			return tv.Format(time.RFC3339Nano)
		}
		unspec("string of other kinds")
	case "time":
		if len(args) < 1 || len(args) > 2 {
			fail("time arity")
		}
		switch tv := r.evalArg(at, args[0]).(type) {
		case int64:
			if tv < 0 {
				unspec("negative time")
			}
			if tv < 10000000000 {
				return time.Unix(tv, 0).UTC()
			}
			return time.Unix(0, tv).UTC()
		case float64:
			unspec("time of a float (rounding)")
		case string:
			if len(args) == 2 {
				unspec("time with a format")
			}
			t, err := time.Parse(time.RFC3339Nano, tv)
			if err != nil {
				fail("time of a bad string")
			}
			return t
		case time.Time:
			unspec("time of a time")
		default:
			r.feats["time-of-non-convertible"] = true
			fail("time of %T", tv)
		}
	case "zone":
		if len(args) != 2 {
			fail("zone arity")
		}
		t, ok := r.evalArg(at, args[0]).(time.Time)
		if !ok {
			fail("zone of a non time")
		}
		switch tv := r.evalArg(at, args[1]).(type) {
		case int64:
			// "the number of minutes offset from UTC"
			if tv < -12*60 || tv > 14*60 {
				unspec("zone offset out of range")
			}
			r.feats["zone-minutes"] = true
			if r.zoneSeconds {
				return t.In(time.FixedZone("", int(tv)))
			}
			return t.In(time.FixedZone("", int(tv)*60))
		case string:
			unspec("zone by name")
		default:
			fail("zone location %T", tv)
		}
	case "each":
		// "Each ." is all the description there is. What is modelled here is what the library's
		// own tests of each show and nothing more: the function given as second argument is
		// evaluated once per element of the list, with a local value {src: element} as @, and
		// the member named by the optional third argument (default "asm") of that local value
		// is collected.
		if len(args) < 2 || 3 < len(args) {
			fail("each arity")
		}
		list, ok := r.evalArg(at, args[0]).([]any)
		if !ok {
			fail("each list")
		}
		fname, fargs, ok := isCall(args[1])
		if !ok {
			fail("each function")
		}
		key := "asm"
		if len(args) == 3 {
			if key, ok = r.evalArg(at, args[2]).(string); !ok {
				fail("each key")
			}
		}
		if len(list) == 0 {
			unspec("each over an empty list") // nil or empty is not said
		}
		r.feats["each"] = true
		var result []any
		for _, src := range list {
			local := map[string]any{"src": src}
			r.call(local, fname, fargs)
			result = append(result, local[key])
		}
		return result
	case "inspect":
		unspec("%s is not described", name)
	}
	unspec("function %s", name)
	return nil
}

// cmpHolds: does the comparison hold between two neighbours (false also when they cannot be compared).
// cmpExact: two integers are compared as integers ("greater than" has one meaning for numbers,
// whatever their size); an integer beyond 2^53 against a float is left open (the description does
// not say in which kind the two meet).
func cmpExact(a, b any) int {
	ia, aok := isInt(a)
	ib, bok := isInt(b)
	if aok && bok {
		switch {
		case ia < ib:
			return -1
		case ia > ib:
			return 1
		}
		return 0
	}
	if (aok && !exactF(ia)) || (bok && !exactF(ib)) {
		unspec("comparison of an integer beyond 2^53 with a float")
	}
	fa, _ := isNum(a)
	fb, _ := isNum(b)
	switch {
	case fa < fb:
		return -1
	case fa > fb:
		return 1
	}
	return 0
}

func cmpHolds(name string, a, b any) bool {
	var c int
	_, na := isNum(a)
	_, nb := isNum(b)
	sa, oka := a.(string)
	sb, okb := b.(string)
	switch {
	case na && nb:
		c = cmpExact(a, b)
	case oka && okb:
		c = strings.Compare(sa, sb)
	default:
		unspec("comparison of kinds the description does not cover")
	}
	switch name {
	case "gt", ">":
		return c > 0
	case "gte", ">=":
		return c >= 0
	case "lt", "<":
		return c < 0
	}
	return c <= 0
}

func (r *ref) numbers(at any, args []any, name string) []any {
	vals := make([]any, len(args))
	for i, a := range args {
		v := r.evalArg(at, a)
		if _, ok := isNum(v); !ok {
			fail("%s of %T", name, v)
		}
		vals[i] = v
	}
	return vals
}

// floatFold folds left to right in float64; integers beyond 2^53 make the result open.
func (r *ref) floatFold(vals []any, op func(a, b float64) float64) any {
	var acc float64
	for i, v := range vals {
		if iv, ok := isInt(v); ok && !exactF(iv) {
			unspec("large integer in float arithmetic")
		}
		f, _ := isNum(v)
		if i == 0 {
			acc = f
		} else {
			acc = op(acc, f)
		}
	}
	// an integer prefix is folded as integers first: the same value only while exact
	var iacc int64
	for i, v := range vals {
		iv, ok := isInt(v)
		if !ok {
			break
		}
		if i == 0 {
			iacc = iv
			if iv >= 1<<53 || iv <= -(1<<53) {
				unspec("integer prefix beyond 2^53")
			}
		} else {
			f := op(float64(iacc), float64(iv))
			if math.Abs(f) >= 1<<53 { // at 2^53 the next odd integer is already lost in float64
				unspec("integer prefix beyond 2^53")
			}
			iacc = int64(f)
		}
	}
	if math.IsNaN(acc) || math.IsInf(acc, 0) {
		unspec("NaN or infinite result")
	}
	return acc
}

// refEqual: equal by value (numbers across int and float, deep for containers).
func refEqual(a, b any) bool {
	if fa, ok := isNum(a); ok {
		fb, ok := isNum(b)
		if !ok {
			return false
		}
		ia, aok := isInt(a)
		ib, bok := isInt(b)
		if aok && bok {
			return ia == ib
		}
		if (aok && !exactF(ia)) || (bok && !exactF(ib)) {
			unspec("equality of a float and a large integer")
		}
		return fa == fb
	}
	switch ta := a.(type) {
	case nil:
		return b == nil
	case bool:
		tb, ok := b.(bool)
		return ok && ta == tb
	case string:
		tb, ok := b.(string)
		return ok && ta == tb
	case time.Time:
		tb, ok := b.(time.Time)
		return ok && ta.Equal(tb)
	case []any:
		tb, ok := b.([]any)
		if !ok || len(ta) != len(tb) {
			return false
		}
		for i := range ta {
			if !refEqual(ta[i], tb[i]) {
				return false
			}
		}
		return true
	case map[string]any:
		tb, ok := b.(map[string]any)
		if !ok || len(ta) != len(tb) {
			return false
		}
		for k, va := range ta {
			vb, has := tb[k]
			if !has || !refEqual(va, vb) {
				return false
			}
		}
		return true
	}
	unspec("equality of %T", a)
	return false
}
