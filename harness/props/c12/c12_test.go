// Package c12 decides C12: filter scripts are total and follow typed comparison semantics.
package c12

import (
	"fmt"
	"testing"

	"github.com/ohler55/ojg"
	"github.com/ohler55/ojg/alt"
	"github.com/ohler55/ojg/jp"
	"pgregory.net/rapid"

	"verif/internal/canon"
	"verif/internal/jpx"
	"verif/internal/vrt"
	"verif/internal/wx"
)

var suite = vrt.NewSuite("C12", "(script recipe, data element): (1) exhaustive matrix: every operator (== != < > <= >= && || ! exists has + - * / in empty =~ length count match search) x left operand kind x right operand kind over {nil, bool, int64, float64, string, array, map, missing path, multi-valued path, constants} with several values per kind; (2) rapid: nested scripts to depth 3 built through the jp equation constructors on random elements (simple and gen). Oracle: Script.Match, Eval and Get through a filter never panic; for the fixed-semantics operators the truth value equals the reference semantics of the property statement (numbers by value, strings lexical, == / != complementary for every kind, ordering across kinds false, missing path = Nothing, any-combination for multi-valued operands); algebraic laws ((a!=b) == !(a==b), a<b <=> b>a, a<=b <=> a<b or a==b on same kinds); Script.Match(v) <=> v in Get($[?script], [v]); a script that reads $ is also evaluated as $.items[?script] inside a root that has members of the same names with other values; the script read back from its text by jp.NewScript and, as a filter, by jp.ParseString evaluates like the one that was built. Non-trivial = operands of different kinds, an int/float mix, a container operand, or a sub-path yielding 0 or >=2 values; distinct = distinct (script, element)")

type Case struct {
	Eq   *jpx.Eq `json:"eq"`
	Elem any     `json:"elem"`
	Gen  bool    `json:"gen,omitempty"`
	Root any     `json:"root,omitempty"` // members of a root that is not the element (it gets the element under "items")
}

func TestMain(m *testing.M) {
	vrt.InitRapid()
	vrt.RegisterReplay(suite, "script", Run)
	suite.Register(classifiers...)
	vrt.Main(m, suite)
}

var keepAll = &ojg.Options{}

func fixedOnly(e *jpx.Eq) bool {
	if e == nil {
		return true
	}
	switch e.Op {
	case "eq", "neq", "lt", "gt", "lte", "gte", "and", "or", "not", "exists", "has":
		return fixedOnly(e.L) && fixedOnly(e.R)
	case "const":
		return e.CK != "list"
	case "get":
		return true
	}
	return false
}

func kindOf(v any) string {
	switch v.(type) {
	case nil:
		return "nil"
	case bool:
		return "bool"
	case int64:
		return "int"
	case float64:
		return "float"
	case string:
		return "string"
	case []any:
		return "array"
	case map[string]any:
		return "map"
	}
	return "other"
}

func Run(cs Case, c *vrt.Ctx) {
	elem := wx.Dec(cs.Elem)
	var in any = elem
	if cs.Gen {
		if g := alt.Generify(elem, keepAll); g != nil {
			in = g
		}
		c.Class("gen")
	}
	// the reference only knows the operators whose semantics the statement fixes
	want, res := false, &jpx.Result{Feat: map[string]bool{}, DontCare: "operator-outside-fixed-set"}
	if fixedOnly(cs.Eq) {
		want, res = jpx.Truth(cs.Eq, elem, elem)
	}
	for f := range res.Feat {
		c.Tag(f)
	}
	desc := fmt.Sprintf("script %s on %s", cs.Eq, canon.String(elem, canon.Value))
	c.Class("op:" + cs.Eq.Op)
	fixed := fixedOnly(cs.Eq) && res.DontCare == ""
	if res.Feat["operand-nothing"] || res.Feat["operand-multi"] || res.Feat["compares-container"] || mixedKinds(cs.Eq, elem) || !fixedOnly(cs.Eq) {
		c.NonTrivial()
	}
	// totality
	var s *jp.Script
	if pv, stack := vrt.Catch(func() { s = cs.Eq.Build().Script() }); pv != nil {
		c.Fail("panic", "Equation.Script", fmt.Sprintf("%v at %s; %s", pv, stack, desc))
		return
	}
	c.Sample(map[string]any{"script": cs.Eq.String(), "jp": s.String(), "elem": canon.String(elem, canon.Value), "want": want, "fixed": fixed})
	var got bool
	if pv, stack := vrt.Catch(func() { got = s.Match(in) }); pv != nil {
		c.Fail("panic", "Script.Match", fmt.Sprintf("%v at %s; %s", pv, stack, desc), "op:"+cs.Eq.Op)
		return
	}
	if pv, stack := vrt.Catch(func() { _ = s.Eval([]any{}, []any{in, in}) }); pv != nil {
		c.Fail("panic", "Script.Eval", fmt.Sprintf("%v at %s; %s", pv, stack, desc), "op:"+cs.Eq.Op)
	}
	// Match(v) <=> v in Get($[?script], [v])
	var sel []any
	x := jp.R().F(cs.Eq.Build())
	var holder any = []any{in}
	if pv, stack := vrt.Catch(func() { sel = x.Get(holder) }); pv != nil {
		c.Fail("panic", "Get(filter)", fmt.Sprintf("%v at %s; %s", pv, stack, desc), "op:"+cs.Eq.Op)
	} else if usesRoot(cs.Eq) {
		c.Class("uses-root(match-vs-filter skipped: different roots)")
	} else if (len(sel) == 1) != got {
		c.Fail("match-vs-filter", "Script.Match", fmt.Sprintf("%s: Match=%v but the filter selects %d of 1", desc, got, len(sel)), "op:"+cs.Eq.Op)
	}
	// the element inside a root that is another value with members of the same names: an
	// operand that starts at $ reads the root, one that starts at @ reads the element
	if rm, ok := wx.Dec(cs.Root).(map[string]any); ok && cs.Root != nil {
		root := map[string]any{}
		for k, v := range rm {
			root[k] = v
		}
		root["items"] = []any{elem}
		var rin any = root
		if cs.Gen {
			if g := alt.Generify(root, keepAll); g != nil {
				rin = g
			}
		}
		c.Class("with-distinct-root")
		if usesRoot(cs.Eq) {
			c.Class("with-distinct-root:script-reads-it")
			c.NonTrivial()
		}
		var rsel []any
		rx := jp.R().C("items").F(cs.Eq.Build())
		if pv, stack := vrt.Catch(func() { rsel = rx.Get(rin) }); pv != nil {
			c.Fail("panic", "Get(filter, distinct root)", fmt.Sprintf("%v at %s; %s in root %s", pv, stack, desc, canon.String(root, canon.Value)), "op:"+cs.Eq.Op)
		} else if fixedOnly(cs.Eq) {
			rwant, rres := jpx.Truth(cs.Eq, elem, root)
			if rres.DontCare == "" && (len(rsel) == 1) != rwant {
				c.Fail("wrong-truth-with-root", "Get(filter)", fmt.Sprintf("%s as $.items[0] of %s: the filter selects %d of 1, want %v", desc, canon.String(root, canon.Value), len(rsel), rwant), "op:"+cs.Eq.Op)
			}
		}
	}
	// the same script read from its text (the parser orders operators by precedence and
	// regroups what it read right-nested) evaluates like the one that was built
	// (the script and the equation it was made from have printers of their own)
	for ti, text := range []string{s.String(), cs.Eq.Build().String()} {
		var parsed *jp.Script
		var perr error
		where := []string{"NewScript(Script.String)", "NewScript(Equation.String)"}[ti]
		if pv, stack := vrt.Catch(func() { parsed, perr = jp.NewScript(text) }); pv != nil {
			c.Fail("panic", where, fmt.Sprintf("%v at %s; %s", pv, stack, desc), "op:"+cs.Eq.Op)
		} else if perr != nil || parsed == nil {
			c.Class("text-does-not-parse(C14)")
		} else {
			var pgot bool
			if pv, stack := vrt.Catch(func() { pgot = parsed.Match(in) }); pv != nil {
				c.Fail("panic", "Script.Match(parsed)", fmt.Sprintf("%v at %s; %s", pv, stack, desc), "op:"+cs.Eq.Op)
			} else if pgot != got {
				c.Fail("parsed-differs-from-built", where, fmt.Sprintf("%s: built %s gives %v, read from the text %s it prints as %s and gives %v", desc, s.String(), got, text, parsed.String(), pgot), "op:"+cs.Eq.Op)
			}
		}
	}
	// and read as part of a path, which has a front-end of its own for filters
	if !usesRoot(cs.Eq) {
		var px jp.Expr
		var pxerr error
		ftext := "$" + cs.Eq.Build().Filter().String()
		if pv, stack := vrt.Catch(func() { px, pxerr = jp.ParseString(ftext) }); pv != nil {
			c.Fail("panic", "jp.ParseString", fmt.Sprintf("%v at %s; %s", pv, stack, desc), "op:"+cs.Eq.Op)
		} else if pxerr != nil {
			c.Class("text-does-not-parse(C14)")
		} else {
			var psel []any
			if pv, stack := vrt.Catch(func() { psel = px.Get(holder) }); pv != nil {
				c.Fail("panic", "Get(parsed filter)", fmt.Sprintf("%v at %s; %s", pv, stack, desc), "op:"+cs.Eq.Op)
			} else if (len(psel) == 1) != got {
				c.Fail("parsed-differs-from-built", "jp.ParseString", fmt.Sprintf("%s: built %s gives %v, the path %s read from text prints as %s and selects %d of 1", desc, s.String(), got, ftext, px.String(), len(psel)), "op:"+cs.Eq.Op)
			}
		}
	}
	// the element with its three element arrays held as Go arrays ([3]any, reached by
	// reflection): still total, and the same truth value unless whole containers are compared
	if ain, changed := goArrays(elem); changed && !cs.Gen {
		c.Class("go-arrays")
		var agot bool
		if pv, stack := vrt.Catch(func() { agot = s.Match(ain) }); pv != nil {
			c.Fail("panic", "Script.Match(Go arrays)", fmt.Sprintf("%v at %s; %s", pv, stack, desc), "op:"+cs.Eq.Op)
		} else if agot != got && fixed && !res.Feat["compares-container"] && !res.Feat["operand-multi"] {
			c.Class("go-arrays-differ(reflection: C11)")
		}
		if pv, stack := vrt.Catch(func() { _ = jp.R().F(cs.Eq.Build()).Get([]any{ain}) }); pv != nil {
			c.Fail("panic", "Get(filter, Go arrays)", fmt.Sprintf("%v at %s; %s", pv, stack, desc), "op:"+cs.Eq.Op)
		}
	}
	// determinism
	if again := s.Match(in); again != got {
		c.Fail("nondeterministic", "Script.Match", fmt.Sprintf("%s: %v then %v", desc, got, again))
	}
	if fixed && got != want {
		c.Fail("wrong-truth", "Script.Match", fmt.Sprintf("%s (%s): got %v want %v", desc, s.String(), got, want), "op:"+cs.Eq.Op)
	}
	if !fixed {
		c.Class("totality-only")
	}
	// laws on single-valued comparisons
	if cs.Eq.L != nil && cs.Eq.R != nil && fixed && !res.Feat["operand-multi"] {
		switch cs.Eq.Op {
		case "eq", "neq":
			other := &jpx.Eq{Op: map[string]string{"eq": "neq", "neq": "eq"}[cs.Eq.Op], L: cs.Eq.L, R: cs.Eq.R}
			law(c, other, in, !got, "(a != b) == !(a == b)", desc)
		case "lt", "gt":
			other := &jpx.Eq{Op: map[string]string{"lt": "gt", "gt": "lt"}[cs.Eq.Op], L: cs.Eq.R, R: cs.Eq.L}
			law(c, other, in, got, "a < b <=> b > a", desc)
		case "lte", "gte":
			strict := &jpx.Eq{Op: map[string]string{"lte": "lt", "gte": "gt"}[cs.Eq.Op], L: cs.Eq.L, R: cs.Eq.R}
			eq := &jpx.Eq{Op: "eq", L: cs.Eq.L, R: cs.Eq.R}
			if sameKindOperands(cs.Eq, elem) {
				law(c, &jpx.Eq{Op: "or", L: strict, R: eq}, in, got, "a <= b <=> a < b || a == b", desc)
			}
		case "and", "or":
			// De Morgan: !(a && b) == (!a || !b)
			dual := &jpx.Eq{Op: map[string]string{"and": "or", "or": "and"}[cs.Eq.Op], L: &jpx.Eq{Op: "not", L: cs.Eq.L}, R: &jpx.Eq{Op: "not", L: cs.Eq.R}}
			if fixed {
				law(c, dual, in, !got, "De Morgan", desc)
			}
		}
	}
}

// goArrays returns the tree with every three element array held as a [3]any.
func goArrays(v any) (any, bool) {
	switch tv := v.(type) {
	case []any:
		changed := false
		out := make([]any, len(tv))
		for i, e := range tv {
			var ch bool
			out[i], ch = goArrays(e)
			changed = changed || ch
		}
		if len(out) == 3 {
			return [3]any{out[0], out[1], out[2]}, true
		}
		return out, changed
	case map[string]any:
		changed := false
		out := make(map[string]any, len(tv))
		for k, e := range tv {
			var ch bool
			out[k], ch = goArrays(e)
			changed = changed || ch
		}
		return out, changed
	}
	return v, false
}

func law(c *vrt.Ctx, e *jpx.Eq, in any, want bool, name, desc string) {
	var got bool
	if pv, stack := vrt.Catch(func() { got = e.Build().Script().Match(in) }); pv != nil {
		c.Fail("panic", "Script.Match", fmt.Sprintf("%v at %s; law %s; %s", pv, stack, name, desc))
		return
	}
	if got != want {
		c.Fail("law-broken", "Script.Match", fmt.Sprintf("%s: %s evaluates to %v; %s", name, e, got, desc), "law:"+name)
	}
}

func usesRoot(e *jpx.Eq) bool {
	if e == nil {
		return false
	}
	if (e.Op == "get" || e.Op == "length" || e.Op == "count") && len(e.P) > 0 && e.P[0].K == "root" {
		return true
	}
	return usesRoot(e.L) || usesRoot(e.R)
}

func operandValue(e *jpx.Eq, elem any) (any, bool) {
	switch e.Op {
	case "const":
		if e.CK == "nothing" || e.CK == "list" {
			return nil, false
		}
		switch e.CK {
		case "nil":
			return nil, true
		case "bool":
			return e.CB, true
		case "int":
			return e.CI, true
		case "float":
			return e.CF, true
		case "string":
			return e.CS, true
		}
	case "get":
		r := jpx.Eval(e.P, elem)
		if len(r.Locs) == 1 {
			return r.Locs[0].Val, true
		}
	}
	return nil, false
}

func mixedKinds(e *jpx.Eq, elem any) bool {
	if e == nil || e.L == nil || e.R == nil {
		return false
	}
	l, ok1 := operandValue(e.L, elem)
	r, ok2 := operandValue(e.R, elem)
	if ok1 && ok2 && kindOf(l) != kindOf(r) {
		return true
	}
	return mixedKinds(e.L, elem) || mixedKinds(e.R, elem)
}

func sameKindOperands(e *jpx.Eq, elem any) bool {
	l, ok1 := operandValue(e.L, elem)
	r, ok2 := operandValue(e.R, elem)
	if !ok1 || !ok2 {
		return false
	}
	kl, kr := kindOf(l), kindOf(r)
	if (kl == "int" || kl == "float") && (kr == "int" || kr == "float") {
		return true
	}
	return kl == kr && kl == "string"
}

// ---- exhaustive matrix ----

var operandPool = []struct {
	name string
	eq   *jpx.Eq
}{
	{"nil", &jpx.Eq{Op: "const", CK: "nil"}},
	{"true", &jpx.Eq{Op: "const", CK: "bool", CB: true}},
	{"false", &jpx.Eq{Op: "const", CK: "bool", CB: false}},
	{"int1", &jpx.Eq{Op: "const", CK: "int", CI: 1}},
	{"int2", &jpx.Eq{Op: "const", CK: "int", CI: 2}},
	{"int0", &jpx.Eq{Op: "const", CK: "int", CI: 0}},
	{"float1", &jpx.Eq{Op: "const", CK: "float", CF: 1.0}},
	{"float1.5", &jpx.Eq{Op: "const", CK: "float", CF: 1.5}},
	{"float2.5", &jpx.Eq{Op: "const", CK: "float", CF: 2.5}},
	{"str-a", &jpx.Eq{Op: "const", CK: "string", CS: "a"}},
	{"str-b", &jpx.Eq{Op: "const", CK: "string", CS: "b"}},
	{"str-empty", &jpx.Eq{Op: "const", CK: "string", CS: ""}},
	{"str-1", &jpx.Eq{Op: "const", CK: "string", CS: "1"}},
	{"nothing", &jpx.Eq{Op: "const", CK: "nothing"}},
	{"list", &jpx.Eq{Op: "const", CK: "list", CL: []jpx.Eq{{Op: "const", CK: "int", CI: 1}, {Op: "const", CK: "string", CS: "a"}, {Op: "const", CK: "float", CF: 1.5}}}},
	{"@.nil", get("nil")}, {"@.t", get("t")}, {"@.f", get("f")}, {"@.i1", get("i1")}, {"@.i2", get("i2")}, {"@.f1", get("f1")}, {"@.f15", get("f15")},
	{"@.sa", get("sa")}, {"@.sb", get("sb")}, {"@.arr", get("arr")}, {"@.arr2", get("arr2")}, {"@.map", get("map")}, {"@.missing", get("missing")},
	{"@.arr[*]", &jpx.Eq{Op: "get", P: jpx.Path{{K: "at"}, {K: "child", Key: "arr"}, {K: "wild"}}}},
	{"@.map.*", &jpx.Eq{Op: "get", P: jpx.Path{{K: "at"}, {K: "child", Key: "map"}, {K: "wild"}}}},
	{"@", &jpx.Eq{Op: "get", P: jpx.Path{{K: "at"}}}},
}

func clone(e *jpx.Eq) *jpx.Eq {
	if e == nil {
		return nil
	}
	c := *e
	c.L, c.R = clone(e.L), clone(e.R)
	return &c
}

func get(k string) *jpx.Eq {
	return &jpx.Eq{Op: "get", P: jpx.Path{{K: "at"}, {K: "child", Key: k}}}
}

var matrixElem = map[string]any{"nil": nil, "t": true, "f": false, "i1": int64(1), "i2": int64(2), "f1": 1.0, "f15": 1.5, "sa": "a", "sb": "b",
	"arr": []any{int64(1), "a", 1.5}, "arr2": []any{int64(1), "a", 1.5}, "map": map[string]any{"x": int64(1), "y": "a"}}

var binaryOps = []string{"eq", "neq", "lt", "gt", "lte", "gte", "and", "or", "exists", "has", "add", "sub", "mul", "div", "in", "empty", "rx", "match", "search"}

func TestEnumMatrix(t *testing.T) {
	n := 0
	elem := wx.Enc(matrixElem)
	for _, op := range binaryOps {
		for _, l := range operandPool {
			for _, r := range operandPool {
				for _, gen := range []bool{false, true} {
					vrt.Eval(suite, "script", Case{Eq: &jpx.Eq{Op: op, L: clone(l.eq), R: clone(r.eq)}, Elem: elem, Gen: gen}, Run)
					n++
				}
			}
		}
	}
	for _, l := range operandPool {
		for _, gen := range []bool{false, true} {
			vrt.Eval(suite, "script", Case{Eq: &jpx.Eq{Op: "not", L: l.eq}, Elem: elem, Gen: gen}, Run)
			n++
		}
	}
	// second level: the result of every operator on every operand pair must be a genuine
	// boolean when it is used as an operand itself (an evaluator that leaves something else
	// in the slot still looks false at top level)
	fv, tv := false, true
	for _, op := range binaryOps {
		for _, l := range operandPool {
			for _, r := range operandPool {
				inner := func() *jpx.Eq { return &jpx.Eq{Op: op, L: clone(l.eq), R: clone(r.eq)} }
				for _, outer := range []*jpx.Eq{
					{Op: "eq", L: inner(), R: &jpx.Eq{Op: "const", CK: "bool", CB: fv}},
					{Op: "neq", L: inner(), R: &jpx.Eq{Op: "const", CK: "bool", CB: fv}},
					{Op: "eq", L: &jpx.Eq{Op: "const", CK: "bool", CB: tv}, R: inner()},
					{Op: "or", L: inner(), R: &jpx.Eq{Op: "const", CK: "bool", CB: fv}},
				} {
					vrt.Eval(suite, "script", Case{Eq: outer, Elem: elem}, Run)
					n++
				}
			}
		}
	}
	for _, op := range []string{"length", "count"} {
		for _, k := range []string{"arr", "map", "sa", "i1", "missing", "nil"} {
			for _, r := range operandPool[:14] {
				e := &jpx.Eq{Op: "eq", L: &jpx.Eq{Op: op, P: jpx.Path{{K: "at"}, {K: "child", Key: k}}}, R: r.eq}
				vrt.Eval(suite, "script", Case{Eq: e, Elem: elem}, Run)
				n++
			}
		}
	}
	suite.AddExtra("matrix_cases", int64(n))
	suite.Extra("matrix_exhaustive_over", fmt.Sprintf("%d binary operators x %d x %d operands x {simple, gen}", len(binaryOps), len(operandPool), len(operandPool)))
}

func drawCase(t *rapid.T) Case {
	elem := jpx.DrawData(t, 3)
	if rapid.IntRange(0, 2).Draw(t, "mapelem") == 0 {
		m := map[string]any{}
		for _, k := range jpx.DataKeys {
			if rapid.IntRange(0, 3).Draw(t, "haskey") != 0 {
				m[k] = jpx.DrawData(t, 2)
			}
		}
		elem = m
	}
	e := jpx.DrawEq(t, 3, rapid.IntRange(0, 3).Draw(t, "fixedonly") != 0)
	cs := Case{Eq: e, Elem: wx.Enc(elem), Gen: rapid.IntRange(0, 3).Draw(t, "gen") == 0}
	if usesRoot(e) || rapid.IntRange(0, 3).Draw(t, "withroot") == 0 {
		m := map[string]any{}
		for _, k := range jpx.DataKeys {
			if rapid.IntRange(0, 3).Draw(t, "roothaskey") != 0 {
				m[k] = jpx.DrawData(t, 2)
			}
		}
		cs.Root = wx.Enc(m)
	}
	return cs
}

func TestPropRandom(t *testing.T) {
	vrt.Rapid(t, suite, "script", vrt.Scale(30000, 200000), drawCase, Run)
}

func TestReplay(t *testing.T) { suite.ReplayAll(t) }

var classifiers = []vrt.Classifier{}
