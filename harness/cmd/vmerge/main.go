// vmerge counts the distinct 64-bit hashes in the given files (8 bytes each, little endian).
package main

import (
	"encoding/binary"
	"fmt"
	"os"
)

func main() {
	set := map[uint64]struct{}{}
	for _, f := range os.Args[1:] {
		b, err := os.ReadFile(f)
		if err != nil {
			continue
		}
		for i := 0; i+8 <= len(b); i += 8 {
			set[binary.LittleEndian.Uint64(b[i:])] = struct{}{}
		}
	}
	fmt.Println(len(set))
}
