package ref

import (
	"fmt"
	"math/big"
	"strings"
	"unicode/utf16"
	"unicode/utf8"
)

type Kind uint8

const (
	Null Kind = iota
	Bool
	Num
	Str
	Arr
	Obj
)

// Node is the reference semantic tree: member order and duplicates preserved,
// numbers kept as their literal (exact value through Rat()).
type Node struct {
	Kind    Kind
	B       bool
	Lit     string // number literal as written
	S       string // decoded string
	Arr     []*Node
	Keys    []string
	Vals    []*Node
	KeyLone []bool   // key i contained an unpaired surrogate escape
	KeyAlt  []string // PairAlt of key i
	// LoneSurrogate is set on strings that contained an unpaired \uD800-\uDFFF
	// escape (decoded as U+FFFD here; any replacement is accepted by callers).
	LoneSurrogate bool
	// PairAlt is S with every escaped surrogate pair replaced by two U+FFFD (what a
	// decoder that does not combine pairs produces); empty if S has no escaped pair.
	PairAlt string
	Off     int // byte offset of the value's first byte
}

// Rat returns the exact value of a number node. Exponents are bounded by the
// generators (|exp| <= 9999) so this stays cheap.
func (n *Node) Rat() *big.Rat {
	if n.HugeExp() {
		return nil
	}
	r, ok := new(big.Rat).SetString(n.Lit)
	if !ok {
		panic("ref: bad number literal " + n.Lit)
	}
	return r
}

// HugeExp reports an exponent of more than 5 digits (after leading zeros): exact
// rational arithmetic is not attempted for those (only mutation produces them).
func (n *Node) HugeExp() bool {
	i := strings.IndexAny(n.Lit, "eE")
	if i < 0 {
		return false
	}
	e := strings.TrimLeft(strings.TrimLeft(n.Lit[i+1:], "+-"), "0")
	return len(e) > 5
}

// PlainInt reports whether the literal is -?digits with no fraction or exponent.
func (n *Node) PlainInt() bool {
	return !strings.ContainsAny(n.Lit, ".eE")
}

type decoder struct {
	d   []byte
	pos int
}

// Decode parses exactly one JSON text (surrounded by whitespace). It is a plain
// recursive-descent parser, independent of Machine; callers cross-check the two.
func Decode(data []byte) (n *Node, err error) {
	defer func() {
		if r := recover(); r != nil {
			if e, ok := r.(decErr); ok {
				n, err = nil, e
				return
			}
			panic(r)
		}
	}()
	d := &decoder{d: data}
	d.ws()
	n = d.value(0)
	d.ws()
	if d.pos != len(d.d) {
		d.fail("trailing data")
	}
	return n, nil
}

type decErr struct {
	msg string
	off int
}

func (e decErr) Error() string { return fmt.Sprintf("%s at %d", e.msg, e.off) }

func (d *decoder) fail(msg string) { panic(decErr{msg, d.pos}) }

func (d *decoder) ws() {
	for d.pos < len(d.d) && isWS(d.d[d.pos]) {
		d.pos++
	}
}

func (d *decoder) peek() byte {
	if d.pos >= len(d.d) {
		d.fail("unexpected end")
	}
	return d.d[d.pos]
}

func (d *decoder) value(depth int) *Node {
	off := d.pos
	b := d.peek()
	switch {
	case b == '{':
		d.pos++
		n := &Node{Kind: Obj, Off: off}
		d.ws()
		if d.peek() == '}' {
			d.pos++
			return n
		}
		for {
			d.ws()
			if d.peek() != '"' {
				d.fail("expected key")
			}
			k := d.str()
			d.ws()
			if d.peek() != ':' {
				d.fail("expected colon")
			}
			d.pos++
			d.ws()
			v := d.value(depth + 1)
			n.Keys = append(n.Keys, k.S)
			n.KeyLone = append(n.KeyLone, k.LoneSurrogate)
			n.KeyAlt = append(n.KeyAlt, k.PairAlt)
			n.Vals = append(n.Vals, v)
			d.ws()
			c := d.peek()
			d.pos++
			if c == '}' {
				return n
			}
			if c != ',' {
				d.pos--
				d.fail("expected , or }")
			}
		}
	case b == '[':
		d.pos++
		n := &Node{Kind: Arr, Off: off}
		d.ws()
		if d.peek() == ']' {
			d.pos++
			return n
		}
		for {
			d.ws()
			n.Arr = append(n.Arr, d.value(depth+1))
			d.ws()
			c := d.peek()
			d.pos++
			if c == ']' {
				return n
			}
			if c != ',' {
				d.pos--
				d.fail("expected , or ]")
			}
		}
	case b == '"':
		n := d.str()
		n.Off = off
		return n
	case b == '-' || ('0' <= b && b <= '9'):
		return d.num()
	case b == 'n':
		d.word("null")
		return &Node{Kind: Null, Off: off}
	case b == 't':
		d.word("true")
		return &Node{Kind: Bool, B: true, Off: off}
	case b == 'f':
		d.word("false")
		return &Node{Kind: Bool, Off: off}
	}
	d.fail("unexpected byte")
	return nil
}

func (d *decoder) word(w string) {
	if len(d.d)-d.pos < len(w) || string(d.d[d.pos:d.pos+len(w)]) != w {
		d.fail("bad literal")
	}
	d.pos += len(w)
}

func (d *decoder) digits() int {
	n := 0
	for d.pos < len(d.d) && '0' <= d.d[d.pos] && d.d[d.pos] <= '9' {
		d.pos++
		n++
	}
	return n
}

func (d *decoder) num() *Node {
	start := d.pos
	if d.d[d.pos] == '-' {
		d.pos++
	}
	if d.pos < len(d.d) && d.d[d.pos] == '0' {
		d.pos++
	} else if d.digits() == 0 {
		d.fail("expected digit")
	}
	if d.pos < len(d.d) && d.d[d.pos] == '.' {
		d.pos++
		if d.digits() == 0 {
			d.fail("expected fraction digit")
		}
	}
	if d.pos < len(d.d) && (d.d[d.pos] == 'e' || d.d[d.pos] == 'E') {
		d.pos++
		if d.pos < len(d.d) && (d.d[d.pos] == '+' || d.d[d.pos] == '-') {
			d.pos++
		}
		if d.digits() == 0 {
			d.fail("expected exponent digit")
		}
	}
	return &Node{Kind: Num, Lit: string(d.d[start:d.pos]), Off: start}
}

func hexVal(b byte) (rune, bool) {
	switch {
	case '0' <= b && b <= '9':
		return rune(b - '0'), true
	case 'a' <= b && b <= 'f':
		return rune(b-'a') + 10, true
	case 'A' <= b && b <= 'F':
		return rune(b-'A') + 10, true
	}
	return 0, false
}

func (d *decoder) hex4() rune {
	if len(d.d)-d.pos < 4 {
		d.pos = len(d.d)
		d.fail("short \\u")
	}
	var r rune
	for i := 0; i < 4; i++ {
		h, ok := hexVal(d.d[d.pos])
		if !ok {
			d.fail("bad hex")
		}
		r = r<<4 | h
		d.pos++
	}
	return r
}

func (d *decoder) str() *Node {
	d.pos++ // opening quote
	n := &Node{Kind: Str}
	var sb []byte
	var pairAt []int // byte offsets in sb of runes that came from an escaped pair
	hasPair := false
	for {
		b := d.peek()
		switch {
		case b == '"':
			d.pos++
			n.S = string(sb)
			if hasPair {
				n.PairAlt = pairAlt(n.S, pairAt)
			}
			return n
		case b < 0x20:
			d.fail("control byte in string")
		case b == '\\':
			d.pos++
			e := d.peek()
			d.pos++
			switch e {
			case '"', '\\', '/':
				sb = append(sb, e)
			case 'b':
				sb = append(sb, '\b')
			case 'f':
				sb = append(sb, '\f')
			case 'n':
				sb = append(sb, '\n')
			case 'r':
				sb = append(sb, '\r')
			case 't':
				sb = append(sb, '\t')
			case 'u':
				r := d.hex4()
				if utf16.IsSurrogate(r) {
					// a high surrogate followed by an escaped low surrogate is one code point
					if r < 0xDC00 && len(d.d)-d.pos >= 6 && d.d[d.pos] == '\\' && d.d[d.pos+1] == 'u' {
						save := d.pos
						d.pos += 2
						ok := true
						var r2 rune
						for i := 0; i < 4; i++ {
							h, hok := hexVal(d.d[d.pos+i])
							if !hok {
								ok = false
								break
							}
							r2 = r2<<4 | h
						}
						if ok && 0xDC00 <= r2 && r2 <= 0xDFFF {
							d.pos += 4
							pairAt = append(pairAt, len(sb))
							hasPair = true
							sb = utf8.AppendRune(sb, utf16.DecodeRune(r, r2))
							continue
						}
						d.pos = save
					}
					n.LoneSurrogate = true
					sb = utf8.AppendRune(sb, utf8.RuneError)
					continue
				}
				sb = utf8.AppendRune(sb, r)
			default:
				d.pos--
				d.fail("bad escape")
			}
		default:
			sb = append(sb, b)
			d.pos++
		}
	}
}

// LastWins returns the object's members with duplicates resolved (last wins),
// in order of first appearance of the surviving occurrence.
func (n *Node) LastWins() (keys []string, vals []*Node) {
	last := map[string]int{}
	for i, k := range n.Keys {
		last[k] = i
	}
	for i, k := range n.Keys {
		if last[k] == i {
			keys = append(keys, k)
			vals = append(vals, n.Vals[i])
		}
	}
	return
}

// HasDupKeys reports whether any object in the tree has a duplicate key.
func (n *Node) HasDupKeys() bool {
	switch n.Kind {
	case Arr:
		for _, c := range n.Arr {
			if c.HasDupKeys() {
				return true
			}
		}
	case Obj:
		seen := map[string]bool{}
		for i, k := range n.Keys {
			if seen[k] {
				return true
			}
			seen[k] = true
			if n.Vals[i].HasDupKeys() {
				return true
			}
		}
	}
	return false
}

func pairAlt(s string, at []int) string {
	var out []byte
	prev := 0
	for _, off := range at {
		out = append(out, s[prev:off]...)
		out = append(out, "\uFFFD\uFFFD"...)
		_, sz := utf8.DecodeRuneInString(s[off:])
		prev = off + sz
	}
	return string(append(out, s[prev:]...))
}
