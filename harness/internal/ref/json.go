// Package ref holds the reference models (oracles). Nothing here is derived from
// ojg's tables or code; json.go is written from the RFC 8259 grammar.
package ref

// Machine is a byte-at-a-time pushdown recogniser for exactly one RFC 8259 JSON
// text surrounded by JSON whitespace. After every byte it knows whether the
// prefix is dead (no extension is a JSON text), viable but incomplete, or
// complete.
type Machine struct {
	st     st
	stack  []byte // '[' or '{'
	lit    string // literal being matched
	litPos int
	isKey  bool // string being read is an object key
	seen   bool // a top-level value has started
	done   bool // the top-level value is complete
	dead   bool
	Tokens int // number of tokens completed or begun
	Depth  int // maximum depth reached
}

type st uint8

const (
	sValue    st = iota // a value must start (top level, after ':' or after ',' in an array)
	sArrFirst           // after '[': value or ']'
	sObjFirst           // after '{': key or '}'
	sObjKey             // after ',' in an object: key
	sColon              // after a key: ':'
	sAfter              // after a value: ',' or the matching close; at top level only whitespace
	sStr                // inside a string
	sEsc                // after '\'
	sU0                 // after '\u'
	sU1
	sU2
	sU3
	sNeg   // after '-'
	sZero  // after a leading 0
	sInt   // in integer digits
	sDot   // after '.'
	sFrac  // in fraction digits
	sE     // after e/E
	sESign // after exponent sign
	sExp   // in exponent digits
	sLit   // inside null/true/false
)

var stNames = [...]string{"value", "arr-first", "obj-first", "obj-key", "colon", "after", "str", "esc", "u0", "u1", "u2", "u3",
	"neg", "zero", "int", "dot", "frac", "e", "esign", "exp", "lit"}

// StateName describes the current grammar state (used to label matrix cells).
func (m *Machine) StateName() string {
	if m.dead {
		return "dead"
	}
	n := stNames[m.st]
	if m.st == sLit {
		n += ":" + m.lit[:m.litPos]
	}
	if m.st == sStr || (sEsc <= m.st && m.st <= sU3) {
		if m.isKey {
			n += "/key"
		}
	}
	if len(m.stack) == 0 {
		if m.done {
			return n + "@top-done"
		}
		return n + "@top"
	}
	return n + "@" + string(m.stack[len(m.stack)-1])
}

func isWS(b byte) bool { return b == ' ' || b == '\t' || b == '\n' || b == '\r' }

func isHex(b byte) bool {
	return ('0' <= b && b <= '9') || ('a' <= b && b <= 'f') || ('A' <= b && b <= 'F')
}

func (m *Machine) Dead() bool { return m.dead }

// Empty is true while only whitespace has been seen.
func (m *Machine) Empty() bool { return !m.seen && !m.dead }

// Complete is true if the input may end here and be exactly one JSON text.
func (m *Machine) Complete() bool {
	if m.dead || !m.seen {
		return false
	}
	if len(m.stack) != 0 {
		return false
	}
	switch m.st {
	case sAfter:
		return m.done
	case sZero, sInt, sFrac, sExp:
		return true // a top-level number ends with the input
	}
	return false
}

// InToken reports whether the machine is in the middle of a multi-byte token.
func (m *Machine) InToken() bool {
	return !m.dead && m.st >= sStr
}

// InEscape reports whether the machine is inside a string escape sequence.
func (m *Machine) InEscape() bool { return !m.dead && sEsc <= m.st && m.st <= sU3 }

func (m *Machine) valueEnd() {
	if len(m.stack) == 0 {
		m.done = true
	}
	m.st = sAfter
}

func (m *Machine) startValue(b byte) bool {
	m.seen = true
	m.Tokens++
	switch {
	case b == '[':
		m.stack = append(m.stack, '[')
		if len(m.stack) > m.Depth {
			m.Depth = len(m.stack)
		}
		m.st = sArrFirst
	case b == '{':
		m.stack = append(m.stack, '{')
		if len(m.stack) > m.Depth {
			m.Depth = len(m.stack)
		}
		m.st = sObjFirst
	case b == '"':
		m.isKey = false
		m.st = sStr
	case b == '-':
		m.st = sNeg
	case b == '0':
		m.st = sZero
	case '1' <= b && b <= '9':
		m.st = sInt
	case b == 'n':
		m.lit, m.litPos, m.st = "null", 1, sLit
	case b == 't':
		m.lit, m.litPos, m.st = "true", 1, sLit
	case b == 'f':
		m.lit, m.litPos, m.st = "false", 1, sLit
	default:
		return false
	}
	return true
}

// Feed consumes one byte; it returns false once the prefix is dead.
func (m *Machine) Feed(b byte) bool {
	if m.dead {
		return false
	}
	ok := m.feed(b)
	if !ok {
		m.dead = true
	}
	return ok
}

func (m *Machine) feed(b byte) bool {
	switch m.st {
	case sValue:
		if isWS(b) {
			return true
		}
		return m.startValue(b)
	case sArrFirst:
		if isWS(b) {
			return true
		}
		if b == ']' {
			m.stack = m.stack[:len(m.stack)-1]
			m.valueEnd()
			return true
		}
		return m.startValue(b)
	case sObjFirst:
		if isWS(b) {
			return true
		}
		if b == '}' {
			m.stack = m.stack[:len(m.stack)-1]
			m.valueEnd()
			return true
		}
		if b == '"' {
			m.isKey = true
			m.st = sStr
			m.Tokens++
			return true
		}
		return false
	case sObjKey:
		if isWS(b) {
			return true
		}
		if b == '"' {
			m.isKey = true
			m.st = sStr
			m.Tokens++
			return true
		}
		return false
	case sColon:
		if isWS(b) {
			return true
		}
		if b == ':' {
			m.st = sValue
			return true
		}
		return false
	case sAfter:
		if isWS(b) {
			return true
		}
		if len(m.stack) == 0 {
			return false
		}
		top := m.stack[len(m.stack)-1]
		switch {
		case b == ',' && top == '[':
			m.st = sValue
		case b == ',' && top == '{':
			m.st = sObjKey
		case b == ']' && top == '[', b == '}' && top == '{':
			m.stack = m.stack[:len(m.stack)-1]
			m.valueEnd()
		default:
			return false
		}
		return true
	case sStr:
		switch {
		case b == '"':
			if m.isKey {
				m.st = sColon
			} else {
				m.valueEnd()
			}
		case b == '\\':
			m.st = sEsc
		case b < 0x20:
			return false
		}
		return true
	case sEsc:
		switch b {
		case '"', '\\', '/', 'b', 'f', 'n', 'r', 't':
			m.st = sStr
		case 'u':
			m.st = sU0
		default:
			return false
		}
		return true
	case sU0, sU1, sU2:
		if !isHex(b) {
			return false
		}
		m.st++
		return true
	case sU3:
		if !isHex(b) {
			return false
		}
		m.st = sStr
		return true
	case sNeg:
		switch {
		case b == '0':
			m.st = sZero
		case '1' <= b && b <= '9':
			m.st = sInt
		default:
			return false
		}
		return true
	case sZero:
		switch b {
		case '.':
			m.st = sDot
			return true
		case 'e', 'E':
			m.st = sE
			return true
		}
		m.valueEnd()
		return m.feed(b)
	case sInt:
		switch {
		case '0' <= b && b <= '9':
			return true
		case b == '.':
			m.st = sDot
			return true
		case b == 'e' || b == 'E':
			m.st = sE
			return true
		}
		m.valueEnd()
		return m.feed(b)
	case sDot:
		if '0' <= b && b <= '9' {
			m.st = sFrac
			return true
		}
		return false
	case sFrac:
		switch {
		case '0' <= b && b <= '9':
			return true
		case b == 'e' || b == 'E':
			m.st = sE
			return true
		}
		m.valueEnd()
		return m.feed(b)
	case sE:
		switch {
		case b == '+' || b == '-':
			m.st = sESign
			return true
		case '0' <= b && b <= '9':
			m.st = sExp
			return true
		}
		return false
	case sESign:
		if '0' <= b && b <= '9' {
			m.st = sExp
			return true
		}
		return false
	case sExp:
		if '0' <= b && b <= '9' {
			return true
		}
		m.valueEnd()
		return m.feed(b)
	case sLit:
		if b != m.lit[m.litPos] {
			return false
		}
		m.litPos++
		if m.litPos == len(m.lit) {
			m.valueEnd()
		}
		return true
	}
	return false
}

// Verdict classifies a whole input (no BOM handling).
type Verdict struct {
	Empty    bool // nothing but whitespace
	Complete bool // exactly one JSON text
	DeadAt   int  // offset of the first byte that killed the prefix; len(input) if only incomplete; -1 if Complete or Empty
	Tokens   int
	Depth    int
	EndState string // grammar state at the end (or just before the killing byte)
}

// Scan runs the machine over data.
func Scan(data []byte) Verdict {
	var m Machine
	for i, b := range data {
		prev := ""
		_ = prev
		name := m.StateName()
		if !m.Feed(b) {
			return Verdict{DeadAt: i, Tokens: m.Tokens, Depth: m.Depth, EndState: name}
		}
	}
	v := Verdict{Tokens: m.Tokens, Depth: m.Depth, EndState: m.StateName(), DeadAt: -1}
	switch {
	case m.Empty():
		v.Empty = true
	case m.Complete():
		v.Complete = true
	default:
		v.DeadAt = len(data)
	}
	return v
}

// ScanFast is Scan without the state names (for bulk use).
func ScanFast(data []byte) (empty, complete bool, deadAt int) {
	var m Machine
	for i, b := range data {
		if !m.Feed(b) {
			return false, false, i
		}
	}
	switch {
	case m.Empty():
		return true, false, -1
	case m.Complete():
		return false, true, -1
	}
	return false, false, len(data)
}

// StripBOM removes one leading UTF-8 byte order mark.
func StripBOM(data []byte) ([]byte, bool) {
	if len(data) >= 3 && data[0] == 0xEF && data[1] == 0xBB && data[2] == 0xBF {
		return data[3:], true
	}
	return data, false
}

// SplitDocs splits a multi-document stream into its documents. Documents must
// be separated by whitespace unless the previous one ended with a closing
// bracket/brace/quote or the next one starts with an opening one (the cases the
// generators produce). ok is false if the stream is not a sequence of valid
// JSON texts; docs then holds the documents completed before the problem.
func SplitDocs(data []byte) (docs [][]byte, ok bool) {
	i := 0
	for {
		for i < len(data) && isWS(data[i]) {
			i++
		}
		if i >= len(data) {
			return docs, true
		}
		var m Machine
		start := i
		for {
			if i >= len(data) {
				if m.Complete() {
					docs = append(docs, data[start:i])
					return docs, true
				}
				return docs, false
			}
			b := data[i]
			if m.Complete() && m.st != sAfter {
				// top-level number: ends at whitespace
				if isWS(b) {
					docs = append(docs, data[start:i])
					break
				}
			}
			if !m.Feed(b) {
				return docs, false
			}
			i++
			if m.done && m.st == sAfter {
				docs = append(docs, data[start:i])
				// a literal glued to a following value ("null1") is one token in SEN:
				// outside the generated domain, the stream is reported as not valid
				if (b == 'l' || b == 'e') && i < len(data) && !isWS(data[i]) {
					return docs, false
				}
				break
			}
		}
	}
}
