package jpx

import (
	"sort"
)

// Loc is one selected location: normalised path steps (string key or int index)
// and the value found there.
type Loc struct {
	Path []any
	Val  any
}

// Result of the reference evaluation.
type Result struct {
	Locs []Loc
	// Ordered is false when the order of Locs is not defined by the statement
	// (fan-out over a map with >= 2 members, or a descent).
	Ordered bool
	// DontCare names the don't-care zone the evaluation ran into ("" = none).
	DontCare string
	// TrailScalars: in the zone "trailing-bare-descent" Locs holds every container the descent
	// starts from and everything below it, each location once; the scalars the descent starts
	// from are listed here (whether a descent selects a scalar it starts from is open).
	TrailScalars []any
	// Features seen while evaluating (for classification and known findings).
	Feat map[string]bool
}

type evaluator struct {
	root any
	res  *Result
	// mut: 0 = slices as Get reads them (the property); 1, 2, 3 = the readings found in the
	// mutation code (see mutSlice). Only used to attribute discrepancies to the recorded
	// finding C13-K1.
	mut int
	// sliceHook, when set, may replace the selection of a slice on a given array (used to
	// emulate recorded findings on particular representations, never for the property itself)
	sliceHook func(arr []any, s []int) ([]int, bool)
	// orderedMap, when set, says that the members of this map have a defined order in the
	// representation at hand (a struct: field order, which is the sorted key order used here)
	orderedMap func(m map[string]any) bool
}

func (ev *evaluator) feat(f string) { ev.res.Feat[f] = true }

// Eval evaluates the path on data (both $ and @ at the top level are data).
func Eval(p Path, data any) *Result {
	res := &Result{Ordered: true, Feat: map[string]bool{}}
	ev := &evaluator{root: data, res: res}
	res.Locs = ev.path(p, data, nil, true)
	return res
}

// EvalMutationReading evaluates the path with slices read the way jp's Set / Del / Remove /
// Modify read them (reading 1, 2 or 3, see mutSlice).
func EvalMutationReading(p Path, data any, reading int) *Result {
	res := &Result{Ordered: true, Feat: map[string]bool{}}
	ev := &evaluator{root: data, res: res, mut: reading}
	res.Locs = ev.path(p, data, nil, true)
	return res
}

// EvalSliceHook evaluates the path with hook deciding what a slice selects on the arrays it
// claims; slices inside filters are not affected.
func EvalSliceHook(p Path, data any, hook func(arr []any, s []int) ([]int, bool)) *Result {
	res := &Result{Ordered: true, Feat: map[string]bool{}}
	ev := &evaluator{root: data, res: res, sliceHook: hook}
	res.Locs = ev.path(p, data, nil, true)
	return res
}

// EvalOrderedMaps evaluates the path like Eval but takes the member order of the maps that
// ordered accepts as defined (sorted keys).
func EvalOrderedMaps(p Path, data any, ordered func(m map[string]any) bool) *Result {
	res := &Result{Ordered: true, Feat: map[string]bool{}}
	ev := &evaluator{root: data, res: res, orderedMap: ordered}
	res.Locs = ev.path(p, data, nil, true)
	return res
}

// mutSlice: defaults 0 / -1 / 1, negative bounds count from the end, the end is inclusive,
// an end beyond the array is the last index, a start outside the array selects nothing.
// reading 1 (jp/modify.go, every slice of Modify and the inner slices of Remove): a negative
// step walks from the start down to the end. reading 2 (Slice.remove, the last fragment of
// Remove): a negative step is anchored at the end. reading 3 (jp/set.go, Set and Del): the end
// is first moved to start + (end-start)/step*step with Go's truncating division, so a bound
// pair in the wrong direction for the step selects the start alone when they are less than
// a step apart.
func mutSlice(s []int, n, reading int, last bool) []int {
	start, end, step := 0, -1, 1
	if len(s) > 0 {
		start = s[0]
	}
	if len(s) > 1 {
		end = s[1]
	}
	if len(s) > 2 {
		step = s[2]
	}
	if start < 0 {
		start += n
	}
	if end < 0 {
		end += n
	}
	if start < 0 || end < 0 || n <= start || step == 0 {
		return nil
	}
	if n <= end {
		end = n - 1
	}
	var out []int
	if reading == 3 {
		end = start + ((end - start) / step * step)
		if step > 0 {
			for i := start; i <= end; i += step {
				out = append(out, i)
			}
		} else {
			for i := end; i <= start; i -= step {
				out = append(out, i)
			}
		}
		return out
	}
	if step > 0 {
		for i := start; i <= end; i += step {
			out = append(out, i)
		}
		return out
	}
	if reading == 1 || !last { // anchored at the start: start, start+step, ... down to end
		for i := start; i >= end; i += step {
			out = append(out, i)
		}
		return out
	}
	for i := start; i >= end; i-- { // anchored at the end
		if (i-end)%(-step) == 0 {
			out = append(out, i)
		}
	}
	return out
}

func extend(path []any, step any) []any {
	out := make([]any, len(path)+1)
	copy(out, path)
	out[len(path)] = step
	return out
}

func sortedKeys(m map[string]any) []string {
	keys := make([]string, 0, len(m))
	for k := range m {
		keys = append(keys, k)
	}
	sort.Strings(keys)
	return keys
}

// path evaluates fragments starting from cur (@) at the location curPath.
func (ev *evaluator) path(p Path, cur any, curPath []any, top bool) []Loc {
	locs := []Loc{{Path: curPath, Val: cur}}
	for fi, f := range p {
		last := fi == len(p)-1
		pos := "inner"
		if last {
			pos = "last"
		}
		var next []Loc
		switch f.K {
		case "root":
			next = []Loc{{Path: nil, Val: ev.root}}
		case "at", "bracket":
			next = locs
		case "child":
			for _, l := range locs {
				if m, ok := l.Val.(map[string]any); ok {
					if v, has := m[f.Key]; has {
						next = append(next, Loc{extend(l.Path, f.Key), v})
					}
				}
			}
		case "nth":
			for _, l := range locs {
				if a, ok := l.Val.([]any); ok {
					i := f.N
					if i < 0 {
						i += len(a)
						ev.feat("nth-negative:" + pos)
					}
					if 0 <= i && i < len(a) {
						next = append(next, Loc{extend(l.Path, i), a[i]})
					} else {
						ev.feat("nth-out-of-range:" + pos)
					}
				}
			}
		case "wild":
			for _, l := range locs {
				next = append(next, ev.members(l)...)
			}
		case "descent":
			ev.res.Ordered = false
			ev.feat("descent:" + pos)
			// a bare descent with no selecting fragment after it: the statement does not say what
			// it selects (Get answers differently at the root and below it), see DESIGN C05 Z
			bare := true
			for _, g := range p[fi+1:] {
				if g.K != "bracket" && g.K != "at" {
					bare = false
				}
			}
			if bare {
				ev.res.DontCare = "trailing-bare-descent"
			}
			for _, l := range locs {
				if bare {
					switch l.Val.(type) {
					case map[string]any, []any:
					default:
						ev.res.TrailScalars = append(ev.res.TrailScalars, l.Val)
						continue
					}
				}
				next = append(next, l)
				next = ev.descendants(l, next)
			}
		case "union":
			for _, l := range locs {
				for _, u := range f.U {
					switch {
					case u.Key != nil:
						if m, ok := l.Val.(map[string]any); ok {
							if v, has := m[*u.Key]; has {
								next = append(next, Loc{extend(l.Path, *u.Key), v})
							}
						}
					case u.Idx != nil:
						if a, ok := l.Val.([]any); ok {
							i := *u.Idx
							if i < 0 {
								i += len(a)
							}
							if 0 <= i && i < len(a) {
								next = append(next, Loc{extend(l.Path, i), a[i]})
							}
						}
					}
				}
			}
		case "slice":
			for _, l := range locs {
				if a, ok := l.Val.([]any); ok {
					idx, hooked := []int(nil), false
					if ev.sliceHook != nil {
						idx, hooked = ev.sliceHook(a, f.S)
					}
					if !hooked {
						idx = ev.sliceIndexes(f.S, len(a), pos)
					}
					for _, i := range idx {
						next = append(next, Loc{extend(l.Path, i), a[i]})
					}
				}
			}
		case "filter":
			for _, l := range locs {
				ms := ev.members(l)
				for _, m := range ms {
					if ev.truth(f.F, m.Val) {
						next = append(next, m)
					}
				}
			}
		}
		locs = next
	}
	return locs
}

func (ev *evaluator) members(l Loc) []Loc {
	var out []Loc
	switch tv := l.Val.(type) {
	case []any:
		for i, e := range tv {
			out = append(out, Loc{extend(l.Path, i), e})
		}
	case map[string]any:
		if len(tv) >= 2 && (ev.orderedMap == nil || !ev.orderedMap(tv)) {
			ev.res.Ordered = false
		}
		for _, k := range sortedKeys(tv) {
			out = append(out, Loc{extend(l.Path, k), tv[k]})
		}
	}
	return out
}

func (ev *evaluator) descendants(l Loc, out []Loc) []Loc {
	switch tv := l.Val.(type) {
	case []any:
		for i, e := range tv {
			c := Loc{extend(l.Path, i), e}
			out = append(out, c)
			out = ev.descendants(c, out)
		}
	case map[string]any:
		for _, k := range sortedKeys(tv) {
			c := Loc{extend(l.Path, k), tv[k]}
			out = append(out, c)
			out = ev.descendants(c, out)
		}
	}
	return out
}

// sliceIndexes implements "start (inclusive) to end (exclusive) by step, negative
// bounds count from the end, a negative step walks downwards" as written out in
// DESIGN.md section 3.6.
func (ev *evaluator) sliceIndexes(s []int, n int, pos string) []int {
	if ev.mut != 0 {
		return mutSlice(s, n, ev.mut, pos == "last")
	}
	start, end, step := 0, MaxEnd, 1
	if len(s) > 0 {
		start = s[0]
	}
	if len(s) > 1 {
		end = s[1]
	}
	if len(s) > 2 {
		step = s[2]
	}
	if step == 0 {
		ev.feat("slice-step-zero:" + pos)
		return nil
	}
	if step < 0 && start >= n && n > 0 {
		ev.feat("slice-negstep-start-beyond")
	}
	if step < 0 && (len(s) < 2 || end == MaxEnd || start >= n) {
		// defaulted bound or start >= n with a negative step: not decided by the statement
		ev.res.DontCare = "slice-negative-step-defaulted-bound"
	}
	if start < 0 {
		start += n
		if start < 0 {
			start = 0
		}
	}
	if end < 0 {
		end += n
	}
	if start >= n {
		ev.feat("slice-start-beyond:" + pos)
		return nil
	}
	if end > n {
		end = n
	}
	var out []int
	if step > 0 {
		for i := start; i < end; i += step {
			out = append(out, i)
		}
	} else {
		if end < -1 {
			end = -1
		}
		for i := start; i > end; i += step {
			out = append(out, i)
		}
	}
	if len(out) == 0 {
		if step > 1 || step < -1 {
			ev.feat("slice-empty-range-bigstep:" + pos)
		} else {
			ev.feat("slice-empty-range:" + pos)
		}
	}
	if step != 1 {
		ev.feat("slice-step:" + pos)
	}
	return out
}

// ---- script semantics (property C12) ----

type nothing struct{}

// Nothing is the value of a sub-path that selects no location.
var Nothing = nothing{}

type multi []any

// operand evaluates a const or a path operand relative to the element.
func (ev *evaluator) operand(e *Eq, elem any) any {
	switch e.Op {
	case "const":
		if e.CK == "nothing" {
			return Nothing
		}
		return e.constValue()
	case "get":
		var locs []Loc
		if len(e.P) > 0 && e.P[0].K == "root" {
			ev.feat("filter-uses-root")
			sub := &evaluator{root: ev.root, res: &Result{Ordered: true, Feat: ev.res.Feat}}
			locs = sub.path(e.P, ev.root, nil, false)
			if sub.res.DontCare != "" {
				ev.res.DontCare = sub.res.DontCare
			}
		} else {
			sub := &evaluator{root: ev.root, res: &Result{Ordered: true, Feat: ev.res.Feat}}
			locs = sub.path(e.P, elem, nil, false)
			if sub.res.DontCare != "" {
				ev.res.DontCare = sub.res.DontCare
			}
		}
		switch len(locs) {
		case 0:
			ev.feat("operand-nothing")
			return Nothing
		case 1:
			return locs[0].Val
		}
		ev.feat("operand-multi")
		m := make(multi, len(locs))
		for i, l := range locs {
			m[i] = l.Val
		}
		return m
	}
	return nil
}

// collect evaluates every path operand of the script once.
func (ev *evaluator) collect(e *Eq, elem any, env map[*Eq]any, order *[]*Eq) {
	if e == nil {
		return
	}
	switch e.Op {
	case "const":
		return
	case "get":
		env[e] = ev.operand(e, elem)
		if _, ok := env[e].(multi); ok {
			*order = append(*order, e)
		}
		return
	}
	ev.collect(e.L, elem, env, order)
	ev.collect(e.R, elem, env, order)
}

// single evaluates the script with every operand single-valued (env).
func (ev *evaluator) single(e *Eq, env map[*Eq]any) any {
	switch e.Op {
	case "const":
		if e.CK == "nothing" {
			return Nothing
		}
		return e.constValue()
	case "get":
		return env[e]
	case "not":
		b, _ := ev.single(e.L, env).(bool)
		return !b
	case "and":
		l, _ := ev.single(e.L, env).(bool)
		r, _ := ev.single(e.R, env).(bool)
		return l && r
	case "or":
		l, _ := ev.single(e.L, env).(bool)
		r, _ := ev.single(e.R, env).(bool)
		return l || r
	}
	l, r := ev.single(e.L, env), ev.single(e.R, env)
	if e.Op == "eq" || e.Op == "neq" {
		for _, v := range []any{l, r} {
			switch v.(type) {
			case []any, map[string]any:
				ev.feat("compares-container")
			}
		}
	}
	return Compare(e.Op, l, r)
}

// truth: a multi-valued operand makes the script true if ANY combination of single
// values makes the whole script true.
func (ev *evaluator) truth(e *Eq, elem any) bool {
	env := map[*Eq]any{}
	var order []*Eq
	ev.collect(e, elem, env, &order)
	if len(order) == 0 {
		b, _ := ev.single(e, env).(bool)
		return b
	}
	total := 1
	for _, m := range order {
		total *= len(env[m].(multi))
		if total > 20000 {
			ev.res.DontCare = "too-many-multi-value-combinations"
			return false
		}
	}
	multis := make([]multi, len(order))
	for i, m := range order {
		multis[i] = env[m].(multi)
	}
	for c := 0; c < total; c++ {
		x := c
		for i, m := range order {
			env[m] = multis[i][x%len(multis[i])]
			x /= len(multis[i])
		}
		if b, _ := ev.single(e, env).(bool); b {
			return true
		}
	}
	return false
}

// Truth evaluates a script recipe on one element with the given root.
func Truth(e *Eq, elem, root any) (bool, *Result) {
	res := &Result{Ordered: true, Feat: map[string]bool{}}
	ev := &evaluator{root: root, res: res}
	return ev.truth(e, elem), res
}

func num(v any) (float64, int64, int) { // kind: 0 none, 1 int, 2 float
	switch tv := v.(type) {
	case int64:
		return 0, tv, 1
	case int:
		return 0, int64(tv), 1
	case float64:
		return tv, 0, 2
	}
	return 0, 0, 0
}

// Equal: numbers by value across int and float, strings, bools, nil; containers
// and mismatched kinds are simply unequal; Nothing equals only Nothing.
func Equal(a, b any) bool {
	fa, ia, ka := num(a)
	fb, ib, kb := num(b)
	if ka != 0 || kb != 0 {
		if ka == 0 || kb == 0 {
			return false
		}
		switch {
		case ka == 1 && kb == 1:
			return ia == ib
		case ka == 1:
			return float64(ia) == fb
		case kb == 1:
			return fa == float64(ib)
		}
		return fa == fb
	}
	switch ta := a.(type) {
	case nil:
		return b == nil
	case bool:
		tb, ok := b.(bool)
		return ok && ta == tb
	case string:
		tb, ok := b.(string)
		return ok && ta == tb
	case nothing:
		_, ok := b.(nothing)
		return ok
	}
	return false
}

// Compare implements == != < > <= >= exists has on single values.
func Compare(op string, a, b any) bool {
	switch op {
	case "eq":
		return Equal(a, b)
	case "neq":
		return !Equal(a, b)
	case "exists", "has":
		boo, ok := b.(bool)
		if !ok {
			return false
		}
		_, isNothing := a.(nothing)
		return boo == !isNothing
	}
	fa, ia, ka := num(a)
	fb, ib, kb := num(b)
	if ka != 0 && kb != 0 {
		var c int
		switch {
		case ka == 1 && kb == 1:
			c = cmpInt(ia, ib)
		case ka == 1:
			c = cmpFloat(float64(ia), fb)
		case kb == 1:
			c = cmpFloat(fa, float64(ib))
		default:
			c = cmpFloat(fa, fb)
		}
		return ordered(op, c)
	}
	sa, oka := a.(string)
	sb, okb := b.(string)
	if oka && okb {
		c := 0
		if sa < sb {
			c = -1
		} else if sa > sb {
			c = 1
		}
		return ordered(op, c)
	}
	return false // ordering between different kinds (and of bool, nil, containers) is false
}

func cmpInt(a, b int64) int {
	if a < b {
		return -1
	} else if a > b {
		return 1
	}
	return 0
}

func cmpFloat(a, b float64) int {
	if a < b {
		return -1
	} else if a > b {
		return 1
	} else if a == b {
		return 0
	}
	return 2 // NaN
}

func ordered(op string, c int) bool {
	if c == 2 {
		return false
	}
	switch op {
	case "lt":
		return c < 0
	case "gt":
		return c > 0
	case "lte":
		return c <= 0
	case "gte":
		return c >= 0
	}
	return false
}
