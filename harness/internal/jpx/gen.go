package jpx

import (
	"pgregory.net/rapid"
)

var DataKeys = []string{"a", "b", "c", "x"}
var hostileKeys = []string{"a b", "", "é", "it's", `q"`, "*", "0", "$", "@", "a.b", "[0]", "\\", "\n"}

// every ASCII control character (each has its own entry in the escape tables of the
// printers and its own case in the parser), DEL, and the characters around them
func init() {
	for b := 0; b < 0x20; b++ {
		hostileKeys = append(hostileKeys, string(rune(b)), "k"+string(rune(b))+"z")
	}
	hostileKeys = append(hostileKeys, "\x7f", "a\x7fb", "\u0080", "\u2028", "tab\there", "\r\n", "/", "a/b", "`", "a|b", "#", "?", "(", ")", ",", ":", "a,b", "'", "''", `"'`, "\\'", "😀")
}

// DrawData draws a JSON-like tree whose keys and array lengths make the generated
// paths select something.
func DrawData(t *rapid.T, depth int) any {
	k := rapid.IntRange(0, 9).Draw(t, "dk")
	if depth <= 0 || k < 3 {
		return DrawScalar(t)
	}
	if k < 7 {
		n := rapid.IntRange(0, 6).Draw(t, "alen")
		out := make([]any, n)
		for i := range out {
			out[i] = DrawData(t, depth-1)
		}
		return out
	}
	n := rapid.IntRange(0, 4).Draw(t, "mlen")
	out := map[string]any{}
	for i := 0; i < n; i++ {
		key := rapid.SampledFrom(DataKeys).Draw(t, "key")
		if rapid.IntRange(0, 9).Draw(t, "hk") == 0 {
			key = rapid.SampledFrom(hostileKeys).Draw(t, "hkey")
		}
		out[key] = DrawData(t, depth-1)
	}
	return out
}

func DrawScalar(t *rapid.T) any {
	switch rapid.IntRange(0, 9).Draw(t, "sk") {
	case 0:
		return nil
	case 1:
		return rapid.Bool().Draw(t, "b")
	case 2, 3, 4:
		return int64(rapid.IntRange(-2, 5).Draw(t, "i"))
	case 5:
		return rapid.SampledFrom([]float64{1.5, 2.5, -0.5, 3.0, 2.0, 0.0, 1e3}).Draw(t, "f")
	case 6:
		return int64(rapid.SampledFrom([]int{100, -100, 1 << 40, 7}).Draw(t, "bi"))
	default:
		return rapid.SampledFrom([]string{"a", "b", "x", "", "abc", "1", "true", "B", "é"}).Draw(t, "s")
	}
}

// PathOpts steers DrawPath.
type PathOpts struct {
	MaxFrags          int
	FilterDepth       int // 0 = no filters
	NoDescent         bool
	LastAdmit         []string // if non-nil the last fragment kind is drawn from this list
	NoTrailingDescent bool
	HostileKeys       bool
}

var sliceBounds = []int{-9, -7, -6, -5, -4, -3, -2, -1, 0, 0, 1, 1, 2, 3, 4, 5, 6, 7, 9, MaxEnd}

func drawKey(t *rapid.T, hostile bool) string {
	if hostile && rapid.IntRange(0, 6).Draw(t, "hostk") == 0 {
		return rapid.SampledFrom(hostileKeys).Draw(t, "hkey")
	}
	return rapid.SampledFrom(DataKeys).Draw(t, "pkey")
}

func drawFrag(t *rapid.T, o PathOpts, kind string) Frag {
	switch kind {
	case "child":
		return Frag{K: "child", Key: drawKey(t, o.HostileKeys)}
	case "nth":
		return Frag{K: "nth", N: rapid.IntRange(-8, 8).Draw(t, "n")}
	case "wild":
		return Frag{K: "wild"}
	case "descent":
		return Frag{K: "descent"}
	case "union":
		n := rapid.IntRange(1, 4).Draw(t, "nu")
		f := Frag{K: "union"}
		for i := 0; i < n; i++ {
			if rapid.Bool().Draw(t, "uk") {
				k := drawKey(t, o.HostileKeys)
				f.U = append(f.U, UItem{Key: &k})
			} else {
				x := rapid.IntRange(-7, 7).Draw(t, "ui")
				f.U = append(f.U, UItem{Idx: &x})
			}
		}
		return f
	case "slice":
		n := rapid.IntRange(0, 3).Draw(t, "ns")
		f := Frag{K: "slice"}
		for i := 0; i < n; i++ {
			if i == 2 {
				f.S = append(f.S, rapid.SampledFrom([]int{-3, -2, -1, 0, 1, 1, 2, 3}).Draw(t, "step"))
			} else {
				f.S = append(f.S, rapid.SampledFrom(sliceBounds).Draw(t, "sb"))
			}
		}
		return f
	case "filter":
		return Frag{K: "filter", F: DrawEq(t, o.FilterDepth, true)}
	}
	return Frag{K: kind}
}

var fragKinds = []string{"child", "child", "child", "nth", "nth", "wild", "descent", "union", "slice", "slice", "filter"}

// DrawPath draws an expression recipe.
func DrawPath(t *rapid.T, o PathOpts) Path {
	var p Path
	switch rapid.IntRange(0, 5).Draw(t, "head") {
	case 0:
		p = append(p, Frag{K: "at"})
	case 1:
	default:
		p = append(p, Frag{K: "root"})
	}
	max := o.MaxFrags
	if max == 0 {
		max = 5
	}
	n := rapid.IntRange(1, max).Draw(t, "nfrags")
	for i := 0; i < n; i++ {
		kind := rapid.SampledFrom(fragKinds).Draw(t, "fk")
		if i == n-1 && o.LastAdmit != nil {
			kind = rapid.SampledFrom(o.LastAdmit).Draw(t, "lastk")
		}
		if kind == "filter" && o.FilterDepth <= 0 {
			kind = "wild"
		}
		if kind == "descent" && (o.NoDescent || (i == n-1 && o.NoTrailingDescent)) {
			kind = "child"
		}
		// Bracket is a display flag ("show the path in bracket notation"); it is only meaningful
		// as a leading fragment, so it is only generated there
		if i == 0 && rapid.IntRange(0, 9).Draw(t, "brk") == 0 {
			p = append(p, Frag{K: "bracket"})
		}
		p = append(p, drawFrag(t, o, kind))
	}
	return p
}

var fixedCmp = []string{"eq", "eq", "neq", "lt", "gt", "lte", "gte"}

func drawConst(t *rapid.T) *Eq {
	switch rapid.IntRange(0, 7).Draw(t, "ck") {
	case 0:
		return &Eq{Op: "const", CK: "nil"}
	case 1:
		return &Eq{Op: "const", CK: "bool", CB: rapid.Bool().Draw(t, "cb")}
	case 2, 3, 4:
		return &Eq{Op: "const", CK: "int", CI: int64(rapid.IntRange(-2, 5).Draw(t, "ci"))}
	case 5:
		return &Eq{Op: "const", CK: "float", CF: rapid.SampledFrom([]float64{1.5, 2.5, -0.5, 0.5, 1e3}).Draw(t, "cf")}
	default:
		if rapid.IntRange(0, 5).Draw(t, "hostilecs") == 0 {
			return &Eq{Op: "const", CK: "string", CS: rapid.SampledFrom(hostileKeys).Draw(t, "hcs")}
		}
		return &Eq{Op: "const", CK: "string", CS: rapid.SampledFrom([]string{"a", "b", "x", "", "abc", "1", "B"}).Draw(t, "cs")}
	}
}

func drawSubPath(t *rapid.T) Path {
	var p Path
	if rapid.IntRange(0, 6).Draw(t, "subroot") == 0 {
		p = Path{{K: "root"}}
	} else {
		p = Path{{K: "at"}}
	}
	n := rapid.IntRange(0, 2).Draw(t, "subn")
	for i := 0; i < n; i++ {
		kind := rapid.SampledFrom([]string{"child", "child", "child", "nth", "wild", "slice", "union"}).Draw(t, "subk")
		f := drawFrag(t, PathOpts{}, kind)
		if f.K == "union" && len(f.U) == 1 {
			f.U = append(f.U, f.U[0]) // a union of one member is printed like a child or index step
		}
		p = append(p, f)
	}
	return p
}

func drawOperand(t *rapid.T) *Eq {
	if rapid.IntRange(0, 2).Draw(t, "isconst") == 0 {
		return drawConst(t)
	}
	return &Eq{Op: "get", P: drawSubPath(t)}
}

// DrawEq draws a script recipe. fixedOnly restricts to the operators whose semantics
// property C12 fixes (== != < > <= >= && || ! exists has).
func DrawEq(t *rapid.T, depth int, fixedOnly bool) *Eq {
	k := rapid.IntRange(0, 9).Draw(t, "ek")
	if depth > 0 && k < 3 {
		switch k {
		case 0:
			return &Eq{Op: "not", L: DrawEq(t, depth-1, fixedOnly)}
		case 1:
			return &Eq{Op: "and", L: DrawEq(t, depth-1, fixedOnly), R: DrawEq(t, depth-1, fixedOnly)}
		default:
			return &Eq{Op: "or", L: DrawEq(t, depth-1, fixedOnly), R: DrawEq(t, depth-1, fixedOnly)}
		}
	}
	if k == 3 {
		op := rapid.SampledFrom([]string{"exists", "has"}).Draw(t, "exop")
		return &Eq{Op: op, L: &Eq{Op: "get", P: drawSubPath(t)}, R: &Eq{Op: "const", CK: "bool", CB: rapid.Bool().Draw(t, "exb")}}
	}
	if !fixedOnly && k == 4 {
		op := rapid.SampledFrom([]string{"add", "sub", "mul", "div", "in", "empty", "rx", "match", "search"}).Draw(t, "xop")
		e := &Eq{Op: op, L: drawOperand(t), R: drawOperand(t)}
		if op == "in" && rapid.Bool().Draw(t, "inlist") {
			e.R = &Eq{Op: "const", CK: "list", CL: []Eq{*drawConst(t), *drawConst(t), *drawConst(t)}}
		}
		if op == "empty" {
			e.R = &Eq{Op: "const", CK: "bool", CB: rapid.Bool().Draw(t, "emb")}
		}
		if (op == "match" || op == "search") && rapid.IntRange(0, 2).Draw(t, "fnarg") == 0 {
			// the second argument of a function is an equation of its own
			parts := []string{"a", "b.", "x|y", "^k"}
			e.R = &Eq{Op: "add", L: &Eq{Op: "const", CK: "string", CS: rapid.SampledFrom(parts).Draw(t, "fa1")}, R: &Eq{Op: "const", CK: "string", CS: rapid.SampledFrom(parts).Draw(t, "fa2")}}
		}
		// arithmetic feeds a comparison
		if op == "add" || op == "sub" || op == "mul" || op == "div" {
			return &Eq{Op: rapid.SampledFrom(fixedCmp).Draw(t, "cmpa"), L: e, R: drawOperand(t)}
		}
		return e
	}
	if !fixedOnly && k == 5 {
		op := rapid.SampledFrom([]string{"length", "count"}).Draw(t, "lop")
		return &Eq{Op: rapid.SampledFrom(fixedCmp).Draw(t, "cmpl"), L: &Eq{Op: op, P: drawSubPath(t)}, R: drawConst(t)}
	}
	return &Eq{Op: rapid.SampledFrom(fixedCmp).Draw(t, "cmp"), L: drawOperand(t), R: drawOperand(t)}
}
