// Package jpx holds JSONPath recipes (serialisable constructor programs), their
// builders into jp.Expr / jp.Equation, generators, and the reference evaluator.
package jpx

import (
	"fmt"
	"strconv"
	"strings"

	"github.com/ohler55/ojg/jp"
)

// UItem is one union member: a key or an index.
type UItem struct {
	Key *string `json:"key,omitempty"`
	Idx *int    `json:"idx,omitempty"`
}

// Frag is a recipe for one path fragment.
type Frag struct {
	K   string  `json:"k"` // root at bracket child nth wild descent union slice filter
	Key string  `json:"key,omitempty"`
	N   int     `json:"n,omitempty"`
	U   []UItem `json:"u,omitempty"`
	S   []int   `json:"s,omitempty"` // 1-3 ints as given to jp.S()
	F   *Eq     `json:"f,omitempty"`
}

// Path is a recipe for an expression.
type Path []Frag

// Eq is a recipe for an equation (script) tree.
type Eq struct {
	Op string `json:"op"` // eq neq lt gt lte gte and or not exists has  | add sub mul div in empty rx length count match search | const get
	L  *Eq    `json:"l,omitempty"`
	R  *Eq    `json:"r,omitempty"`
	// const
	CK string  `json:"ck,omitempty"` // nil nothing bool int float string list
	CB bool    `json:"cb,omitempty"`
	CI int64   `json:"ci,omitempty"`
	CF float64 `json:"cf,omitempty"`
	CS string  `json:"cs,omitempty"`
	CL []Eq    `json:"cl,omitempty"` // list of consts
	// get / length / count
	P Path `json:"p,omitempty"`
}

// Build turns the recipe into a jp.Expr through the public constructors.
func (p Path) Build() jp.Expr {
	var x jp.Expr
	for _, f := range p {
		switch f.K {
		case "root":
			x = x.R()
		case "at":
			x = x.A()
		case "bracket":
			x = x.B()
		case "child":
			x = x.C(f.Key)
		case "nth":
			x = x.N(f.N)
		case "wild":
			x = x.W()
		case "descent":
			x = x.D()
		case "union":
			keys := make([]any, len(f.U))
			for i, u := range f.U {
				if u.Key != nil {
					keys[i] = *u.Key
				} else if u.Idx != nil {
					keys[i] = *u.Idx
				}
			}
			x = x.U(keys...)
		case "slice":
			if len(f.S) == 0 {
				x = append(x, jp.Slice{})
			} else {
				x = x.S(f.S[0], f.S[1:]...)
			}
		case "filter":
			x = x.F(f.F.Build())
		}
	}
	return x
}

// BuildLong builds the same expression with the long-named builder methods (Root, Child, Nth,
// ...), which are separate functions from the one-letter ones Build uses.
func (p Path) BuildLong() jp.Expr {
	var x jp.Expr
	for _, f := range p {
		switch f.K {
		case "root":
			x = x.Root()
		case "at":
			x = x.At()
		case "bracket":
			x = x.B()
		case "child":
			x = x.Child(f.Key)
		case "nth":
			x = x.Nth(f.N)
		case "wild":
			x = x.Wildcard()
		case "descent":
			x = x.Descent()
		case "union":
			keys := make([]any, len(f.U))
			for i, u := range f.U {
				if u.Key != nil {
					keys[i] = *u.Key
				} else if u.Idx != nil {
					keys[i] = *u.Idx
				}
			}
			x = x.Union(keys...)
		case "slice":
			if len(f.S) == 0 {
				x = append(x, jp.Slice{})
			} else {
				x = x.Slice(f.S[0], f.S[1:]...)
			}
		case "filter":
			x = x.Filter(f.F.Build())
		}
	}
	return x
}

func (e *Eq) constValue() any {
	switch e.CK {
	case "nil":
		return nil
	case "bool":
		return e.CB
	case "int":
		return e.CI
	case "float":
		return e.CF
	case "string":
		return e.CS
	case "list":
		out := make([]any, len(e.CL))
		for i := range e.CL {
			out[i] = e.CL[i].constValue()
		}
		return out
	}
	return nil
}

// Build turns the recipe into a *jp.Equation.
func (e *Eq) Build() *jp.Equation {
	if e == nil {
		return nil
	}
	switch e.Op {
	case "const":
		switch e.CK {
		case "nil":
			return jp.ConstNil()
		case "nothing":
			return jp.ConstNothing()
		case "bool":
			return jp.ConstBool(e.CB)
		case "int":
			return jp.ConstInt(e.CI)
		case "float":
			return jp.ConstFloat(e.CF)
		case "string":
			return jp.ConstString(e.CS)
		case "list":
			return jp.ConstList(e.constValue().([]any))
		}
		return jp.ConstNil()
	case "get":
		return jp.Get(e.P.Build())
	case "length":
		return jp.Length(e.P.Build())
	case "count":
		return jp.Count(e.P.Build())
	case "not":
		return jp.Not(e.L.Build())
	}
	l, r := e.L.Build(), e.R.Build()
	switch e.Op {
	case "eq":
		return jp.Eq(l, r)
	case "neq":
		return jp.Neq(l, r)
	case "lt":
		return jp.Lt(l, r)
	case "gt":
		return jp.Gt(l, r)
	case "lte":
		return jp.Lte(l, r)
	case "gte":
		return jp.Gte(l, r)
	case "and":
		return jp.And(l, r)
	case "or":
		return jp.Or(l, r)
	case "add":
		return jp.Add(l, r)
	case "sub":
		return jp.Sub(l, r)
	case "mul":
		return jp.Multiply(l, r)
	case "div":
		return jp.Divide(l, r)
	case "in":
		return jp.In(l, r)
	case "empty":
		return jp.Empty(l, r)
	case "has":
		return jp.Has(l, r)
	case "exists":
		return jp.Exists(l, r)
	case "rx":
		return jp.Regex(l, r)
	case "match":
		return jp.Match(l, r)
	case "search":
		return jp.Search(l, r)
	}
	panic("jpx: unknown op " + e.Op)
}

// String renders the recipe for messages (not ojg's printer).
func (p Path) String() string {
	var sb strings.Builder
	for _, f := range p {
		switch f.K {
		case "root":
			sb.WriteString("$")
		case "at":
			sb.WriteString("@")
		case "bracket":
			sb.WriteString("<B>")
		case "child":
			sb.WriteString("[" + strconv.Quote(f.Key) + "]")
		case "nth":
			sb.WriteString("[" + strconv.Itoa(f.N) + "]")
		case "wild":
			sb.WriteString("[*]")
		case "descent":
			sb.WriteString("..")
		case "union":
			sb.WriteString("[")
			for i, u := range f.U {
				if i > 0 {
					sb.WriteString(",")
				}
				if u.Key != nil {
					sb.WriteString(strconv.Quote(*u.Key))
				} else if u.Idx != nil {
					sb.WriteString(strconv.Itoa(*u.Idx))
				}
			}
			sb.WriteString("]")
		case "slice":
			sb.WriteString("[")
			for i, n := range f.S {
				if i > 0 {
					sb.WriteString(":")
				}
				if i == 1 && n == MaxEnd {
					continue
				}
				sb.WriteString(strconv.Itoa(n))
			}
			if len(f.S) < 2 {
				sb.WriteString(":")
			}
			sb.WriteString("]")
		case "filter":
			sb.WriteString("[?" + f.F.String() + "]")
		}
	}
	return sb.String()
}

func (e *Eq) String() string {
	if e == nil {
		return "<nil>"
	}
	switch e.Op {
	case "const":
		if e.CK == "nothing" {
			return "Nothing"
		}
		return fmt.Sprintf("%s(%v)", e.CK, e.constValue())
	case "get":
		return e.P.String()
	case "length", "count":
		return e.Op + "(" + e.P.String() + ")"
	case "not":
		return "!(" + e.L.String() + ")"
	}
	return "(" + e.L.String() + " " + e.Op + " " + e.R.String() + ")"
}

// MaxEnd is jp's "no end bound" marker for slices.
const MaxEnd = 2147483647
