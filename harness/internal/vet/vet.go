// Package vet builds "veteran" instances: parsers, tokenizers and writers that have already
// been through a fixed history of calls - failed ones with containers still open, escapes and
// long numbers that fill the scratch buffers, the other entry points of the same instance,
// option switches. Property C07 says such an instance behaves like a fresh one, so the checks
// of the other properties may use one wherever they use a fresh instance; a change that leaks
// state from an earlier call then shows up under the property whose promise it breaks.
package vet

import (
	"bytes"
	"io"
	"strings"
	"testing/iotest"

	"github.com/ohler55/ojg"
	"github.com/ohler55/ojg/gen"
	"github.com/ohler55/ojg/oj"
	"github.com/ohler55/ojg/pretty"
	"github.com/ohler55/ojg/sen"
)

// documents that fail with containers open / succeed after filling scratch state
var (
	openFail   = []byte("{\"a\\tb\":[1,\n\n  {\"k\":\"esc\\\"aped é\",\n\"n\":123456789012345678901234567890.5e-3,\"x\":[[1e5,")
	closeFail  = []byte("[\n[1,\n   2}")
	deepOK     = []byte(`{"s":"tab\there","big":12345678901234567890123,"f":-0.000125e+7,"a":[[],{},[null,true,false]]}`)
	senOpenErr = []byte("{a:[1\n\n {k:\"x\\ty\"\n n:1e5 x:[[")
)

type nullHandler struct{}

func (nullHandler) Null()         {}
func (nullHandler) Bool(bool)     {}
func (nullHandler) Int(int64)     {}
func (nullHandler) Float(float64) {}
func (nullHandler) Number(string) {}
func (nullHandler) String(string) {}
func (nullHandler) ObjectStart()  {}
func (nullHandler) ObjectEnd()    {}
func (nullHandler) Key(string)    {}
func (nullHandler) ArrayStart()   {}
func (nullHandler) ArrayEnd()     {}

func quiet(f func()) {
	defer func() { _ = recover() }()
	f()
}

// OjParser returns an oj.Parser with a history.
func OjParser() *oj.Parser {
	p := &oj.Parser{}
	quiet(func() { var x any; _ = p.Unmarshal(openFail, &x) })
	quiet(func() { _, _ = p.Parse(closeFail) })
	quiet(func() { _, _ = p.ParseReader(iotest.OneByteReader(bytes.NewReader(openFail))) })
	quiet(func() { _, _ = p.Parse(deepOK) })
	quiet(func() { var x []int; _ = p.Unmarshal([]byte("[1,2,3]"), &x) })
	quiet(func() { _, _ = p.ParseReader(strings.NewReader(string(openFail))) })
	return p
}

// GenParser returns a gen.Parser with a history.
func GenParser() *gen.Parser {
	p := &gen.Parser{}
	quiet(func() { _, _ = p.Parse(openFail) })
	quiet(func() { _, _ = p.ParseReader(iotest.OneByteReader(bytes.NewReader(openFail))) })
	quiet(func() { _, _ = p.Parse(deepOK) })
	quiet(func() { _, _ = p.Parse(closeFail) })
	quiet(func() { _, _ = p.ParseReader(strings.NewReader(string(openFail))) })
	return p
}

// SenParser returns a sen.Parser with a history.
func SenParser() *sen.Parser {
	p := &sen.Parser{}
	quiet(func() { _, _ = p.Parse(senOpenErr) })
	quiet(func() { _, _ = p.ParseReader(iotest.OneByteReader(bytes.NewReader(openFail))) })
	quiet(func() { _, _ = p.Parse(deepOK) })
	quiet(func() { _, _ = p.Parse(closeFail) })
	quiet(func() { _, _ = p.ParseReader(strings.NewReader(string(senOpenErr))) })
	return p
}

// The "AfterOption" veterans end their history with calls that pass a number conversion option
// (that option is the business of the call that passes it); the "AfterAbort" veterans end it
// with a ParseReader call that a reader error (not EOF) ends while containers are open, and a
// callback that panics.

var bigNums = []byte(`[123456789012345678901234567890,0.12345678901234567890123,1e400,7]`)

type errReader struct {
	data []byte
	err  error
}

func (r *errReader) Read(p []byte) (int, error) {
	if len(r.data) == 0 {
		return 0, r.err
	}
	n := copy(p, r.data)
	r.data = r.data[n:]
	return n, nil
}

var errBroken = io.ErrUnexpectedEOF

func OjParserAfterOption() *oj.Parser {
	p := OjParser()
	quiet(func() { _, _ = p.Parse(bigNums, ojg.NumConvString) })
	quiet(func() { _, _ = p.ParseReader(bytes.NewReader(bigNums), ojg.NumConvString) })
	return p
}

func SenParserAfterOption() *sen.Parser {
	p := SenParser()
	quiet(func() { _, _ = p.ParseReader(bytes.NewReader(bigNums), ojg.NumConvString) })
	quiet(func() { _, _ = p.Parse(bigNums, ojg.NumConvString) })
	return p
}

func OjParserAfterAbort() *oj.Parser {
	p := OjParser()
	quiet(func() { _, _ = p.Parse(deepOK, func(any) bool { panic("callback") }) })
	quiet(func() { _, _ = p.ParseReader(&errReader{data: []byte(`{"a":1,"b":[2,{"c":[`), err: errBroken}) })
	return p
}

func GenParserAfterAbort() *gen.Parser {
	p := GenParser()
	quiet(func() { _, _ = p.Parse(deepOK, func(gen.Node) bool { panic("callback") }) })
	quiet(func() { _, _ = p.ParseReader(&errReader{data: []byte(`{"a":1,"b":[2,{"c":[`), err: errBroken}) })
	return p
}

func SenParserAfterAbort() *sen.Parser {
	p := SenParser()
	quiet(func() { _, _ = p.Parse(deepOK, func(any) bool { panic("callback") }) })
	quiet(func() { _, _ = p.ParseReader(&errReader{data: []byte(`{a:1 b:[2 {c:[`), err: errBroken}) })
	return p
}

// OjTokenizer returns an oj.Tokenizer with a history.
func OjTokenizer() *oj.Tokenizer {
	t := &oj.Tokenizer{}
	quiet(func() { _ = t.Parse(openFail, nullHandler{}) })
	quiet(func() { _ = t.Load(iotest.OneByteReader(bytes.NewReader(openFail)), nullHandler{}) })
	quiet(func() { _ = t.Parse(deepOK, nullHandler{}) })
	quiet(func() { _ = t.Load(strings.NewReader(string(closeFail)), nullHandler{}) })
	return t
}

// SenTokenizer returns a sen.Tokenizer with a history.
func SenTokenizer() *sen.Tokenizer {
	t := &sen.Tokenizer{}
	quiet(func() { _ = t.Parse(senOpenErr, nullHandler{}) })
	quiet(func() { _ = t.Load(iotest.OneByteReader(bytes.NewReader(openFail)), nullHandler{}) })
	quiet(func() { _ = t.Parse(deepOK, nullHandler{}) })
	quiet(func() { _ = t.Load(strings.NewReader(string(closeFail)), nullHandler{}) })
	return t
}

type failWriter struct{ n int }

func (w *failWriter) Write(p []byte) (int, error) {
	if w.n -= len(p); w.n < 0 {
		return 0, io.ErrShortWrite
	}
	return len(p), nil
}

func warmData() any {
	long := strings.Repeat("long string with \"escapes\" and é ", 8)
	return map[string]any{"k": []any{long, 1.5, nil, map[string]any{"x": long}}, "z": long}
}

// WarmSenWriter puts w through a history: streaming writes to other sinks (one of them
// failing half way), in-memory encodings, an unsupported value.
func WarmSenWriter(w *sen.Writer) *sen.Writer {
	var sink bytes.Buffer
	quiet(func() { _ = w.Write(&sink, warmData()) })
	quiet(func() { _ = w.Write(&failWriter{n: 40}, warmData()) })
	quiet(func() { _ = w.SEN(warmData()) })
	quiet(func() { _ = w.Write(&sink, []any{make(chan int)}) })
	quiet(func() { _ = w.Write(&sink, warmData()) })
	return w
}

// WarmOjWriter is WarmSenWriter for an oj.Writer.
func WarmOjWriter(w *oj.Writer) *oj.Writer {
	var sink bytes.Buffer
	quiet(func() { _ = w.Write(&sink, warmData()) })
	quiet(func() { _ = w.Write(&failWriter{n: 40}, warmData()) })
	quiet(func() { _ = w.JSON(warmData()) })
	quiet(func() { _, _ = oj.Marshal([]any{make(chan int)}, w) })
	quiet(func() { _ = w.Write(&sink, warmData()) })
	return w
}

// WarmPrettyWriter is WarmSenWriter for a pretty.Writer.
func WarmPrettyWriter(w *pretty.Writer) *pretty.Writer {
	var sink bytes.Buffer
	quiet(func() { _ = w.Write(&sink, warmData()) })
	quiet(func() { _ = w.Write(&failWriter{n: 40}, warmData()) })
	quiet(func() { _ = w.Encode(warmData()) })
	quiet(func() { _ = w.Write(&sink, warmData()) })
	return w
}
