package gx

import (
	"errors"
	"io"

	"pgregory.net/rapid"
)

// Chunking describes how a byte slice is delivered by successive Read calls.
type Chunking struct {
	Sizes       []int `json:"sizes"`                   // chunk sizes; the last one repeats; empty = whole input at once
	EOFWithData bool  `json:"eof_with_data,omitempty"` // final chunk is returned together with io.EOF
	ZeroEvery   int   `json:"zero_every,omitempty"`    // if >0 every n-th Read returns (0, nil) first
	FailAfter   int   `json:"fail_after,omitempty"`    // if >0 return ErrInjected after that many bytes
}

var ErrInjected = errors.New("injected read error")

type chunkReader struct {
	data  []byte
	pos   int
	ci    int
	calls int
	c     Chunking
}

// Reader returns an io.Reader that delivers data according to c.
func (c Chunking) Reader(data []byte) io.Reader {
	return &chunkReader{data: data, c: c}
}

func (r *chunkReader) Read(p []byte) (int, error) {
	r.calls++
	if r.c.ZeroEvery > 0 && r.calls%r.c.ZeroEvery == 0 && r.calls%(2*r.c.ZeroEvery) != 0 {
		return 0, nil
	}
	if r.c.FailAfter > 0 && r.pos >= r.c.FailAfter {
		return 0, ErrInjected
	}
	if r.pos >= len(r.data) {
		return 0, io.EOF
	}
	n := len(p)
	if len(r.c.Sizes) > 0 {
		i := r.ci
		if i >= len(r.c.Sizes) {
			i = len(r.c.Sizes) - 1
		}
		if r.c.Sizes[i] > 0 && r.c.Sizes[i] < n {
			n = r.c.Sizes[i]
		}
		r.ci++
	}
	if n > len(r.data)-r.pos {
		n = len(r.data) - r.pos
	}
	if r.c.FailAfter > 0 && r.pos+n > r.c.FailAfter {
		n = r.c.FailAfter - r.pos
	}
	copy(p, r.data[r.pos:r.pos+n])
	r.pos += n
	if r.pos >= len(r.data) && r.c.EOFWithData {
		return n, io.EOF
	}
	return n, nil
}

// Boundaries returns the offsets at which a new Read result starts (for
// classification: which tokens are split), assuming a 4096-byte consumer buffer.
func (c Chunking) Boundaries(n int) []int {
	var out []int
	pos, ci := 0, 0
	for pos < n {
		sz := 4096
		if len(c.Sizes) > 0 {
			i := ci
			if i >= len(c.Sizes) {
				i = len(c.Sizes) - 1
			}
			if c.Sizes[i] > 0 && c.Sizes[i] < sz {
				sz = c.Sizes[i]
			}
			ci++
		}
		pos += sz
		if pos < n {
			out = append(out, pos)
		}
	}
	return out
}

// DrawChunking draws a chunking for an input of n bytes. cuts are interesting
// offsets (token interiors) that the generator likes to split at.
func DrawChunking(t *rapid.T, n int, cuts []int) Chunking {
	c := Chunking{}
	switch rapid.IntRange(0, 7).Draw(t, "chunkfam") {
	case 0: // whole
	case 1:
		c.Sizes = []int{1}
	case 2:
		c.Sizes = []int{rapid.IntRange(2, 7).Draw(t, "csz")}
	case 3, 4: // split exactly at chosen interesting offsets
		if len(cuts) > 0 && n > 0 {
			k := rapid.IntRange(1, 3).Draw(t, "ncuts")
			prev := 0
			for i := 0; i < k; i++ {
				cut := rapid.SampledFrom(cuts).Draw(t, "cut")
				if cut > prev && cut < n {
					c.Sizes = append(c.Sizes, cut-prev)
					prev = cut
				}
			}
			c.Sizes = append(c.Sizes, 0)
		} else {
			c.Sizes = []int{1}
		}
	case 5:
		c.Sizes = []int{rapid.SampledFrom([]int{4095, 4096, 4097, 2048, 100}).Draw(t, "bigsz")}
	case 6: // random sizes
		k := rapid.IntRange(1, 6).Draw(t, "nsz")
		for i := 0; i < k; i++ {
			c.Sizes = append(c.Sizes, rapid.IntRange(1, 12).Draw(t, "rsz"))
		}
	case 7:
		c.Sizes = []int{1, 2, 3, 1, 5, 1}
	}
	c.EOFWithData = rapid.Bool().Draw(t, "eofwd")
	return c
}
