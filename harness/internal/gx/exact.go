package gx

// Exact copies d into a slice whose capacity is its length, so that a read past the end of the
// input is a read past the end of the slice (append rounds the capacity up and would hide it).
func Exact(d []byte) []byte {
	b := make([]byte, len(d))
	copy(b, d)
	return b
}
