package gx

import (
	"strconv"
	"strings"

	"pgregory.net/rapid"
)

// SENText draws a SEN document using the relaxed syntax: bare tokens, optional
// commas, unquoted keys, single quoted strings, comments. No '+' concatenation
// and no token functions (their semantics are parser specific).
func SENText(t *rapid.T, depth int) []byte {
	var sb strings.Builder
	senValue(t, &sb, depth, true)
	return []byte(sb.String())
}

var bareTokens = []string{"abc", "a1", "key", "x_y", "T", "nul", "tru", "falsey", "nullx", "a-b", "a.b", "é", "日本"}

func senWS(t *rapid.T, must bool) string {
	k := rapid.IntRange(0, 9).Draw(t, "sws")
	switch k {
	case 0:
		return " "
	case 1:
		return "\n"
	case 2:
		return " // c\n"
	case 3:
		return " // x y\n"
	case 4:
		return "\t"
	case 5:
		return "  \n  "
	}
	if must {
		return " "
	}
	return ""
}

func senString(t *rapid.T, sb *strings.Builder) {
	switch rapid.IntRange(0, 5).Draw(t, "sstr") {
	case 0, 1:
		sb.WriteString(rapid.SampledFrom(bareTokens).Draw(t, "bare"))
	case 2:
		sb.WriteByte('\'')
		sb.WriteString(rapid.SampledFrom([]string{"", "a b", `say "hi"`, `it\'s`, "x\\ny", "[1,2]", "a//b", "é😀", `é`}).Draw(t, "sq"))
		sb.WriteByte('\'')
	default:
		sb.WriteString(StringLit(t, TextOpts{}))
	}
}

func senValue(t *rapid.T, sb *strings.Builder, depth int, top bool) {
	k := rapid.IntRange(0, 9).Draw(t, "senkind")
	if top && k < 6 {
		k = 8 + k%2
	}
	if depth <= 0 && k >= 8 {
		k = rapid.IntRange(0, 7).Draw(t, "senkind2")
	}
	switch k {
	case 0:
		sb.WriteString("null")
	case 1:
		sb.WriteString(rapid.SampledFrom([]string{"true", "false"}).Draw(t, "b"))
	case 2, 3:
		sb.WriteString(NumberLit(t, false))
	case 4, 5, 6, 7:
		senString(t, sb)
	case 8:
		n := rapid.IntRange(0, 4).Draw(t, "n")
		sb.WriteByte('[')
		sb.WriteString(senWS(t, false))
		for i := 0; i < n; i++ {
			if i > 0 {
				if rapid.Bool().Draw(t, "comma") {
					sb.WriteByte(',')
					sb.WriteString(senWS(t, false))
				} else {
					sb.WriteString(senWS(t, true))
				}
			}
			senValue(t, sb, depth-1, false)
		}
		if n > 0 && rapid.IntRange(0, 5).Draw(t, "trail") == 0 {
			sb.WriteByte(',')
		}
		sb.WriteString(senWS(t, false))
		sb.WriteByte(']')
	default:
		n := rapid.IntRange(0, 4).Draw(t, "n")
		sb.WriteByte('{')
		sb.WriteString(senWS(t, false))
		for i := 0; i < n; i++ {
			if i > 0 {
				if rapid.Bool().Draw(t, "comma") {
					sb.WriteByte(',')
					sb.WriteString(senWS(t, false))
				} else {
					sb.WriteString(senWS(t, true))
				}
			}
			switch rapid.IntRange(0, 3).Draw(t, "keykind") {
			case 0:
				sb.WriteString("k" + strconv.Itoa(i))
			case 1:
				sb.WriteString(rapid.SampledFrom([]string{"a", "b", "key", "x_1", "a-b", "é"}).Draw(t, "barekey"))
			case 2:
				sb.WriteString(`'q` + strconv.Itoa(i) + `'`)
			default:
				sb.WriteString(rapid.SampledFrom(keyPool).Draw(t, "key"))
			}
			sb.WriteString(senWS(t, false))
			sb.WriteByte(':')
			sb.WriteString(senWS(t, false))
			senValue(t, sb, depth-1, false)
		}
		sb.WriteString(senWS(t, false))
		sb.WriteByte('}')
	}
}
