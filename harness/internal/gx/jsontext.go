// Package gx holds the shared generators. Every random choice is drawn through
// rapid so that shrinking and replay work.
package gx

import (
	"fmt"
	"strconv"
	"strings"

	"pgregory.net/rapid"
)

// TextOpts steers the JSON text grammar generator.
type TextOpts struct {
	MaxDepth    int  // container nesting bound
	MaxMembers  int  // members per container
	DupKeys     bool // allow duplicate keys in objects
	LoneSurr    bool // allow unpaired surrogate escapes
	RawHigh     bool // allow raw bytes 0x80-0xFF that are not valid UTF-8
	BigExp      bool // allow exponents with up to 4 digits
	NoWS        bool // no insignificant whitespace
	Newlines    bool // favour newlines in whitespace (for line/column work)
	TopScalarOK bool // top-level value may be a scalar
	PadTo       int  // if > 0 pad (with whitespace inside the text) so that it is at least this long
}

var DefaultText = TextOpts{MaxDepth: 5, MaxMembers: 5, DupKeys: true, LoneSurr: true, RawHigh: true, BigExp: true, TopScalarOK: true}

var digitCounts = []int{1, 1, 1, 2, 3, 5, 9, 15, 16, 17, 18, 19, 20, 21, 25, 40}

var boundaryInts = []string{
	"9007199254740992", "9007199254740993", "9007199254740991",
	"9223372036854775807", "9223372036854775808", "9223372036854775806", "9223372036854775809",
	"18446744073709551615", "18446744073709551616", "18446744073709551614",
	"999999999999999999", "1000000000000000000", "9999999999999999999", "10000000000000000000",
	"99999999999999999999", "100000000000000000000", "2147483647", "2147483648", "4294967295", "4294967296",
	"922337203685477580", "1844674407370955161", "1844674407370955162", "922337203685477581",
}

func digits(t *rapid.T, n int, firstNonZero bool, label string) string {
	var sb strings.Builder
	mode := rapid.IntRange(0, 5).Draw(t, label+"mode")
	for i := 0; i < n; i++ {
		var d int
		switch mode {
		case 0:
			d = 9
		case 1:
			d = 0
		default:
			d = rapid.IntRange(0, 9).Draw(t, label)
		}
		if i == 0 && firstNonZero && d == 0 {
			d = 1
		}
		sb.WriteByte(byte('0' + d))
	}
	return sb.String()
}

// NumberLit draws one RFC 8259 number literal with shape skewed to thresholds.
func NumberLit(t *rapid.T, bigExp bool) string {
	var sb strings.Builder
	if rapid.IntRange(0, 3).Draw(t, "neg") == 0 {
		sb.WriteByte('-')
	}
	switch rapid.IntRange(0, 9).Draw(t, "ikind") {
	case 0:
		sb.WriteByte('0')
	case 1, 2:
		sb.WriteString(rapid.SampledFrom(boundaryInts).Draw(t, "bint"))
	default:
		n := rapid.SampledFrom(digitCounts).Draw(t, "idig")
		sb.WriteString(digits(t, n, true, "id"))
	}
	if rapid.IntRange(0, 2).Draw(t, "hasfrac") == 0 {
		sb.WriteByte('.')
		n := rapid.SampledFrom(digitCounts).Draw(t, "fdig")
		lz := 0
		if rapid.IntRange(0, 2).Draw(t, "leadz") == 0 {
			lz = rapid.IntRange(1, n).Draw(t, "nlz")
		}
		sb.WriteString(strings.Repeat("0", lz))
		if n-lz > 0 {
			sb.WriteString(digits(t, n-lz, false, "fd"))
		}
	}
	if rapid.IntRange(0, 2).Draw(t, "hasexp") == 0 {
		sb.WriteByte(rapid.SampledFrom([]byte{'e', 'E'}).Draw(t, "e"))
		switch rapid.IntRange(0, 2).Draw(t, "esign") {
		case 0:
			sb.WriteByte('+')
		case 1:
			sb.WriteByte('-')
		}
		maxd := 3
		if bigExp {
			maxd = 4
		}
		nd := rapid.IntRange(1, maxd).Draw(t, "edig")
		if nd == 4 || rapid.IntRange(0, 3).Draw(t, "ez") == 0 {
			// leading zeros in the exponent are legal
			sb.WriteString(digits(t, nd, false, "ed"))
		} else {
			sb.WriteString(digits(t, nd, true, "ed"))
		}
	}
	return sb.String()
}

var plainChars = []byte("abcXYZ 019_-+./:,[]{}'`~!@#$%^&*()<>=?|;")

// StringLit draws one JSON string literal including the quotes.
func StringLit(t *rapid.T, o TextOpts) string {
	var sb strings.Builder
	sb.WriteByte('"')
	n := rapid.IntRange(0, 8).Draw(t, "slen")
	if rapid.IntRange(0, 30).Draw(t, "long") == 0 {
		n = rapid.IntRange(60, 140).Draw(t, "slen2")
	}
	for i := 0; i < n; i++ {
		switch rapid.IntRange(0, 11).Draw(t, "piece") {
		case 0, 1, 2, 3, 4:
			sb.WriteByte(rapid.SampledFrom(plainChars).Draw(t, "pc"))
		case 5:
			sb.WriteByte('\\')
			sb.WriteByte(rapid.SampledFrom([]byte(`"\/bfnrt`)).Draw(t, "esc"))
		case 6:
			// BMP \uXXXX outside the surrogate range, hex digit case mixed
			r := rapid.SampledFrom([]int{0, 1, 0x1f, 0x20, 0x22, 0x5c, 0x7f, 0x80, 0xe9, 0x7ff, 0x800, 0x2028, 0x2029, 0xd7ff, 0xe000, 0xfffd, 0xffff, 0x41}).Draw(t, "bmp")
			if rapid.Bool().Draw(t, "randbmp") {
				r = rapid.IntRange(0, 0xffff).Draw(t, "bmpr")
				if 0xd800 <= r && r <= 0xdfff {
					r -= 0x800
				}
			}
			sb.WriteString(uEsc(t, r))
		case 7:
			// surrogate pair
			hi := rapid.IntRange(0xd800, 0xdbff).Draw(t, "hi")
			lo := rapid.IntRange(0xdc00, 0xdfff).Draw(t, "lo")
			sb.WriteString(uEsc(t, hi))
			sb.WriteString(uEsc(t, lo))
		case 8:
			if o.LoneSurr {
				sb.WriteString(uEsc(t, rapid.IntRange(0xd800, 0xdfff).Draw(t, "lone")))
			} else {
				sb.WriteByte('u')
			}
		case 9:
			sb.WriteString(rapid.SampledFrom([]string{"é", "ü", "€", "日", "😀", "\u2028", "\u2029", "\u007f", "ÿ"}).Draw(t, "utf8"))
		case 10:
			if o.RawHigh {
				sb.WriteByte(byte(rapid.IntRange(0x80, 0xff).Draw(t, "raw")))
			} else {
				sb.WriteByte('r')
			}
		case 11:
			sb.WriteString(rapid.SampledFrom([]string{"null", "true", "//", "/*", "\\\\", "\\\"", "e", "E", "u", "0"}).Draw(t, "tricky"))
		}
	}
	sb.WriteByte('"')
	return sb.String()
}

func uEsc(t *rapid.T, r int) string {
	s := fmt.Sprintf("%04x", r)
	if rapid.Bool().Draw(t, "upper") {
		s = strings.ToUpper(s)
	}
	return `\u` + s
}

var keyPool = []string{`"a"`, `"b"`, `"c"`, `"x"`, `""`, `"key"`, `"a b"`, `"\u0061"`, `"k\n"`, `"é"`}

func ws(t *rapid.T, o TextOpts) string {
	if o.NoWS {
		return ""
	}
	k := rapid.IntRange(0, 9).Draw(t, "ws")
	if o.Newlines {
		switch k {
		case 0, 1:
			return "\n"
		case 2:
			return "\r\n"
		case 3:
			return "\n   "
		case 4:
			return " \n\t"
		case 5:
			return " "
		}
		return ""
	}
	switch k {
	case 0:
		return " "
	case 1:
		return "\n"
	case 2:
		return "\t"
	case 3:
		return "\r\n"
	case 4:
		return "  \n  "
	}
	return ""
}

// JSONText draws a valid RFC 8259 text.
func JSONText(t *rapid.T, o TextOpts) []byte {
	var sb strings.Builder
	sb.WriteString(ws(t, o))
	depth := o.MaxDepth
	if !o.TopScalarOK || rapid.IntRange(0, 4).Draw(t, "topcont") != 0 {
		container(t, &sb, o, depth)
	} else {
		value(t, &sb, o, 0)
	}
	sb.WriteString(ws(t, o))
	out := []byte(sb.String())
	if o.PadTo > len(out) {
		out = pad(out, o.PadTo)
	}
	return out
}

func container(t *rapid.T, sb *strings.Builder, o TextOpts, depth int) {
	n := rapid.IntRange(0, o.MaxMembers).Draw(t, "members")
	if rapid.Bool().Draw(t, "isobj") {
		sb.WriteByte('{')
		sb.WriteString(ws(t, o))
		for i := 0; i < n; i++ {
			if i > 0 {
				sb.WriteByte(',')
				sb.WriteString(ws(t, o))
			}
			if o.DupKeys && rapid.IntRange(0, 3).Draw(t, "poolkey") != 0 {
				sb.WriteString(rapid.SampledFrom(keyPool).Draw(t, "key"))
			} else if rapid.IntRange(0, 2).Draw(t, "randkey") == 0 {
				sb.WriteString(StringLit(t, o))
			} else {
				sb.WriteString(`"k` + strconv.Itoa(i) + `"`)
			}
			sb.WriteString(ws(t, o))
			sb.WriteByte(':')
			sb.WriteString(ws(t, o))
			value(t, sb, o, depth)
			sb.WriteString(ws(t, o))
		}
		sb.WriteByte('}')
		return
	}
	sb.WriteByte('[')
	sb.WriteString(ws(t, o))
	for i := 0; i < n; i++ {
		if i > 0 {
			sb.WriteByte(',')
			sb.WriteString(ws(t, o))
		}
		value(t, sb, o, depth)
		sb.WriteString(ws(t, o))
	}
	sb.WriteByte(']')
}

func value(t *rapid.T, sb *strings.Builder, o TextOpts, depth int) {
	k := rapid.IntRange(0, 11).Draw(t, "vkind")
	if depth <= 0 && k >= 9 {
		k = rapid.IntRange(0, 8).Draw(t, "vkind2")
	}
	switch k {
	case 0:
		sb.WriteString("null")
	case 1:
		sb.WriteString("true")
	case 2:
		sb.WriteString("false")
	case 3, 4, 5:
		sb.WriteString(NumberLit(t, o.BigExp))
	case 6, 7:
		sb.WriteString(StringLit(t, o))
	case 8:
		sb.WriteString(rapid.SampledFrom([]string{"[]", "{}", "0", "-0", `""`, "[[]]", `{"a":{}}`, "1", "-1", "0.0", "1e0"}).Draw(t, "small"))
	default:
		container(t, sb, o, depth-1)
	}
}

// pad inserts spaces after the first structural byte (or in front) so the text
// reaches n bytes; JSON whitespace between tokens never changes the meaning.
func pad(text []byte, n int) []byte {
	need := n - len(text)
	at := 0
	for i, b := range text {
		if b == '[' || b == '{' {
			at = i + 1
			break
		}
		if b != ' ' && b != '\n' && b != '\t' && b != '\r' {
			at = i
			break
		}
	}
	out := make([]byte, 0, n)
	out = append(out, text[:at]...)
	for i := 0; i < need; i++ {
		out = append(out, ' ')
	}
	return append(out, text[at:]...)
}

// HostileTokens are spliced into valid documents by Mutate.
var HostileTokens = []string{
	"nul,", "nul", "nulx", "tru", "fals", "1.", "1.e1", "0e1", "0E-62", "0.e1", "-", "-a", "+1", ".5", "01", "-01", "1e", "1e+", "1e5",
	`"\u12`, `"\u12"`, `"\x"`, `"abc`, "\"\x01\"", "+", "//", "/*", "(", ")", "'", "'a'", "[", "]", "{", "}", ":", ",", ",,", "[,", ",]",
	`{"a"`, `{"a":`, `{"a" "b":1}`, `{"a":nul,"b":1}`, `{,}`, `{"a":1,}`, "[1,]", "[1 2]", `{"a":1 "b":2}`, "\xef\xbb\xbf", "\xef\xbb", "\xef",
	"NaN", "Infinity", "-Infinity", "True", "NULL", "nullnull", "truefalse", "1 2", "[][]", "{}{}", "\x00", "\x7f", "\x80", "\xff",
	"1e999", "-0", "-0.0", "0.", "00", "0x10", "1_000", "1,2", "[1],", "{} x",
}

// Mutate applies 1-3 byte/token level mutations to a text.
func Mutate(t *rapid.T, text []byte) []byte {
	out := append([]byte(nil), text...)
	n := rapid.IntRange(1, 3).Draw(t, "nmut")
	for i := 0; i < n; i++ {
		pos := 0
		if len(out) > 0 {
			pos = rapid.IntRange(0, len(out)).Draw(t, "mpos")
		}
		switch rapid.IntRange(0, 8).Draw(t, "mkind") {
		case 0: // delete
			if pos < len(out) {
				out = append(out[:pos], out[pos+1:]...)
			}
		case 1: // insert a structural or interesting byte
			b := rapid.SampledFrom([]byte("[]{}:,\"\\0123456789-+.eEntfu/ \n\x00\x7f\x80\xff'*#")).Draw(t, "ib")
			out = append(out[:pos], append([]byte{b}, out[pos:]...)...)
		case 2: // replace with any byte
			if pos < len(out) {
				out[pos] = rapid.Byte().Draw(t, "rb")
			}
		case 3: // duplicate a byte
			if pos < len(out) {
				out = append(out[:pos], append([]byte{out[pos]}, out[pos:]...)...)
			}
		case 4: // transpose
			if pos+1 < len(out) {
				out[pos], out[pos+1] = out[pos+1], out[pos]
			}
		case 5: // truncate
			out = out[:pos]
		case 6, 7: // splice a hostile token
			tok := rapid.SampledFrom(HostileTokens).Draw(t, "tok")
			out = append(out[:pos], append([]byte(tok), out[pos:]...)...)
		case 8: // replace a byte by a structural one
			if pos < len(out) {
				out[pos] = rapid.SampledFrom([]byte("[]{}:,\"")).Draw(t, "sb")
			}
		}
	}
	return out
}
