package gx

import (
	"math"
	"strconv"
	"strings"
)

// RespellFloats rewrites every number of a JSON text that has a fraction or an exponent part
// into another spelling of the same decimal value (strings are left alone): mode 1 = integer
// mantissa and exponent ("15e-1"), mode 2 = upper case exponent with sign and two digits
// ("1.5E+00"), mode 3 = trailing zeros ("1.500"). Integers stay as they are.
func RespellFloats(text []byte, mode int) []byte {
	out := make([]byte, 0, len(text)+16)
	for i := 0; i < len(text); {
		b := text[i]
		switch {
		case b == '"':
			j := i + 1
			for j < len(text) && text[j] != '"' {
				if text[j] == '\\' {
					j++
				}
				j++
			}
			if j >= len(text) {
				j = len(text) - 1
			}
			out = append(out, text[i:j+1]...)
			i = j + 1
		case b == '-' || ('0' <= b && b <= '9'):
			j := i + 1
			for j < len(text) && strings.IndexByte("0123456789.eE+-", text[j]) >= 0 {
				j++
			}
			out = append(out, respell(string(text[i:j]), mode)...)
			i = j
		default:
			out = append(out, b)
			i++
		}
	}
	return out
}

func respell(tok string, mode int) string {
	if mode == 4 {
		// a fraction part of zeros: an integer literal becomes a float literal of the same value
		// (1 -> 1.0), a fraction gets one more zero
		switch {
		case !strings.ContainsAny(tok, ".eE"):
			return tok + ".0"
		case !strings.ContainsAny(tok, "eE"):
			return tok + "0"
		}
		return tok
	}
	if !strings.ContainsAny(tok, ".eE") {
		return tok
	}
	f, err := strconv.ParseFloat(tok, 64)
	if err != nil || math.IsInf(f, 0) || math.IsNaN(f) {
		return tok
	}
	switch mode {
	case 1:
		s := strconv.FormatFloat(f, 'e', -1, 64) // d.ddde±xx
		neg := strings.HasPrefix(s, "-")
		s = strings.TrimPrefix(s, "-")
		ei := strings.IndexByte(s, 'e')
		mant, exps := s[:ei], s[ei+1:]
		exp, _ := strconv.Atoi(exps)
		digits := mant
		if dot := strings.IndexByte(mant, '.'); dot >= 0 {
			digits = mant[:dot] + mant[dot+1:]
			exp -= len(mant) - dot - 1
		}
		if neg {
			digits = "-" + digits
		}
		return digits + "e" + strconv.Itoa(exp)
	case 2:
		return strconv.FormatFloat(f, 'E', -1, 64)
	case 3:
		if !strings.ContainsAny(tok, "eE") {
			return tok + "00"
		}
	}
	return tok
}
