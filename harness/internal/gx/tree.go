package gx

import (
	"math"
	"strings"

	"pgregory.net/rapid"
)

// TreeOpts steers the value tree generator (simple values: nil, bool, int64,
// float64, string, []any, map[string]any).
type TreeOpts struct {
	MaxDepth   int
	MaxMembers int
	Strings    []string // pool for string values (nil = HostileStrings)
	Keys       []string // pool for keys (nil = TreeKeys)
	NoFloat    bool
	NoNil      bool
	DeepOK     bool // occasionally nest to a threshold depth (40 ... 257)
	RandStr    bool // also draw random strings
}

var TreeKeys = []string{"a", "b", "c", "x", "key", "k1", "a b", "", "é", "z9", "A", "aa"}

// HostileStrings: empty, control chars, quotes, backslash, HTML, U+2028/9, invalid
// UTF-8, 0x7F, long, and SEN-significant spellings.
var HostileStrings = []string{
	"", "a", "abc", "hello world", "\x00", "\x01\x1f", "\t\n\r", "\"", "\\", "\\\"", "/", "<>&", "<script>", "\u2028", "\u2029", "\u2028x\u2029",
	"\xff", "a\xffb", "\xc3", "\xe2\x82", "\xf0\x9f\x98", "\x80", "\x7f", "é", "日本語", "😀", "a😀b",
	strings.Repeat("x", 65), strings.Repeat("ab ", 30), strings.Repeat("é", 40),
	"true", "false", "null", "True", "nil", "-1", "1", "0", "1e5", "1.5", "-", "+", "+a", "-a", ".", ".5", "/", "*", "(", ")", "[", "]", "{", "}", ":", ",", "'", "`", "|", "&", "@", "$", "~", "^", "#", "%", "=",
	"a&b", "a|b", "a:b", "a,b", "a b", " a", "a ", "a[0]", "a{b}", "a(b)", "a'b", "a\"b", "a`b", "//", "/*", "a//b", "a/*b*/", "x@y", "$a", "~a", "^a", "_a", "a-b", "a.b", "a+b",
	"0x10", "1a", "a1", "NaN", "Infinity", "1_000", "2021-01-01T00:00:00Z", "\\u0041", "\\n", " ", "\ufeff", "\ufeffa",
}

var interestingInts = []int64{0, 1, -1, 2, 7, 10, 100, 255, 256, 65535, 1 << 31, -(1 << 31), 1<<31 - 1, 1 << 32, 1 << 53, 1<<53 + 1, -(1 << 53) - 1, math.MaxInt64, math.MinInt64, math.MaxInt64 - 1, math.MinInt64 + 1, 922337203685477580, 1000000000000000000, 123456789}

var interestingFloats = []float64{0, math.Copysign(0, -1), 1.5, -1.5, 0.1, 0.3, 1e21, 1e20, 1e-7, 1e-6, 123456789.125, math.MaxFloat64, -math.MaxFloat64, math.SmallestNonzeroFloat64, 2.2250738585072014e-308,
	9007199254740992, 9007199254740994, 1e15, 1e16, 1e17, 1.7976931348623157e308, 4.9e-324, 3.141592653589793, 2.5, 100, 1e100, -1e-100, 0.000001, 1234.5678e10, float64(math.MaxInt64)}

// Int64 draws a boundary-skewed int64.
func Int64(t *rapid.T) int64 {
	if rapid.Bool().Draw(t, "iint") {
		return rapid.SampledFrom(interestingInts).Draw(t, "ii")
	}
	return rapid.Int64().Draw(t, "ri")
}

// Float64 draws a finite float64.
func Float64(t *rapid.T) float64 {
	if rapid.Bool().Draw(t, "iflt") {
		return rapid.SampledFrom(interestingFloats).Draw(t, "if")
	}
	f := rapid.Float64().Draw(t, "rf")
	if math.IsNaN(f) || math.IsInf(f, 0) {
		return 1.25
	}
	return f
}

// Str draws a string value.
func Str(t *rapid.T, o TreeOpts) string {
	pool := o.Strings
	if pool == nil {
		pool = HostileStrings
	}
	if o.RandStr && rapid.IntRange(0, 3).Draw(t, "rs") == 0 {
		return rapid.String().Draw(t, "rstr")
	}
	return rapid.SampledFrom(pool).Draw(t, "s")
}

func key(t *rapid.T, o TreeOpts) string {
	pool := o.Keys
	if pool == nil {
		pool = TreeKeys
	}
	return rapid.SampledFrom(pool).Draw(t, "k")
}

// Tree draws a simple value tree.
func Tree(t *rapid.T, o TreeOpts) any {
	if o.MaxMembers == 0 {
		o.MaxMembers = 5
	}
	d := o.MaxDepth
	if o.DeepOK && rapid.IntRange(0, 40).Draw(t, "deep") == 0 {
		return deepTree(t, o)
	}
	return tree(t, o, d)
}

// deepDepths: around the thresholds where writers run out of indentation (the
// indentation strings hold 128 spaces / tabs) or switch to flat output.
var deepDepths = []int{40, 62, 63, 64, 65, 126, 127, 128, 129, 130, 131, 200, 257}

// deepTree nests single-member containers to a threshold depth (plus or minus a little)
// around a small container with several members, so that separators matter at the bottom.
func deepTree(t *rapid.T, o TreeOpts) any {
	d := rapid.SampledFrom(deepDepths).Draw(t, "deepdepth") + rapid.IntRange(-1, 1).Draw(t, "deepdelta")
	var v any
	switch rapid.IntRange(0, 2).Draw(t, "deepleaf") {
	case 0:
		v = []any{"ab", int64(1), int64(2)}
	case 1:
		v = map[string]any{"a": int64(1), "b": "x", "c": []any{"p", "q"}}
	default:
		v = []any{map[string]any{"k": "v", "l": "w"}, "s", "t"}
	}
	arrays := rapid.IntRange(0, 2).Draw(t, "deepkind")
	for i := 0; i < d; i++ {
		if arrays == 0 || (arrays == 2 && i%2 == 0) {
			v = []any{v}
		} else {
			v = map[string]any{"k": v}
		}
	}
	return v
}

// Scalar draws a scalar value.
func Scalar(t *rapid.T, o TreeOpts) any {
	for {
		switch rapid.IntRange(0, 7).Draw(t, "sk") {
		case 0:
			if o.NoNil {
				continue
			}
			return nil
		case 1:
			return rapid.Bool().Draw(t, "b")
		case 2, 3:
			return Int64(t)
		case 4:
			if o.NoFloat {
				continue
			}
			return Float64(t)
		default:
			return Str(t, o)
		}
	}
}

func tree(t *rapid.T, o TreeOpts, depth int) any {
	k := rapid.IntRange(0, 9).Draw(t, "tk")
	if depth <= 0 || k < 5 {
		return Scalar(t, o)
	}
	n := rapid.IntRange(0, o.MaxMembers).Draw(t, "n")
	if k < 7 || (depth > 6 && k < 9) {
		out := make([]any, n)
		for i := range out {
			out[i] = tree(t, o, depth-1)
		}
		return out
	}
	out := make(map[string]any, n)
	for i := 0; i < n; i++ {
		out[key(t, o)] = tree(t, o, depth-1)
	}
	return out
}

// Container draws a tree whose root is an array or object.
func Container(t *rapid.T, o TreeOpts) any {
	if o.MaxMembers == 0 {
		o.MaxMembers = 5
	}
	n := rapid.IntRange(0, o.MaxMembers).Draw(t, "cn")
	if rapid.Bool().Draw(t, "carr") {
		out := make([]any, n)
		for i := range out {
			out[i] = tree(t, o, o.MaxDepth-1)
		}
		return out
	}
	out := make(map[string]any, n)
	for i := 0; i < n; i++ {
		out[key(t, o)] = tree(t, o, o.MaxDepth-1)
	}
	return out
}
