package gx

import (
	"strconv"
	"strings"

	"pgregory.net/rapid"
)

var pathKeys = []string{"a", "b", "c", "x", "key", "a b", "é", "k1", "", "$", "@", "it's", `q"`, "*", "0", "true"}

// PathText draws a JSONPath expression as text (valid by construction most of the time).
func PathText(t *rapid.T, depth int) string {
	var sb strings.Builder
	switch rapid.IntRange(0, 5).Draw(t, "pstart") {
	case 0:
		sb.WriteString("@")
	case 1:
	default:
		sb.WriteString("$")
	}
	n := rapid.IntRange(0, 5).Draw(t, "nfrag")
	for i := 0; i < n; i++ {
		pathFrag(t, &sb, depth, i == 0 && sb.Len() == 0)
	}
	return sb.String()
}

func quoteKey(t *rapid.T, k string) string {
	if rapid.Bool().Draw(t, "dq") {
		return strconv.Quote(k)
	}
	return "'" + strings.ReplaceAll(strings.ReplaceAll(k, `\`, `\\`), "'", `\'`) + "'"
}

func pathFrag(t *rapid.T, sb *strings.Builder, depth int, first bool) {
	switch rapid.IntRange(0, 11).Draw(t, "fkind") {
	case 0, 1:
		if !first {
			sb.WriteByte('.')
		}
		sb.WriteString(rapid.SampledFrom([]string{"a", "b", "c", "x", "key", "k1", "é"}).Draw(t, "dotkey"))
	case 2:
		sb.WriteString("[" + quoteKey(t, rapid.SampledFrom(pathKeys).Draw(t, "bkey")) + "]")
	case 3:
		sb.WriteString("[" + strconv.Itoa(rapid.IntRange(-4, 6).Draw(t, "idx")) + "]")
	case 4:
		if rapid.Bool().Draw(t, "dotstar") && !first {
			sb.WriteString(".*")
		} else {
			sb.WriteString("[*]")
		}
	case 5:
		sb.WriteString("..")
		if rapid.Bool().Draw(t, "ddkey") {
			sb.WriteString(rapid.SampledFrom([]string{"a", "b", "x"}).Draw(t, "ddk"))
		}
	case 6: // union
		n := rapid.IntRange(2, 4).Draw(t, "nun")
		sb.WriteByte('[')
		for i := 0; i < n; i++ {
			if i > 0 {
				sb.WriteByte(',')
			}
			if rapid.Bool().Draw(t, "unint") {
				sb.WriteString(strconv.Itoa(rapid.IntRange(-3, 5).Draw(t, "ui")))
			} else {
				sb.WriteString(quoteKey(t, rapid.SampledFrom(pathKeys).Draw(t, "uk")))
			}
		}
		sb.WriteByte(']')
	case 7, 8: // slice
		sb.WriteByte('[')
		parts := rapid.IntRange(2, 3).Draw(t, "sparts")
		for i := 0; i < parts; i++ {
			if i > 0 {
				sb.WriteByte(':')
			}
			if rapid.IntRange(0, 3).Draw(t, "sdef") != 0 {
				sb.WriteString(strconv.Itoa(rapid.IntRange(-5, 7).Draw(t, "sv")))
			}
		}
		sb.WriteByte(']')
	default: // filter
		if depth <= 0 {
			sb.WriteString("[?(@.a)]")
			return
		}
		sb.WriteString("[?")
		sb.WriteString(ScriptText(t, depth-1))
		sb.WriteByte(']')
	}
}

var scriptOps = []string{"==", "!=", "<", ">", "<=", ">=", "&&", "||", "+", "-", "*", "/", "in", "empty", "has", "exists", "=~", "~="}

// ScriptText draws a filter script "( ... )".
func ScriptText(t *rapid.T, depth int) string {
	var sb strings.Builder
	sb.WriteByte('(')
	scriptExpr(t, &sb, depth)
	sb.WriteByte(')')
	return sb.String()
}

func scriptOperand(t *rapid.T, sb *strings.Builder, depth int) {
	switch rapid.IntRange(0, 9).Draw(t, "opnd") {
	case 0, 1, 2:
		sb.WriteString("@")
		n := rapid.IntRange(0, 2).Draw(t, "on")
		for i := 0; i < n; i++ {
			pathFrag(t, sb, 0, false)
		}
	case 3:
		sb.WriteString("$.a")
	case 4:
		sb.WriteString(strconv.Itoa(rapid.IntRange(-3, 100).Draw(t, "int")))
	case 5:
		sb.WriteString(rapid.SampledFrom([]string{"1.5", "-0.25", "1e3", "2.5e-2", "0.0"}).Draw(t, "flt"))
	case 6:
		sb.WriteString(quoteKey(t, rapid.SampledFrom(pathKeys).Draw(t, "str")))
	case 7:
		sb.WriteString(rapid.SampledFrom([]string{"true", "false", "null", "Nothing"}).Draw(t, "lit"))
	case 8:
		sb.WriteString(rapid.SampledFrom([]string{"[1,2,3]", "['a','b']", "[]", "/a.*/", "length(@.a)", "count(@.*)", "match(@.a, 'x')", "search(@.a, 'x')"}).Draw(t, "misc"))
	default:
		if depth > 0 {
			sb.WriteByte('(')
			scriptExpr(t, sb, depth-1)
			sb.WriteByte(')')
		} else {
			sb.WriteString("@.x")
		}
	}
}

func scriptExpr(t *rapid.T, sb *strings.Builder, depth int) {
	if rapid.IntRange(0, 6).Draw(t, "not") == 0 {
		sb.WriteByte('!')
	}
	scriptOperand(t, sb, depth)
	n := rapid.IntRange(0, 3).Draw(t, "nops")
	for i := 0; i < n; i++ {
		sb.WriteByte(' ')
		sb.WriteString(rapid.SampledFrom(scriptOps).Draw(t, "op"))
		sb.WriteByte(' ')
		scriptOperand(t, sb, depth)
	}
}

// HostilePath tokens spliced into path text by mutation.
var HostilePath = []string{"[", "]", "[?", "(", ")", "[?(", "..", "...", "[:", "[::", "['", "'", "\"", "\\", "\\u12", "\\x", "[-", "[1,", "[1:", "[?(@", "@", "$", "*", "~", "!", "&&", "||", "==", "=~", "/", "/(", "[?(@.a =~ /", "[?(@.a in [", "length(", "count(", "Nothing", ".", ",", "[?@.a == 1]", "[?(1 == )]", "[?()]", "[(", "1e999", "99999999999999999999999", "[99999999999999999999]", "[1:2:0]"}

// MutateText applies byte level mutations and hostile token splices to text.
func MutateText(t *rapid.T, s string, hostile []string) string {
	out := []byte(s)
	n := rapid.IntRange(1, 3).Draw(t, "ntm")
	for i := 0; i < n; i++ {
		pos := 0
		if len(out) > 0 {
			pos = rapid.IntRange(0, len(out)).Draw(t, "tpos")
		}
		switch rapid.IntRange(0, 5).Draw(t, "tmk") {
		case 0:
			if pos < len(out) {
				out = append(out[:pos], out[pos+1:]...)
			}
		case 1:
			if pos < len(out) {
				out[pos] = rapid.Byte().Draw(t, "tb")
			}
		case 2:
			out = out[:pos]
		case 3:
			if pos < len(out) {
				out = append(out[:pos], append([]byte{out[pos]}, out[pos:]...)...)
			}
		default:
			tok := rapid.SampledFrom(hostile).Draw(t, "htok")
			out = append(out[:pos], append([]byte(tok), out[pos:]...)...)
		}
	}
	return string(out)
}
