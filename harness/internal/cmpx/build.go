package cmpx

import (
	"encoding/json"

	"github.com/ohler55/ojg/alt"
)

// BuildHandler is an oj.TokenHandler that rebuilds value trees from tokenizer
// callbacks with alt.Builder. Each value completed at depth 0 is one document.
type BuildHandler struct {
	b     alt.Builder
	depth int
	obj   []bool // per open container: is it an object
	key   string
	Docs  []any
	Err   error
}

func (h *BuildHandler) inObj() bool { return len(h.obj) > 0 && h.obj[len(h.obj)-1] }

func (h *BuildHandler) value(v any) {
	var err error
	if h.inObj() {
		err = h.b.Value(v, h.key)
	} else {
		err = h.b.Value(v)
	}
	if err != nil && h.Err == nil {
		h.Err = err
	}
	h.done()
}

func (h *BuildHandler) done() {
	if len(h.obj) == 0 {
		h.Docs = append(h.Docs, h.b.Result())
		h.b.Reset()
	}
}

func (h *BuildHandler) Null()           { h.value(nil) }
func (h *BuildHandler) Bool(b bool)     { h.value(b) }
func (h *BuildHandler) Int(i int64)     { h.value(i) }
func (h *BuildHandler) Float(f float64) { h.value(f) }
func (h *BuildHandler) Number(s string) { h.value(json.Number(s)) }
func (h *BuildHandler) String(s string) { h.value(s) }
func (h *BuildHandler) Key(s string)    { h.key = s }
func (h *BuildHandler) ObjectStart() {
	var err error
	if h.inObj() {
		err = h.b.Object(h.key)
	} else {
		err = h.b.Object()
	}
	if err != nil && h.Err == nil {
		h.Err = err
	}
	h.obj = append(h.obj, true)
}
func (h *BuildHandler) ArrayStart() {
	var err error
	if h.inObj() {
		err = h.b.Array(h.key)
	} else {
		err = h.b.Array()
	}
	if err != nil && h.Err == nil {
		h.Err = err
	}
	h.obj = append(h.obj, false)
}
func (h *BuildHandler) ObjectEnd() { h.end() }
func (h *BuildHandler) ArrayEnd()  { h.end() }
func (h *BuildHandler) end() {
	if len(h.obj) == 0 {
		return
	}
	h.obj = h.obj[:len(h.obj)-1]
	h.b.Pop()
	h.done()
}
