// Package cmpx compares implementation results with the reference tree
// (ref.Node) under the rules of property C02, and rebuilds ordered trees from
// tokenizer events.
package cmpx

import (
	"encoding/json"
	"fmt"
	"math"
	"math/big"
	"strconv"
	"strings"
	"unicode/utf8"

	"github.com/ohler55/ojg/gen"

	"verif/internal/ref"
)

// Mismatch is one difference between the reference tree and a result.
type Mismatch struct {
	Path string
	Kind string // structure | string | key | number-int-required | number-value | number-big-text | number-inf
	Tags []string
	Msg  string
}

func (m Mismatch) String() string { return m.Path + ": " + m.Kind + ": " + m.Msg }

// NumShape describes a number literal for classification.
func NumShape(lit string) []string {
	var tags []string
	neg := strings.HasPrefix(lit, "-")
	s := strings.TrimPrefix(lit, "-")
	ip, rest := s, ""
	if i := strings.IndexAny(s, ".eE"); i >= 0 {
		ip, rest = s[:i], s[i:]
	}
	frac, exp := "", ""
	if strings.HasPrefix(rest, ".") {
		rest = rest[1:]
		if i := strings.IndexAny(rest, "eE"); i >= 0 {
			frac, exp = rest[:i], rest[i+1:]
		} else {
			frac = rest
		}
	} else if rest != "" {
		exp = rest[1:]
	}
	bucket := func(n int) string {
		switch {
		case n == 0:
			return "0"
		case n <= 15:
			return "1-15"
		case n <= 17:
			return "16-17"
		case n == 18:
			return "18"
		case n == 19:
			return "19"
		case n == 20:
			return "20"
		default:
			return "21+"
		}
	}
	tags = append(tags, "idig:"+bucket(len(ip)), "fdig:"+bucket(len(frac)))
	if frac != "" && frac[0] == '0' {
		tags = append(tags, "frac-leading-zero")
	}
	if exp != "" {
		if strings.HasPrefix(exp, "-") {
			tags = append(tags, "exp:neg")
		} else {
			tags = append(tags, "exp:pos")
		}
	} else {
		tags = append(tags, "exp:none")
	}
	if neg {
		tags = append(tags, "neg")
	}
	return tags
}

var (
	maxI64    = big.NewInt(math.MaxInt64)
	topDecade = big.NewInt(math.MaxInt64 - 7) // 9223372036854775800
)

// MatchNumber checks one number result against its literal under C02's rule.
func MatchNumber(lit string, got any, path string) *Mismatch {
	n := &ref.Node{Kind: ref.Num, Lit: lit}
	if n.HugeExp() {
		return &Mismatch{path, "number-inf", nil, "exponent of more than 5 digits (don't care)"}
	}
	exact := n.Rat()
	tags := NumShape(lit)
	// "a plain integer literal whose magnitude fits int64": |value| <= MaxInt64
	// (so -9223372036854775808 is not required to be an int64)
	fitsInt := false
	if exact.IsInt() {
		mag := new(big.Int).Abs(exact.Num())
		fitsInt = mag.Cmp(maxI64) <= 0
		if fitsInt && mag.Cmp(topDecade) >= 0 {
			tags = append(tags, "int64-top-decade")
		}
	}
	mustInt := n.PlainInt() && fitsInt
	var i64 int64
	var f64 float64
	var bigText string
	kind := ""
	switch tv := got.(type) {
	case int64:
		i64, kind = tv, "int"
	case gen.Int:
		i64, kind = int64(tv), "int"
	case float64:
		f64, kind = tv, "float"
	case gen.Float:
		f64, kind = float64(tv), "float"
	case json.Number:
		bigText, kind = string(tv), "big"
	case gen.Big:
		bigText, kind = string(tv), "big"
	default:
		return &Mismatch{path, "structure", tags, fmt.Sprintf("number %s came back as %T %v", lit, got, got)}
	}
	if mustInt && kind != "int" {
		return &Mismatch{path, "number-int-required", append(tags, "got:"+kind), fmt.Sprintf("plain integer %s fits int64 but came back as %T %v", lit, got, got)}
	}
	switch kind {
	case "int":
		if !exact.IsInt() || exact.Num().Cmp(big.NewInt(i64)) != 0 {
			return &Mismatch{path, "number-value", append(tags, "got:int"), fmt.Sprintf("%s came back as int %d", lit, i64)}
		}
	case "float":
		want, err := strconv.ParseFloat(lit, 64)
		if err != nil && math.IsInf(want, 0) {
			if math.IsInf(f64, 0) && (f64 > 0) == (want > 0) {
				return &Mismatch{path, "number-inf", tags, "overflow to Inf (don't care)"}
			}
			return &Mismatch{path, "number-value", append(tags, "got:float", "overflow"), fmt.Sprintf("%s overflows float64 but came back as %v", lit, f64)}
		}
		// cross-check strconv with math/big's correctly rounded conversion
		bf, _ := new(big.Float).SetPrec(2000).SetRat(exact).Float64()
		if bf != want && !(bf == 0 && want == 0) {
			return &Mismatch{path, "oracle-defect", tags, fmt.Sprintf("strconv %v vs big %v for %s", want, bf, lit)}
		}
		if f64 != want {
			return &Mismatch{path, "number-value", append(tags, "got:float"), fmt.Sprintf("%s came back as float %s, nearest is %s", lit, strconv.FormatFloat(f64, 'g', -1, 64), strconv.FormatFloat(want, 'g', -1, 64))}
		}
	case "big":
		r, ok := new(big.Rat).SetString(bigText)
		if !ok {
			return &Mismatch{path, "number-big-text", append(tags, "got:big"), fmt.Sprintf("%s came back as unparsable %q", lit, bigText)}
		}
		if r.Cmp(exact) != 0 {
			return &Mismatch{path, "number-big-text", append(tags, "got:big"), fmt.Sprintf("%s came back as big %q (a different number)", lit, bigText)}
		}
	}
	return nil
}

// pairTag adds "pair-as-two-replacements" when got is exactly the reference string
// with each escaped surrogate pair decoded as two U+FFFD (known finding C02-K2).
func pairTag(n *ref.Node, got string) []string {
	tags := strTags(n)
	if n.PairAlt != "" && (got == n.PairAlt || (n.LoneSurrogate && loose(got) == loose(n.PairAlt))) {
		tags = append(tags, "pair-as-two-replacements")
	}
	return tags
}

func strTags(n *ref.Node) []string {
	var tags []string
	if n.LoneSurrogate {
		tags = append(tags, "lone-surrogate")
	}
	if !utf8.ValidString(n.S) {
		tags = append(tags, "raw-high-bytes")
	}
	for _, r := range n.S {
		if r > 0xFFFF {
			tags = append(tags, "astral")
			break
		}
	}
	return tags
}

// stringEqual compares a decoded string. For strings with an unpaired surrogate
// escape any replacement is accepted: the comparison is done on the text with
// the replaced code points removed on both sides.
func stringEqual(n *ref.Node, got string) bool {
	if n.S == got {
		return true
	}
	if n.LoneSurrogate {
		return loose(n.S) == loose(got)
	}
	return false
}

func loose(s string) string {
	var sb strings.Builder
	for i := 0; i < len(s); {
		r, sz := utf8.DecodeRuneInString(s[i:])
		if r == utf8.RuneError || (0xD800 <= r && r <= 0xDFFF) {
			i += sz
			continue
		}
		// CESU style 3-byte encodings of surrogates decode as RuneError byte by byte: skipped above
		sb.WriteString(s[i : i+sz])
		i += sz
	}
	return sb.String()
}

// MatchTree compares a parser result (maps: last duplicate wins) with the reference.
func MatchTree(n *ref.Node, got any, path string, out *[]Mismatch) {
	if len(*out) > 8 {
		return
	}
	switch n.Kind {
	case ref.Null:
		if got != nil {
			*out = append(*out, Mismatch{path, "structure", nil, fmt.Sprintf("want null got %T %v", got, got)})
		}
	case ref.Bool:
		var b bool
		switch tv := got.(type) {
		case bool:
			b = tv
		case gen.Bool:
			b = bool(tv)
		default:
			*out = append(*out, Mismatch{path, "structure", nil, fmt.Sprintf("want bool got %T %v", got, got)})
			return
		}
		if b != n.B {
			*out = append(*out, Mismatch{path, "structure", nil, fmt.Sprintf("want %v got %v", n.B, b)})
		}
	case ref.Num:
		if m := MatchNumber(n.Lit, got, path); m != nil {
			*out = append(*out, *m)
		}
	case ref.Str:
		var s string
		switch tv := got.(type) {
		case string:
			s = tv
		case gen.String:
			s = string(tv)
		default:
			*out = append(*out, Mismatch{path, "structure", nil, fmt.Sprintf("want string got %T %v", got, got)})
			return
		}
		if !stringEqual(n, s) {
			*out = append(*out, Mismatch{path, "string", pairTag(n, s), fmt.Sprintf("want %q got %q", n.S, s)})
		}
	case ref.Arr:
		var elems []any
		switch tv := got.(type) {
		case []any:
			elems = tv
		case gen.Array:
			for _, e := range tv {
				elems = append(elems, e)
			}
		default:
			*out = append(*out, Mismatch{path, "structure", nil, fmt.Sprintf("want array got %T", got)})
			return
		}
		if len(elems) != len(n.Arr) {
			*out = append(*out, Mismatch{path, "structure", nil, fmt.Sprintf("want %d elements got %d", len(n.Arr), len(elems))})
			return
		}
		for i, c := range n.Arr {
			MatchTree(c, elems[i], fmt.Sprintf("%s[%d]", path, i), out)
		}
	case ref.Obj:
		keys, vals := n.LastWins()
		var get func(k string) (any, bool)
		var size int
		switch tv := got.(type) {
		case map[string]any:
			size = len(tv)
			get = func(k string) (any, bool) { v, ok := tv[k]; return v, ok }
		case gen.Object:
			size = len(tv)
			get = func(k string) (any, bool) { v, ok := tv[k]; return v, ok }
		default:
			*out = append(*out, Mismatch{path, "structure", nil, fmt.Sprintf("want object got %T", got)})
			return
		}
		// keys with lone surrogates may be spelled with any replacement: fall back to a loose match
		looseKeys := false
		for _, k := range keys {
			if _, ok := get(k); !ok {
				looseKeys = true
			}
		}
		if looseKeys {
			hasLone := false
			for i := range n.Keys {
				if n.KeyLone[i] {
					hasLone = true
				}
			}
			if hasLone {
				return // don't care: key spelling under lone surrogates is unspecified
			}
		}
		if size != len(keys) {
			var tags []string
			altSeen := map[string]bool{}
			for _, k := range keys {
				a := keyAlt(n, k)
				if a == "" {
					a = k
				}
				if altSeen[a] {
					tags = []string{"pair-as-two-replacements"} // two keys collapse under C02-K2
				}
				altSeen[a] = true
			}
			*out = append(*out, Mismatch{path, "key", tags, fmt.Sprintf("want %d members %q got %d", len(keys), keys, size)})
			return
		}
		for i, k := range keys {
			v, ok := get(k)
			if !ok {
				if alt := keyAlt(n, k); alt != "" {
					if v2, ok2 := get(alt); ok2 {
						*out = append(*out, Mismatch{path, "key", []string{"pair-as-two-replacements"}, fmt.Sprintf("member %q present as %q", k, alt)})
						v, ok = v2, true
					}
				}
			}
			if !ok {
				*out = append(*out, Mismatch{path, "key", nil, fmt.Sprintf("member %q missing", k)})
				continue
			}
			if gv, isNode := v.(gen.Node); isNode && gv == nil {
				v = nil
			}
			MatchTree(vals[i], v, path+"."+strconv.Quote(k), out)
		}
	}
}

func keyAlt(n *ref.Node, k string) string {
	for i := len(n.Keys) - 1; i >= 0; i-- {
		if n.Keys[i] == k {
			return n.KeyAlt[i]
		}
	}
	return ""
}

// Event is one tokenizer callback.
type Event struct {
	K string // null bool int float number string key { } [ ]
	V any
}

// Recorder implements oj.TokenHandler and records the events.
type Recorder struct{ Events []Event }

func (r *Recorder) Null()           { r.Events = append(r.Events, Event{"null", nil}) }
func (r *Recorder) Bool(b bool)     { r.Events = append(r.Events, Event{"bool", b}) }
func (r *Recorder) Int(i int64)     { r.Events = append(r.Events, Event{"int", i}) }
func (r *Recorder) Float(f float64) { r.Events = append(r.Events, Event{"float", f}) }
func (r *Recorder) Number(s string) { r.Events = append(r.Events, Event{"number", json.Number(s)}) }
func (r *Recorder) String(s string) { r.Events = append(r.Events, Event{"string", s}) }
func (r *Recorder) Key(s string)    { r.Events = append(r.Events, Event{"key", s}) }
func (r *Recorder) ObjectStart()    { r.Events = append(r.Events, Event{"{", nil}) }
func (r *Recorder) ObjectEnd()      { r.Events = append(r.Events, Event{"}", nil}) }
func (r *Recorder) ArrayStart()     { r.Events = append(r.Events, Event{"[", nil}) }
func (r *Recorder) ArrayEnd()       { r.Events = append(r.Events, Event{"]", nil}) }

// MatchEvents compares the event stream with the reference tree (order and
// duplicates preserved). Returns the mismatches.
func MatchEvents(n *ref.Node, evs []Event) []Mismatch {
	var out []Mismatch
	pos := 0
	stop := false // enough mismatches collected: nothing is compared or consumed any more
	var walk func(n *ref.Node, path string)
	next := func(path string) (Event, bool) {
		if stop {
			return Event{}, false
		}
		if pos >= len(evs) {
			out = append(out, Mismatch{path, "structure", nil, "event stream ended early"})
			return Event{}, false
		}
		e := evs[pos]
		pos++
		return e, true
	}
	walk = func(n *ref.Node, path string) {
		if len(out) > 8 {
			// stopping here without stopping everything left the walk out of step with the
			// events and produced spurious structure mismatches behind nine string mismatches
			stop = true
		}
		e, ok := next(path)
		if !ok {
			return
		}
		switch n.Kind {
		case ref.Null:
			if e.K != "null" {
				out = append(out, Mismatch{path, "structure", nil, "want null event got " + e.K})
			}
		case ref.Bool:
			if e.K != "bool" || e.V.(bool) != n.B {
				out = append(out, Mismatch{path, "structure", nil, fmt.Sprintf("want bool %v got %s %v", n.B, e.K, e.V)})
			}
		case ref.Num:
			if e.K != "int" && e.K != "float" && e.K != "number" {
				out = append(out, Mismatch{path, "structure", nil, "want number event got " + e.K})
				return
			}
			if m := MatchNumber(n.Lit, e.V, path); m != nil {
				out = append(out, *m)
			}
		case ref.Str:
			if e.K != "string" {
				out = append(out, Mismatch{path, "structure", nil, "want string event got " + e.K})
				return
			}
			if !stringEqual(n, e.V.(string)) {
				out = append(out, Mismatch{path, "string", pairTag(n, e.V.(string)), fmt.Sprintf("want %q got %q", n.S, e.V)})
			}
		case ref.Arr:
			if e.K != "[" {
				out = append(out, Mismatch{path, "structure", nil, "want [ got " + e.K})
				return
			}
			for i, c := range n.Arr {
				walk(c, fmt.Sprintf("%s[%d]", path, i))
			}
			if e, ok = next(path); ok && e.K != "]" {
				out = append(out, Mismatch{path, "structure", nil, "want ] got " + e.K})
			}
		case ref.Obj:
			if e.K != "{" {
				out = append(out, Mismatch{path, "structure", nil, "want { got " + e.K})
				return
			}
			for i, k := range n.Keys {
				ke, ok := next(path)
				if !ok {
					return
				}
				kn := &ref.Node{Kind: ref.Str, S: k, LoneSurrogate: n.KeyLone[i], PairAlt: n.KeyAlt[i]}
				if ke.K != "key" {
					out = append(out, Mismatch{path, "structure", nil, fmt.Sprintf("want key %q got %s %v", k, ke.K, ke.V)})
					return
				}
				if !stringEqual(kn, ke.V.(string)) {
					// keep walking: the value is still comparable
					out = append(out, Mismatch{path, "key", pairTag(kn, ke.V.(string)), fmt.Sprintf("want key %q got %q", k, ke.V)})
				}
				walk(n.Vals[i], path+"."+strconv.Quote(k))
			}
			if e, ok = next(path); ok && e.K != "}" {
				out = append(out, Mismatch{path, "structure", nil, "want } got " + e.K})
			}
		}
	}
	walk(n, "$")
	if pos != len(evs) && len(out) == 0 && !stop {
		out = append(out, Mismatch{"$", "structure", nil, fmt.Sprintf("%d extra events", len(evs)-pos)})
	}
	return out
}

// Features lists classification tags of a reference tree (number shapes, escapes).
func Features(n *ref.Node, set map[string]bool) {
	switch n.Kind {
	case ref.Num:
		for _, t := range NumShape(n.Lit) {
			set[t] = true
		}
	case ref.Str:
		for _, t := range strTags(n) {
			set[t] = true
		}
	case ref.Arr:
		for _, c := range n.Arr {
			Features(c, set)
		}
	case ref.Obj:
		for i, c := range n.Vals {
			if n.KeyLone[i] {
				set["key-lone-surrogate"] = true
			}
			Features(c, set)
		}
	}
}
