package tyx

// Holder types: each has one field that is the only static mention of a leaf struct type
// (first, middle or last; pointer, slice, array, map, value, nested) and an interface field
// that holds a value of that leaf type. Nothing registers the leaf types by hand: a
// recomposer learns them from the holder's fields.

type (
	LfA struct {
		N int
		S string
	}
	LfB struct {
		N int
		S string
	}
	LfC struct {
		N int
		S string
	}
	LfD struct {
		N int
		S string
	}
	LfE struct {
		N int
		S string
	}
	LfF struct {
		N int
		S string
	}
	LfG struct {
		N int
		S string
	}
	LfH struct {
		N int
		S string
	}
	LfI struct {
		N int
		S string
	}
	LfJ struct {
		N int
		S string
	}
)

type HFirstPtr struct {
	Ref  *LfA
	Any  any
	Name string
}

type HMidPtr struct {
	Name string
	Ref  *LfB
	Any  any
}

type HLastPtr struct {
	Name string
	Any  any
	Ref  *LfC
}

type HFirstSlice struct {
	Ref []LfD
	Any any
}

type HFirstMap struct {
	Ref map[string]*LfE
	Any any
}

type HFirstArr struct {
	Ref [2]LfF
	Any any
}

type HFirstVal struct {
	Ref LfG
	Any any
}

type HLastPtrSlice struct {
	Any any
	Ref []*LfH
}

type HNested struct {
	In struct {
		Ref *LfI
		N   int
	}
	Any any
}

type HOnly struct {
	Ref *LfJ
}

type HOnlyOuter struct {
	Only HOnly
	Any  any
}

// HolderNames lists the holder types.
var HolderNames = []string{"HFirstPtr", "HMidPtr", "HLastPtr", "HFirstSlice", "HFirstMap", "HFirstArr", "HFirstVal", "HLastPtrSlice", "HNested", "HOnlyOuter"}

// Holder returns a pointer to sample i of the named holder type: i%4 == 0 leaves the
// referencing field empty and puts a pointer to a leaf in the interface, 1 fills both,
// 2 puts a leaf value in the interface, 3 a list with a pointer to a leaf.
func Holder(name string, i int) any {
	fill := i%4 == 1
	n := i/4 + 1
	switch name {
	case "HFirstPtr":
		h := &HFirstPtr{Name: "h"}
		h.Any = inAny(i, &LfA{N: n, S: "a"}, LfA{N: n, S: "a"})
		if fill {
			h.Ref = &LfA{N: 7}
		}
		return h
	case "HMidPtr":
		h := &HMidPtr{Name: "h"}
		h.Any = inAny(i, &LfB{N: n, S: "b"}, LfB{N: n, S: "b"})
		if fill {
			h.Ref = &LfB{N: 7}
		}
		return h
	case "HLastPtr":
		h := &HLastPtr{Name: "h"}
		h.Any = inAny(i, &LfC{N: n, S: "c"}, LfC{N: n, S: "c"})
		if fill {
			h.Ref = &LfC{N: 7}
		}
		return h
	case "HFirstSlice":
		h := &HFirstSlice{}
		h.Any = inAny(i, &LfD{N: n, S: "d"}, LfD{N: n, S: "d"})
		if fill {
			h.Ref = []LfD{{N: 7}, {N: 8}}
		}
		return h
	case "HFirstMap":
		h := &HFirstMap{}
		h.Any = inAny(i, &LfE{N: n, S: "e"}, LfE{N: n, S: "e"})
		if fill {
			h.Ref = map[string]*LfE{"k": {N: 7}}
		}
		return h
	case "HFirstArr":
		h := &HFirstArr{}
		h.Any = inAny(i, &LfF{N: n, S: "f"}, LfF{N: n, S: "f"})
		if fill {
			h.Ref = [2]LfF{{N: 7}, {N: 8}}
		}
		return h
	case "HFirstVal":
		h := &HFirstVal{}
		h.Any = inAny(i, &LfG{N: n, S: "g"}, LfG{N: n, S: "g"})
		if fill {
			h.Ref = LfG{N: 7}
		}
		return h
	case "HLastPtrSlice":
		h := &HLastPtrSlice{}
		h.Any = inAny(i, &LfH{N: n, S: "h"}, LfH{N: n, S: "h"})
		if fill {
			h.Ref = []*LfH{{N: 7}}
		}
		return h
	case "HNested":
		h := &HNested{}
		h.Any = inAny(i, &LfI{N: n, S: "i"}, LfI{N: n, S: "i"})
		if fill {
			h.In.Ref = &LfI{N: 7}
			h.In.N = 3
		}
		return h
	case "HOnlyOuter":
		h := &HOnlyOuter{}
		h.Any = inAny(i, &LfJ{N: n, S: "j"}, LfJ{N: n, S: "j"})
		if fill {
			h.Only.Ref = &LfJ{N: 7}
		}
		return h
	}
	return nil
}

func inAny(i int, ptr, val any) any {
	switch i % 4 {
	case 2:
		return val
	case 3:
		return []any{ptr, map[string]any{"k": val}}
	}
	return ptr
}
