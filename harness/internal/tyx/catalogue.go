package tyx

import "time"

// Named catalogue types (embedding, every tag form, nesting). Values are built by
// the constructors below from a small integer so that cases stay serialisable.

type Inner struct {
	X int    `json:"x"`
	Y string `json:"y,omitempty"`
}

type Base struct {
	ID   int64
	Note string `json:"note,omitempty"`
}

type WithEmbed struct {
	Base
	Name string
	In   Inner
}

type Deep struct {
	WithEmbed
	Level int `json:"lvl"`
	Ptr   *Inner
	List  []Inner
	PList []*Inner
	Map   map[string]Inner
	Any   any
	skip  int
}

type Tags struct {
	A string `json:"a"`
	B string `json:"b,omitempty"`
	C string `json:"c"`
	D int    `json:",omitempty"`
	E int    `json:"-"`
	F int    `json:"f,string"`
	G string
	H string `json:"h,omitempty"`
	I string `json:"i"`
}

type Nums struct {
	I8  int8
	I16 int16
	I32 int32
	I64 int64
	U8  uint8
	U16 uint16
	U32 uint32
	U64 uint64
	F32 float32
	F64 float64
	B   bool
}

// Named scalar types (enumerations and the like are declared this way).
type (
	Port  uint16
	Count int32
	Flag  bool
	Ratio float64
	Label string
)

// PtrEmbed embeds a pointer to a struct.
type PtrEmbed struct {
	*Base
	N int
}

// Stamped has a field of a type that writes itself (time.Time).
type Stamped struct {
	When  time.Time
	N     int
	Later *Stamped
}

// IntKeys holds maps whose keys are not strings: written under the digits of the key, as
// encoding/json writes them.
type IntKeys struct {
	M  map[int]string
	U  map[uint8]int64
	N  map[int64]*Inner
	In Inner
}

// (no negative keys: the SEN writers write a key that starts with '-' bare, which does not read
// back - recorded as C10-K1, not this catalogue's business)
// EncodeOnlySize is the number of catalogue values that only the encoders are given (the
// recomposer has no way back for them).
const EncodeOnlySize = 3

// EncodeOnly returns value number i of the values for the encoders alone.
func EncodeOnly(i int) any {
	switch i % EncodeOnlySize {
	case 0:
		return IntKeys{M: map[int]string{1: "a", 2: "b", 10: "c"}, U: map[uint8]int64{7: 1, 255: 0}, N: map[int64]*Inner{1 << 40: {X: 1}, 5: nil}, In: Inner{X: 1}}
	case 1:
		return IntKeys{M: map[int]string{}, U: nil, N: map[int64]*Inner{0: {}}}
	default:
		return map[int]any{3: true, 1: IntKeys{M: map[int]string{0: ""}}, 20: []any{map[int8]any{3: nil, 4: "x"}}}
	}
}

// CatalogueSize is the number of catalogue values.
const CatalogueSize = 14

// Catalogue returns value number i of the named catalogue (as a struct value).
func Catalogue(i int) any {
	switch i % CatalogueSize {
	case 0:
		return Inner{X: 1, Y: "y"}
	case 1:
		return Inner{}
	case 2:
		return WithEmbed{Base: Base{ID: 7, Note: "n"}, Name: "nm", In: Inner{X: 2}}
	case 3:
		return WithEmbed{}
	case 4:
		return Deep{WithEmbed: WithEmbed{Base: Base{ID: 1}, Name: "d"}, Level: 3, Ptr: &Inner{X: 5}, List: []Inner{{X: 1}, {X: 2, Y: "b"}}, PList: []*Inner{{X: 9}}, Map: map[string]Inner{"k": {X: 3}}, Any: Inner{X: 4}}
	case 5:
		return Deep{}
	case 6:
		return &Deep{Level: 1, Any: map[string]any{"z": int64(1)}}
	case 7:
		return Tags{A: "a", B: "", C: "c", D: 0, E: 5, F: 6, G: "g", H: "", I: "i"}
	case 8:
		return Tags{A: "", B: "b", C: "", D: 4, E: 0, F: 0, G: "", H: "h", I: ""}
	case 9:
		return Nums{I8: -128, I16: 32767, I32: -1, I64: 1<<53 + 1, U8: 255, U16: 65535, U32: 1 << 31, U64: 1 << 62, F32: 1.5, F64: 0.1, B: true}
	case 10:
		return Nums{}
	case 12:
		return PtrEmbed{Base: &Base{ID: 3, Note: "x"}, N: 2}
	case 13:
		return PtrEmbed{N: 2}
	default:
		return []any{Inner{X: 1}, &Inner{X: 2}, map[string]any{"in": Inner{X: 3}}, []Inner{{X: 4}}}
	}
}
