// Package pb holds named types whose short names collide with those of package pa
// but whose fields differ in number, order and kind.
package pb

type Item struct {
	Name  string
	Count int64
	Price float64
	On    bool
	ID    int
}

type Box struct {
	Label string
	M     map[string]Item
	Item  Item
	Deep  *Box
}

// Holder mentions Item as the element type of a list only and holds one in an interface.
type Holder struct {
	Items []Item
	Any   any
	N     int
}

// Sample returns the i-th sample value of the named type (pointer to it).
func Sample(name string, i int) any {
	one := Item{Name: "pb-one", Count: 12, Price: 2.5, On: true, ID: 1}
	two := Item{Name: "pb-two", Count: -1, Price: 0.125, ID: 2}
	switch name {
	case "Item":
		if i%2 == 0 {
			return &one
		}
		return &two
	case "Holder":
		if i%2 == 0 {
			return &Holder{Items: []Item{one}, Any: &two, N: 1}
		}
		return &Holder{Any: &one}
	case "Box":
		if i%2 == 0 {
			return &Box{Label: "l", M: map[string]Item{"x": one, "y": two}, Item: two, Deep: &Box{Label: "inner", Item: one}}
		}
		return &Box{Label: "", Item: one}
	}
	return nil
}
