// Package tyx generates Go struct types (reflect.StructOf recipes and a named
// catalogue), values for them, and holds the naive reference encoder used by
// C15 / C16.
package tyx

import (
	"encoding/base64"
	"fmt"
	"math"
	"reflect"
	"sort"
	"strconv"
	"strings"
	"sync/atomic"

	"pgregory.net/rapid"
)

// FieldR is a recipe for one struct field.
type FieldR struct {
	Name string  `json:"name"`
	Kind string  `json:"kind"` // bool int int8 int16 int32 int64 uint uint8 uint16 uint32 uint64 float32 float64 string bytes ints strs mapsi pint pstr ppint any struct pstruct structs pstructs mapst arr3
	Tag  string  `json:"tag,omitempty"`
	Sub  *TypeR  `json:"sub,omitempty"` // for struct kinds
	Val  *ValueR `json:"val,omitempty"`
}

// TypeR is a recipe for a struct type.
type TypeR struct {
	Fields []FieldR `json:"fields"`
}

// ValueR is a recipe for a field value.
type ValueR struct {
	Nil   bool      `json:"nil,omitempty"` // nil pointer / slice / map / interface
	B     bool      `json:"b,omitempty"`
	I     int64     `json:"i,omitempty"`
	U     uint64    `json:"u,omitempty"`
	F     float64   `json:"f,omitempty"`
	S     string    `json:"s,omitempty"`
	Ints  []int64   `json:"ints,omitempty"`
	Strs  []string  `json:"strs,omitempty"`
	Keys  []string  `json:"keys,omitempty"` // map keys (values from Ints)
	Elems []*ValueR `json:"elems,omitempty"`
	Any   string    `json:"any,omitempty"` // dynamic kind of an interface value: nil bool int float string ints map struct
}

var typeCounter uint64

// Build creates the reflect.Type. Every call returns a type the process has never
// seen before (a counter is folded into the tag of an unexported padding field is not
// possible with StructOf, so it goes into an otherwise unused tag key "v").
func (t *TypeR) Build() reflect.Type {
	n := atomic.AddUint64(&typeCounter, 1)
	var fields []reflect.StructField
	for i, f := range t.Fields {
		tag := f.Tag
		if i == 0 {
			if tag != "" {
				tag += " "
			}
			tag += `v:"` + strconv.FormatUint(n, 10) + `"`
		}
		fields = append(fields, reflect.StructField{Name: f.Name, Type: f.goType(), Tag: reflect.StructTag(tag), Anonymous: f.Kind == "emb" || f.Kind == "pemb"})
	}
	return reflect.StructOf(fields)
}

var (
	tAny = reflect.TypeOf((*any)(nil)).Elem()
)

func (f *FieldR) goType() reflect.Type {
	switch f.Kind {
	case "bool":
		return reflect.TypeOf(false)
	case "int":
		return reflect.TypeOf(int(0))
	case "int8":
		return reflect.TypeOf(int8(0))
	case "int16":
		return reflect.TypeOf(int16(0))
	case "int32":
		return reflect.TypeOf(int32(0))
	case "int64":
		return reflect.TypeOf(int64(0))
	case "uint":
		return reflect.TypeOf(uint(0))
	case "uint8":
		return reflect.TypeOf(uint8(0))
	case "uint16":
		return reflect.TypeOf(uint16(0))
	case "uint32":
		return reflect.TypeOf(uint32(0))
	case "uint64":
		return reflect.TypeOf(uint64(0))
	case "float32":
		return reflect.TypeOf(float32(0))
	case "float64":
		return reflect.TypeOf(float64(0))
	case "string":
		return reflect.TypeOf("")
	case "bytes":
		return reflect.TypeOf([]byte(nil))
	case "ints":
		return reflect.TypeOf([]int64(nil))
	case "strs":
		return reflect.TypeOf([]string(nil))
	case "anys":
		return reflect.TypeOf([]any(nil))
	case "parr":
		return reflect.TypeOf([2]*int64{})
	case "mapany":
		return reflect.TypeOf(map[string]any(nil))
	case "mapsi":
		return reflect.TypeOf(map[string]int64(nil))
	case "pint":
		return reflect.TypeOf((*int64)(nil))
	case "pstr":
		return reflect.TypeOf((*string)(nil))
	case "ppint":
		return reflect.TypeOf((**int64)(nil))
	case "any":
		return tAny
	case "struct":
		return f.Sub.cached()
	case "pstruct":
		return reflect.PointerTo(f.Sub.cached())
	case "structs":
		return reflect.SliceOf(f.Sub.cached())
	case "pstructs":
		return reflect.SliceOf(reflect.PointerTo(f.Sub.cached()))
	case "mapst":
		return reflect.MapOf(reflect.TypeOf(""), f.Sub.cached())
	case "mapsm":
		return reflect.TypeOf(map[string]map[string]int64(nil))
	case "nuint16":
		return reflect.TypeOf(Port(0))
	case "nint32":
		return reflect.TypeOf(Count(0))
	case "nbool":
		return reflect.TypeOf(Flag(false))
	case "nfloat64":
		return reflect.TypeOf(Ratio(0))
	case "nstring":
		return reflect.TypeOf(Label(""))
	case "nstrs": // slice of a named string type
		return reflect.TypeOf([]Label(nil))
	case "nports": // slice of a named integer type
		return reflect.TypeOf([]Port(nil))
	case "nmapli": // map with a named string type as key and a named integer as value
		return reflect.TypeOf(map[Label]Count(nil))
	case "emb": // embedded named struct (field name Base)
		return reflect.TypeOf(Base{})
	case "pemb": // embedded pointer to a named struct
		return reflect.TypeOf(&Base{})
	case "arr3":
		return reflect.ArrayOf(3, reflect.TypeOf(int64(0)))
	}
	panic("tyx: kind " + f.Kind)
}

// cached builds a nested type once per recipe object.
var subCache = map[*TypeR]reflect.Type{}

func (t *TypeR) cached() reflect.Type {
	if rt, ok := subCache[t]; ok {
		return rt
	}
	rt := t.Build()
	subCache[t] = rt
	return rt
}

// ResetCache forgets nested types (call per case; not goroutine safe by design).
func ResetCache() { subCache = map[*TypeR]reflect.Type{} }

// New builds a value of the type filled according to the recipes.
func (t *TypeR) New(rt reflect.Type) reflect.Value {
	rv := reflect.New(rt).Elem()
	for i, f := range t.Fields {
		f.fill(rv.Field(i))
	}
	return rv
}

func (f *FieldR) fill(rv reflect.Value) {
	v := f.Val
	if v == nil {
		return
	}
	switch f.Kind {
	case "bool", "nbool":
		rv.SetBool(v.B)
	case "nuint16":
		rv.SetUint(v.U & 0xffff)
	case "nfloat64":
		rv.SetFloat(v.F)
	case "nstring":
		rv.SetString(v.S)
	case "nstrs":
		if !v.Nil {
			x := make([]Label, len(v.Strs))
			for i, e := range v.Strs {
				x[i] = Label(e)
			}
			rv.Set(reflect.ValueOf(x))
		}
	case "nports":
		if !v.Nil {
			x := make([]Port, len(v.Ints))
			for i, e := range v.Ints {
				x[i] = Port(e)
			}
			rv.Set(reflect.ValueOf(x))
		}
	case "nmapli":
		if !v.Nil {
			m := map[Label]Count{}
			for i, k := range v.Keys {
				if i < len(v.Ints) {
					m[Label(k)] = Count(v.Ints[i])
				}
			}
			rv.Set(reflect.ValueOf(m))
		}
	case "int", "int8", "int16", "int32", "int64", "nint32":
		rv.SetInt(clampInt(v.I, rv.Type().Bits()))
	case "uint", "uint8", "uint16", "uint32", "uint64":
		u := v.U
		if b := rv.Type().Bits(); b < 64 {
			u &= (1 << uint(b)) - 1
		}
		rv.SetUint(u)
	case "float32":
		rv.SetFloat(float64(float32(v.F)))
	case "float64":
		rv.SetFloat(v.F)
	case "string":
		rv.SetString(v.S)
	case "bytes":
		if !v.Nil {
			rv.SetBytes([]byte(v.S))
		}
	case "ints":
		if !v.Nil {
			s := make([]int64, len(v.Ints))
			copy(s, v.Ints)
			rv.Set(reflect.ValueOf(s))
		}
	case "strs":
		if !v.Nil {
			s := make([]string, len(v.Strs))
			copy(s, v.Strs)
			rv.Set(reflect.ValueOf(s))
		}
	case "mapany": // a map of anything: struct pointers directly and inside a list
		if !v.Nil {
			m := map[string]any{"one": &Inner{X: 1}, "parts": []any{&Inner{X: 2, Y: "p"}, int64(3)}}
			for _, x := range v.Strs {
				m["s"] = x
			}
			rv.Set(reflect.ValueOf(m))
		}
	case "parr": // an array of pointers, the first nil unless the value says otherwise
		a := [2]*int64{}
		if len(v.Ints) > 0 {
			x := v.Ints[0]
			a[1] = &x
		}
		if !v.Nil && len(v.Ints) > 1 {
			y := v.Ints[1]
			a[0] = &y
		}
		rv.Set(reflect.ValueOf(a))
	case "anys": // a list of anything, null elements included
		if !v.Nil {
			s := []any{nil}
			for _, x := range v.Strs {
				s = append(s, x, nil)
			}
			rv.Set(reflect.ValueOf(s))
		}
	case "mapsi":
		if !v.Nil {
			m := map[string]int64{}
			for i, k := range v.Keys {
				if i < len(v.Ints) {
					m[k] = v.Ints[i]
				}
			}
			rv.Set(reflect.ValueOf(m))
		}
	case "pint":
		if !v.Nil {
			x := v.I
			rv.Set(reflect.ValueOf(&x))
		}
	case "pstr":
		if !v.Nil {
			x := v.S
			rv.Set(reflect.ValueOf(&x))
		}
	case "ppint":
		if !v.Nil {
			x := v.I
			px := &x
			rv.Set(reflect.ValueOf(&px))
		}
	case "any":
		switch v.Any {
		case "bool":
			rv.Set(reflect.ValueOf(v.B))
		case "int":
			rv.Set(reflect.ValueOf(v.I))
		case "float":
			rv.Set(reflect.ValueOf(v.F))
		case "string":
			rv.Set(reflect.ValueOf(v.S))
		case "ints":
			s := make([]any, len(v.Ints))
			for i, x := range v.Ints {
				s[i] = x
			}
			rv.Set(reflect.ValueOf(s))
		case "map":
			m := map[string]any{}
			for i, k := range v.Keys {
				if i < len(v.Ints) {
					m[k] = v.Ints[i]
				}
			}
			rv.Set(reflect.ValueOf(m))
		case "mixed": // a list with null elements
			rv.Set(reflect.ValueOf([]any{nil, v.I, v.S, []any{nil, true}, nil}))
		case "nilptr": // a typed nil pointer in the interface: not == nil, but nil all the same
			rv.Set(reflect.ValueOf((*Inner)(nil)))
		case "ptr":
			rv.Set(reflect.ValueOf(&Inner{X: int(v.I % 1000)}))
		case "mapptr": // a map whose members hold struct pointers, directly and inside a list
			rv.Set(reflect.ValueOf(map[string]any{"one": &Inner{X: 1, Y: v.S}, "parts": []any{&Inner{X: int(v.I % 1000)}, int64(2)}, "n": v.I}))
		}
	case "struct":
		rv.Set(f.Sub.newWith(rv.Type(), v))
	case "pstruct":
		if !v.Nil {
			p := reflect.New(rv.Type().Elem())
			p.Elem().Set(f.Sub.newWith(rv.Type().Elem(), v))
			rv.Set(p)
		}
	case "structs":
		if !v.Nil {
			s := reflect.MakeSlice(rv.Type(), len(v.Elems), len(v.Elems))
			for i, e := range v.Elems {
				s.Index(i).Set(f.Sub.newWith(rv.Type().Elem(), e))
			}
			rv.Set(s)
		}
	case "pstructs":
		if !v.Nil {
			s := reflect.MakeSlice(rv.Type(), len(v.Elems), len(v.Elems))
			for i, e := range v.Elems {
				if e != nil && !e.Nil {
					p := reflect.New(rv.Type().Elem().Elem())
					p.Elem().Set(f.Sub.newWith(rv.Type().Elem().Elem(), e))
					s.Index(i).Set(p)
				}
			}
			rv.Set(s)
		}
	case "mapst":
		if !v.Nil {
			m := reflect.MakeMap(rv.Type())
			for i, k := range v.Keys {
				if i < len(v.Elems) {
					m.SetMapIndex(reflect.ValueOf(k), f.Sub.newWith(rv.Type().Elem(), v.Elems[i]))
				}
			}
			rv.Set(m)
		}
	case "emb":
		rv.Set(reflect.ValueOf(Base{ID: v.I, Note: v.S}))
	case "pemb":
		if !v.Nil {
			rv.Set(reflect.ValueOf(&Base{ID: v.I, Note: v.S}))
		}
	case "mapsm":
		if !v.Nil {
			m := map[string]map[string]int64{}
			for i, k := range v.Keys {
				if i < len(v.Elems) && v.Elems[i] != nil && !v.Elems[i].Nil {
					inner := map[string]int64{}
					for j, ik := range v.Elems[i].Keys {
						if j < len(v.Elems[i].Ints) {
							inner[ik] = v.Elems[i].Ints[j]
						}
					}
					m[k] = inner
				} else {
					m[k] = nil
				}
			}
			rv.Set(reflect.ValueOf(m))
		}
	case "arr3":
		for i := 0; i < 3 && i < len(v.Ints); i++ {
			rv.Index(i).SetInt(v.Ints[i])
		}
	}
}

// newWith fills a nested struct from the element recipe (its Elems are the per-field values).
func (t *TypeR) newWith(rt reflect.Type, v *ValueR) reflect.Value {
	rv := reflect.New(rt).Elem()
	for i, f := range t.Fields {
		ff := f
		if v != nil && i < len(v.Elems) && v.Elems[i] != nil {
			ff.Val = v.Elems[i]
		}
		ff.fill(rv.Field(i))
	}
	return rv
}

func clampInt(i int64, bits int) int64 {
	if bits >= 64 {
		return i
	}
	max := int64(1)<<uint(bits-1) - 1
	if i > max {
		return max
	}
	if i < -max-1 {
		return -max - 1
	}
	return i
}

// ---- generators ----

// (Urls / URLs and HostName / Hostname: names that differ in the case of a later letter only - their
// default keys, lower-cased in the first letter only, differ too)
var fieldNames = []string{"A", "B", "C", "D", "E", "Name", "Value", "ID", "Xyz", "URL", "aBc", "X1", "LongFieldName", "Zed", "Urls", "URLs", "HostName", "Hostname"}

// keyNorm is the spelling under which two field names collide as default keys: names of up to
// three letters are lower-cased entirely, longer ones in the first letter.
func keyNorm(name string) string {
	if len(name) > 3 {
		return strings.ToLower(name[:1]) + name[1:]
	}
	return strings.ToLower(name)
}

var scalarKinds = []string{"bool", "int", "int8", "int16", "int32", "int64", "uint", "uint8", "uint16", "uint32", "uint64", "float32", "float64", "string", "string", "int64",
	"nuint16", "nint32", "nbool", "nfloat64", "nstring"} // n...: named types with that underlying kind
var otherKinds = []string{"bytes", "ints", "strs", "mapsi", "pint", "pstr", "ppint", "any", "any", "arr3", "mapsm", "nstrs", "nports", "nmapli", "anys", "parr", "mapany"}
var structKinds = []string{"struct", "pstruct", "structs", "pstructs", "mapst"}
var tagForms = []string{"", "", "", `json:"%s"`, `json:"%s,omitempty"`, `json:",omitempty"`, `json:"-"`, `json:"%s,string"`, `json:"-,"`}
var tagNames = []string{"a", "b", "name", "x_y", "Upper", "id", "with space", "é"}

// DrawType draws a struct type recipe.
func DrawType(t *rapid.T, depth int) *TypeR {
	n := rapid.IntRange(1, 6).Draw(t, "nfields")
	tr := &TypeR{}
	used := map[string]bool{}
	usedKey := map[string]bool{}
	usedTag := map[string]bool{}
	for i := 0; i < n; i++ {
		name := rapid.SampledFrom(fieldNames).Draw(t, "fname")
		name = strings.ToUpper(name[:1]) + name[1:]
		for usedKey[keyNorm(name)] || usedTag[strings.ToLower(name)] {
			name += "x" // no field name may equal another field's tag name: Recompose honours tags whatever wrote the data
		}
		usedKey[keyNorm(name)] = true
		used[strings.ToLower(name)] = true
		f := FieldR{Name: name}
		k := rapid.IntRange(0, 9).Draw(t, "kindclass")
		switch {
		case k < 5:
			f.Kind = rapid.SampledFrom(scalarKinds).Draw(t, "skind")
		case k < 8 || depth <= 0:
			f.Kind = rapid.SampledFrom(otherKinds).Draw(t, "okind")
		default:
			f.Kind = rapid.SampledFrom(structKinds).Draw(t, "stkind")
			f.Sub = DrawType(t, depth-1)
		}
		form := rapid.SampledFrom(tagForms).Draw(t, "tagform")
		if form == `json:"-,"` {
			if usedTag["-"] {
				form = ""
			}
			usedTag["-"] = true
		}
		if strings.Contains(form, "%s") {
			tn := rapid.SampledFrom(tagNames).Draw(t, "tagname")
			for usedTag[strings.ToLower(tn)] || used[strings.ToLower(tn)] {
				tn += "2"
			}
			usedTag[strings.ToLower(tn)] = true
			form = fmt.Sprintf(form, tn)
		}
		if strings.Contains(form, ",string") {
			switch f.Kind {
			case "int", "int64", "float64", "bool", "uint32", "uint64":
			default:
				form = ""
			}
		}
		f.Tag = form
		f.Val = drawValue(t, &f, depth)
		tr.Fields = append(tr.Fields, f)
	}
	// sometimes embed the named struct Base (fields ID, Note), by value or by pointer; its
	// promoted names must not collide with the other fields
	if !used["base"] && !used["id"] && !used["note"] && !usedTag["id"] && !usedTag["note"] && !usedTag["base"] && rapid.IntRange(0, 5).Draw(t, "embed") == 0 {
		f := FieldR{Name: "Base", Kind: rapid.SampledFrom([]string{"emb", "pemb", "pemb"}).Draw(t, "embkind")}
		f.Val = &ValueR{I: rapid.SampledFrom(valueInts).Draw(t, "embid"), S: rapid.SampledFrom(valueStrs).Draw(t, "embnote"), Nil: f.Kind == "pemb" && rapid.IntRange(0, 3).Draw(t, "embnil") == 0}
		at := rapid.IntRange(0, len(tr.Fields)).Draw(t, "embat")
		tr.Fields = append(tr.Fields[:at], append([]FieldR{f}, tr.Fields[at:]...)...)
	}
	return tr
}

var valueInts = []int64{0, 1, -1, 7, 127, 128, -128, 255, 256, 65535, 1 << 31, -(1 << 31), 1 << 53, 1<<53 + 1, math.MaxInt64, math.MinInt64, 42}
var valueStrs = []string{"", "a", "hello", "with \"quote\"", "<html>&", "é", "line\nbreak", "true", "123", "\xff", "tab\t"}

func drawValue(t *rapid.T, f *FieldR, depth int) *ValueR {
	v := &ValueR{}
	zero := rapid.IntRange(0, 4).Draw(t, "zero") == 0
	switch f.Kind {
	case "bool", "nbool":
		v.B = !zero
	case "nuint16":
		if !zero {
			v.U = rapid.SampledFrom([]uint64{1, 80, 443, 65535}).Draw(t, "u")
		}
	case "nfloat64":
		if !zero {
			v.F = rapid.SampledFrom([]float64{1.5, -2.25, 0.1, 3}).Draw(t, "f")
		}
	case "nstring":
		if !zero {
			v.S = rapid.SampledFrom(valueStrs).Draw(t, "s")
		}
	case "int", "int8", "int16", "int32", "int64", "nint32":
		if !zero {
			v.I = rapid.SampledFrom(valueInts).Draw(t, "i")
		}
	case "uint", "uint8", "uint16", "uint32", "uint64":
		if !zero {
			v.U = rapid.SampledFrom([]uint64{1, 7, 255, 256, 65535, 1 << 32, math.MaxInt64, math.MaxUint64, 1<<63 + 1, 42}).Draw(t, "u")
		}
	case "float32", "float64":
		if !zero {
			v.F = rapid.SampledFrom([]float64{1.5, -2.25, 0.1, 1e21, 1e-7, 3, 123456.789, math.MaxFloat32, 16777217}).Draw(t, "f")
		}
	case "string", "pstr":
		if !zero {
			v.S = rapid.SampledFrom(valueStrs).Draw(t, "s")
		}
		if f.Kind == "pstr" {
			v.Nil = rapid.IntRange(0, 2).Draw(t, "nil") == 0
		}
	case "bytes":
		v.Nil = rapid.IntRange(0, 3).Draw(t, "nil") == 0
		if !zero {
			v.S = rapid.SampledFrom([]string{"abc", "\x00\x01\xff", "hello world", "{}"}).Draw(t, "bs")
		}
	case "ints", "arr3", "nports", "parr":
		v.Nil = f.Kind != "arr3" && rapid.IntRange(0, 3).Draw(t, "nil") == 0
		if !zero {
			n := rapid.IntRange(1, 3).Draw(t, "n")
			for i := 0; i < n; i++ {
				v.Ints = append(v.Ints, rapid.SampledFrom(valueInts).Draw(t, "ei"))
			}
		}
	case "strs", "nstrs", "anys", "mapany":
		v.Nil = rapid.IntRange(0, 3).Draw(t, "nil") == 0
		if !zero {
			n := rapid.IntRange(1, 3).Draw(t, "n")
			for i := 0; i < n; i++ {
				v.Strs = append(v.Strs, rapid.SampledFrom(valueStrs).Draw(t, "es"))
			}
		}
	case "mapsi", "nmapli":
		v.Nil = rapid.IntRange(0, 3).Draw(t, "nil") == 0
		if !zero {
			n := rapid.IntRange(1, 3).Draw(t, "n")
			for i := 0; i < n; i++ {
				v.Keys = append(v.Keys, rapid.SampledFrom([]string{"k1", "k2", "z", "", "K"}).Draw(t, "mk"))
				v.Ints = append(v.Ints, rapid.SampledFrom(valueInts).Draw(t, "mv"))
			}
		}
	case "pint", "ppint":
		v.Nil = rapid.IntRange(0, 2).Draw(t, "nil") == 0
		if !zero {
			v.I = rapid.SampledFrom(valueInts).Draw(t, "pi")
		}
	case "any":
		v.Any = rapid.SampledFrom([]string{"nil", "bool", "int", "float", "string", "ints", "map", "nilptr", "ptr", "mixed", "mapptr"}).Draw(t, "anykind")
		v.B = true
		v.I = rapid.SampledFrom(valueInts).Draw(t, "ai")
		v.F = 2.5
		v.S = rapid.SampledFrom(valueStrs).Draw(t, "as")
		v.Ints = []int64{1, 2}
		v.Keys = []string{"k"}
	case "struct", "pstruct":
		v.Nil = f.Kind == "pstruct" && rapid.IntRange(0, 2).Draw(t, "nil") == 0
	case "structs", "pstructs", "mapst":
		v.Nil = rapid.IntRange(0, 3).Draw(t, "nil") == 0
		n := rapid.IntRange(0, 2).Draw(t, "n")
		for i := 0; i < n; i++ {
			e := &ValueR{}
			if f.Kind == "pstructs" && rapid.IntRange(0, 3).Draw(t, "enil") == 0 {
				e.Nil = true
			}
			// elements differ from each other: some fields get values of their own (in
			// particular other nil / non-nil choices for slices, maps and pointers), so that
			// state carried from one element to the next shows
			if f.Sub != nil && !e.Nil && rapid.IntRange(0, 3).Draw(t, "vary") != 0 {
				e.Elems = make([]*ValueR, len(f.Sub.Fields))
				for j := range f.Sub.Fields {
					if rapid.Bool().Draw(t, "own") {
						e.Elems[j] = drawValue(t, &f.Sub.Fields[j], depth-1)
					}
				}
			}
			v.Elems = append(v.Elems, e)
			v.Keys = append(v.Keys, "m"+strconv.Itoa(i))
		}
	case "mapsm":
		v.Nil = rapid.IntRange(0, 4).Draw(t, "nil") == 0
		n := rapid.IntRange(0, 3).Draw(t, "n")
		for i := 0; i < n; i++ {
			e := &ValueR{Nil: rapid.IntRange(0, 5).Draw(t, "inil") == 0}
			m := rapid.IntRange(0, 2).Draw(t, "in")
			for j := 0; j < m; j++ {
				e.Keys = append(e.Keys, rapid.SampledFrom([]string{"a", "b", "c", "d"}).Draw(t, "ik"))
				e.Ints = append(e.Ints, rapid.SampledFrom(valueInts).Draw(t, "iv"))
			}
			v.Elems = append(v.Elems, e)
			v.Keys = append(v.Keys, "o"+strconv.Itoa(i))
		}
	}
	return v
}

// ---- reference encoder ----

// EncOpts are the encoding options the reference understands.
type EncOpts struct {
	NestEmbed bool `json:"nestembed,omitempty"`
	UseTags   bool `json:"usetags,omitempty"`
	KeyExact  bool `json:"keyexact,omitempty"`
	OmitNil   bool `json:"omitnil,omitempty"`
	OmitEmpty bool `json:"omitempty,omitempty"`
	BytesAs   int  `json:"bytesas,omitempty"` // 0 string 1 base64 2 array
	// CreateKey: every struct is written with one more member, CreateKey: type name (with the
	// package path and a slash in front when FullTypePath is set)
	CreateKey    string `json:"createkey,omitempty"`
	FullTypePath bool   `json:"fulltypepath,omitempty"`
}

// Drop rules for object members.
const (
	Keep = iota
	MustDrop
	MayDrop      // the documentation leaves it open; all encoders must make the same choice
	BecomesEmpty // non-empty container whose members are all omitted: kept when writing, may be dropped by alt.Decompose (and pretty, which decomposes)
)

// ENode is the expected encoding.
type ENode struct {
	Kind    string // null bool int uint float string array object
	B       bool
	I       int64
	U       uint64
	F       float64
	Bits    int
	S       string
	Elems   []*ENode
	Keys    []string
	Rules   []int
	IsMap   bool     // object that stands for a Go map (not a struct)
	Zones   []string // for MayDrop members: which open zone of the documentation
	Feature []string // fragile features below this node (for triage)
}

// LowKey is the lower-case key style: first character lower-cased; names of up to three
// characters (ID, URL) entirely - "the key style most often seen in JSON files".
func LowKey(s string) string {
	if len(s) <= 3 {
		return strings.ToLower(s)
	}
	return lowerFirst(s)
}

func lowerFirst(s string) string {
	if s == "" {
		return s
	}
	return strings.ToLower(s[:1]) + s[1:]
}

// tagOf parses a json tag.
func tagOf(sf reflect.StructField) (name string, omitempty, asString, skip bool) {
	tag, ok := sf.Tag.Lookup("json")
	if !ok {
		return "", false, false, false
	}
	if tag == "-" {
		return "", false, false, true
	}
	parts := strings.Split(tag, ",")
	name = parts[0]
	for _, p := range parts[1:] {
		switch p {
		case "omitempty":
			omitempty = true
		case "string":
			asString = true
		}
	}
	return
}

func isEmptyValue(rv reflect.Value) bool {
	switch rv.Kind() {
	case reflect.Array, reflect.Map, reflect.Slice, reflect.String:
		return rv.Len() == 0
	case reflect.Bool:
		return !rv.Bool()
	case reflect.Int, reflect.Int8, reflect.Int16, reflect.Int32, reflect.Int64:
		return rv.Int() == 0
	case reflect.Uint, reflect.Uint8, reflect.Uint16, reflect.Uint32, reflect.Uint64:
		return rv.Uint() == 0
	case reflect.Float32, reflect.Float64:
		return rv.Float() == 0
	case reflect.Interface, reflect.Ptr:
		return rv.IsNil()
	}
	return false
}

// Encode computes the expected encoding of rv under o, following the option
// documentation in options.go.
func Encode(rv reflect.Value, o EncOpts, feats map[string]bool) *ENode {
	switch rv.Kind() {
	case reflect.Invalid:
		return &ENode{Kind: "null"}
	case reflect.Ptr, reflect.Interface:
		if rv.IsNil() {
			return &ENode{Kind: "null"}
		}
		if rv.Kind() == reflect.Ptr && rv.Elem().Kind() == reflect.Ptr {
			feats["pointer-to-pointer"] = true
		}
		return Encode(rv.Elem(), o, feats)
	case reflect.Bool:
		return &ENode{Kind: "bool", B: rv.Bool()}
	case reflect.Int, reflect.Int8, reflect.Int16, reflect.Int32, reflect.Int64:
		return &ENode{Kind: "int", I: rv.Int()}
	case reflect.Uint, reflect.Uint8, reflect.Uint16, reflect.Uint32, reflect.Uint64:
		if rv.Uint() > math.MaxInt64 {
			feats["uint64-above-maxint64"] = true
		}
		return &ENode{Kind: "uint", U: rv.Uint()}
	case reflect.Float32, reflect.Float64:
		return &ENode{Kind: "float", F: rv.Float(), Bits: rv.Type().Bits()}
	case reflect.String:
		return &ENode{Kind: "string", S: rv.String()}
	case reflect.Slice:
		if rv.Type().Elem().Kind() == reflect.Uint8 {
			feats["bytes"] = true
			if rv.IsNil() {
				feats["nil-bytes"] = true
			}
			switch o.BytesAs {
			case 0:
				return &ENode{Kind: "string", S: string(rv.Bytes())}
			case 1:
				return &ENode{Kind: "string", S: base64.StdEncoding.EncodeToString(rv.Bytes())}
			}
		}
		if rv.IsNil() {
			feats["nil-slice"] = true
			return &ENode{Kind: "array", Feature: []string{"nil"}}
		}
		fallthrough
	case reflect.Array:
		n := &ENode{Kind: "array"}
		for i := 0; i < rv.Len(); i++ {
			e := rv.Index(i)
			if (e.Kind() == reflect.Ptr || e.Kind() == reflect.Interface) && e.IsNil() {
				feats["nil-inside-typed-slice"] = true
			}
			n.Elems = append(n.Elems, Encode(e, o, feats))
		}
		return n
	case reflect.Map:
		n := &ENode{Kind: "object", IsMap: true}
		if rv.IsNil() {
			feats["nil-map"] = true
			n.Feature = []string{"nil"}
			return n
		}
		keys := rv.MapKeys()
		sort.Slice(keys, func(i, j int) bool { return keyText(keys[i]) < keyText(keys[j]) })
		for _, k := range keys {
			e := Encode(rv.MapIndex(k), o, feats)
			n.Keys = append(n.Keys, keyText(k))
			n.Elems = append(n.Elems, e)
			r, z := memberRule(rv.MapIndex(k), e, o, false, true)
			n.Rules = append(n.Rules, r)
			n.Zones = append(n.Zones, z)
		}
		return n
	case reflect.Struct:
		n := &ENode{Kind: "object"}
		rt := rv.Type()
		if o.CreateKey != "" {
			// options.go: {"type": "MyType", "a": 3, "b": true}
			name := rt.Name()
			if o.FullTypePath {
				name = rt.PkgPath() + "/" + rt.Name()
			}
			feats["create-key"] = true
			n.Keys = append(n.Keys, o.CreateKey)
			n.Elems = append(n.Elems, &ENode{Kind: "string", S: name})
			if name == "" && o.OmitEmpty {
				// a struct type without a name (reflect.StructOf, struct literals): the type member
				// is an empty string, which OmitEmpty may or may not apply to
				n.Rules = append(n.Rules, MayDrop)
				n.Zones = append(n.Zones, "empty-type-name-under-omitempty")
			} else {
				n.Rules = append(n.Rules, Keep)
				n.Zones = append(n.Zones, "")
			}
		}
		for i := 0; i < rt.NumField(); i++ {
			sf := rt.Field(i)
			if sf.PkgPath != "" {
				continue
			}
			key := sf.Name
			omit, asString := false, false
			if o.UseTags {
				name, om, as, skip := tagOf(sf)
				if skip {
					continue
				}
				omit, asString = om, as
				if name != "" {
					key = name
				} else if !o.KeyExact && LowKey(sf.Name) != sf.Name {
					// options.go: "If no tag is present then the KeyExact flag is referenced", but
					// every encoder keeps the exact name here (known finding C15-K1); the reference
					// follows the encoders so that the rest of the value is still checked
					feats["untagged-field-with-usetags-and-keyexact-false"] = true
				}
			} else if !o.KeyExact {
				key = LowKey(sf.Name)
			}
			fv := rv.Field(i)
			if sf.Anonymous && fv.Kind() == reflect.Ptr && fv.Type().Elem().Kind() == reflect.Struct && !o.NestEmbed {
				feats["embedded-pointer"] = true
				if fv.IsNil() {
					// nothing to promote (encoding/json omits the fields as well)
					feats["embedded-pointer-nil"] = true
					continue
				}
				fv = fv.Elem()
			}
			if sf.Anonymous && fv.Kind() == reflect.Struct && !o.NestEmbed {
				// embedded struct: its fields are promoted into the parent
				feats["embedded-flattened"] = true
				so := o
				so.CreateKey = "" // the promoted fields come without a type member of their own
				sub := Encode(fv, so, feats)
				if o.CreateKey != "" {
					sub = reEncodeNested(fv, o, feats, sub)
				}
				n.Keys = append(n.Keys, sub.Keys...)
				n.Elems = append(n.Elems, sub.Elems...)
				n.Rules = append(n.Rules, sub.Rules...)
				n.Zones = append(n.Zones, sub.Zones...)
				continue
			}
			if sf.Anonymous {
				feats["embedded-nested"] = true
			}
			e := Encode(fv, o, feats)
			if asString {
				feats["tag-string"] = true
				switch e.Kind {
				case "int":
					e = &ENode{Kind: "string", S: strconv.FormatInt(e.I, 10)}
				case "uint":
					e = &ENode{Kind: "string", S: strconv.FormatUint(e.U, 10)}
				case "float":
					e = &ENode{Kind: "string", S: strconv.FormatFloat(e.F, 'g', -1, 64), Feature: []string{"float-as-string"}}
				case "bool":
					e = &ENode{Kind: "string", S: strconv.FormatBool(e.B)}
				}
			}
			rule, zone := memberRule(fv, e, o, omit, false)
			n.Keys = append(n.Keys, key)
			n.Elems = append(n.Elems, e)
			n.Rules = append(n.Rules, rule)
			n.Zones = append(n.Zones, zone)
		}
		return n
	}
	return &ENode{Kind: "null", Feature: []string{"unsupported-kind"}}
}

// reEncodeNested: the fields promoted from an embedded struct are encoded with the full options
// (their own struct values do carry the type member), only the embedded struct's own type
// member is left out.
func reEncodeNested(fv reflect.Value, o EncOpts, feats map[string]bool, _ *ENode) *ENode {
	full := Encode(fv, o, feats)
	out := &ENode{Kind: full.Kind, IsMap: full.IsMap}
	for i, k := range full.Keys {
		if i == 0 && k == o.CreateKey {
			continue
		}
		out.Keys = append(out.Keys, k)
		out.Elems = append(out.Elems, full.Elems[i])
		out.Rules = append(out.Rules, full.Rules[i])
		out.Zones = append(out.Zones, full.Zones[i])
	}
	return out
}

// memberRule: must a member be dropped, must it be kept, or is it in a zone the
// documentation leaves open. options.go: "OmitNil skips the writing of nil values in
// an object. OmitEmpty skips the writing of empty string, slices, maps, and zero
// values although maps with all empty members will not be skipped on writing but
// will be with alt.Decompose and alter."
func memberRule(fv reflect.Value, e *ENode, o EncOpts, tagOmitEmpty, inMap bool) (int, string) {
	if tagOmitEmpty && isEmptyValue(fv) {
		return MustDrop, ""
	}
	if tagOmitEmpty && e.Kind == "null" && fv.Kind() == reflect.Interface && !fv.IsNil() && !o.OmitNil && !o.OmitEmpty {
		// an interface that holds a typed nil pointer: encoding/json does not call that empty
		// (the interface itself is not nil), ojg does; the option documentation does not say
		return MayDrop, "typed-nil-in-interface-under-omitempty-tag"
	}
	if e.Kind == "null" { // nil pointer or interface
		if o.OmitNil || o.OmitEmpty {
			return MustDrop, ""
		}
		return Keep, ""
	}
	if len(e.Feature) > 0 && e.Feature[0] == "nil" { // nil slice or map
		if o.OmitEmpty {
			return MustDrop, ""
		}
		if o.OmitNil {
			// is a nil slice a "nil value"? open: the encoders only have to agree
			return MayDrop, "nil-container-under-omitnil"
		}
		return Keep, ""
	}
	if !o.OmitEmpty {
		return Keep, ""
	}
	switch fv.Kind() {
	case reflect.Ptr, reflect.Interface:
		if e.Kind == "object" && len(e.Keys) > 0 {
			if mayBecomeEmpty(e) {
				return BecomesEmpty, ""
			}
			return Keep, ""
		}
		// a non-nil pointer to (interface holding) an empty value: open
		if emptyNode(e) {
			return MayDrop, "pointer-to-empty-under-omitempty"
		}
		return Keep, ""
	case reflect.Struct:
		if mayBecomeEmpty(e) {
			return BecomesEmpty, ""
		}
		return Keep, ""
	case reflect.Map:
		if fv.Len() == 0 {
			return MustDrop, ""
		}
		if mayBecomeEmpty(e) {
			return BecomesEmpty, ""
		}
		return Keep, ""
	case reflect.Array:
		return Keep, ""
	}
	if isEmptyValue(fv) {
		if inMap {
			// "zero values" of map entries: the writers keep them, alt.Decompose drops them
			return MayDrop, "zero-map-entry-under-omitempty"
		}
		return MustDrop, ""
	}
	return Keep, ""
}

func emptyNode(e *ENode) bool {
	switch e.Kind {
	case "null":
		return true
	case "bool":
		return !e.B
	case "int":
		return e.I == 0
	case "uint":
		return e.U == 0
	case "float":
		return e.F == 0
	case "string":
		return e.S == ""
	case "array":
		return len(e.Elems) == 0
	case "object":
		return len(e.Keys) == 0
	}
	return false
}

// mayBecomeEmpty: an object all of whose members must or may be omitted.
func mayBecomeEmpty(e *ENode) bool {
	for _, r := range e.Rules {
		if r == Keep {
			return false
		}
	}
	return true
}

// keyText: a map key of an integer type is written as its digits (as encoding/json does).
func keyText(k reflect.Value) string {
	switch k.Kind() {
	case reflect.Int, reflect.Int8, reflect.Int16, reflect.Int32, reflect.Int64:
		return strconv.FormatInt(k.Int(), 10)
	case reflect.Uint, reflect.Uint8, reflect.Uint16, reflect.Uint32, reflect.Uint64:
		return strconv.FormatUint(k.Uint(), 10)
	}
	return k.String()
}
