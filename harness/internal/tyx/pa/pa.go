// Package pa holds named types whose short names collide with those of package pb.
package pa

type Item struct {
	ID   int
	Name string
	Tags []string
}

type Box struct {
	Item  Item
	Items []Item
	PI    *Item
	Note  string
}

// Emb embeds a pointer to a struct.
type Emb struct {
	*Item
	N int
}

// Sample returns the i-th sample value of the named type (pointer to it).
func Sample(name string, i int) any {
	one := Item{ID: 7, Name: "seven", Tags: []string{"a", "b"}}
	two := Item{ID: -3, Name: "", Tags: nil}
	switch name {
	case "Item":
		if i%2 == 0 {
			return &one
		}
		return &two
	case "Emb":
		if i%2 == 0 {
			return &Emb{Item: &one, N: 4}
		}
		return &Emb{N: 5}
	case "Box":
		if i%2 == 0 {
			return &Box{Item: one, Items: []Item{two, one}, PI: &two, Note: "n"}
		}
		return &Box{Item: two, Items: []Item{one}, Note: ""}
	}
	return nil
}
