package canon

import (
	"encoding/json"
	"math"
	"math/big"
	"strconv"
	"time"

	"github.com/ohler55/ojg/gen"
)

// Norm converts gen values to their simple counterparts (deeply).
func Norm(v any) any {
	switch tv := v.(type) {
	case gen.Bool:
		return bool(tv)
	case gen.Int:
		return int64(tv)
	case gen.Float:
		return float64(tv)
	case gen.String:
		return string(tv)
	case gen.Big:
		return json.Number(tv)
	case gen.Time:
		return time.Time(tv)
	case gen.Array:
		out := make([]any, len(tv))
		for i, e := range tv {
			out[i] = Norm(e)
		}
		return out
	case gen.Object:
		out := make(map[string]any, len(tv))
		for k, e := range tv {
			out[k] = Norm(e)
		}
		return out
	case []any:
		out := make([]any, len(tv))
		for i, e := range tv {
			out[i] = Norm(e)
		}
		return out
	case map[string]any:
		out := make(map[string]any, len(tv))
		for k, e := range tv {
			out[k] = Norm(e)
		}
		return out
	case int:
		return int64(tv)
	case gen.Node:
		if tv == nil {
			return nil
		}
	}
	return v
}

// Same reports whether two trees are equal where numbers may come in any of the
// admissible forms: int vs int exact; float vs float exact; int vs float equal if
// float64(int) == float; big vs float equal if the float nearest to the big text
// is that float; big vs int / big vs big by exact rational value.
func Same(a, b any) bool {
	return same(Norm(a), Norm(b))
}

func same(a, b any) bool {
	switch ta := a.(type) {
	case nil:
		return b == nil
	case bool:
		tb, ok := b.(bool)
		return ok && ta == tb
	case string:
		tb, ok := b.(string)
		return ok && ta == tb
	case time.Time:
		tb, ok := b.(time.Time)
		return ok && ta.Equal(tb)
	case int64, float64, json.Number:
		switch b.(type) {
		case int64, float64, json.Number:
			return numSame(a, b)
		}
		return false
	case []any:
		tb, ok := b.([]any)
		if !ok || len(ta) != len(tb) {
			return false
		}
		for i := range ta {
			if !same(ta[i], tb[i]) {
				return false
			}
		}
		return true
	case map[string]any:
		tb, ok := b.(map[string]any)
		if !ok || len(ta) != len(tb) {
			return false
		}
		for k, va := range ta {
			vb, ok := tb[k]
			if !ok || !same(va, vb) {
				return false
			}
		}
		return true
	}
	return String(a, Value) == String(b, Value)
}

func numSame(a, b any) bool {
	switch ta := a.(type) {
	case int64:
		switch tb := b.(type) {
		case int64:
			return ta == tb
		case float64:
			return float64(ta) == tb
		case json.Number:
			return bigInt(tb, ta)
		}
	case float64:
		switch tb := b.(type) {
		case int64:
			return float64(tb) == ta
		case float64:
			return ta == tb || (math.IsNaN(ta) && math.IsNaN(tb))
		case json.Number:
			return bigFloat(tb, ta)
		}
	case json.Number:
		switch tb := b.(type) {
		case int64:
			return bigInt(ta, tb)
		case float64:
			return bigFloat(ta, tb)
		case json.Number:
			if ta == tb {
				return true
			}
			ra, ok1 := new(big.Rat).SetString(string(ta))
			rb, ok2 := new(big.Rat).SetString(string(tb))
			return ok1 && ok2 && ra.Cmp(rb) == 0
		}
	}
	return false
}

func bigInt(n json.Number, i int64) bool {
	r, ok := new(big.Rat).SetString(string(n))
	return ok && r.IsInt() && r.Num().Cmp(big.NewInt(i)) == 0
}

func bigFloat(n json.Number, f float64) bool {
	g, err := strconv.ParseFloat(string(n), 64)
	if err != nil && !math.IsInf(g, 0) {
		return false
	}
	return g == f
}
