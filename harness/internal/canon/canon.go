// Package canon maps value trees of any representation (simple, gen, typed
// slices/maps through reflection) to a canonical string so equality is
// independent of representation and of map order.
package canon

import (
	"encoding/json"
	"fmt"
	"math"
	"math/big"
	"reflect"
	"sort"
	"strconv"
	"strings"
	"time"

	"github.com/ohler55/ojg/gen"
)

// Mode selects how numbers are normalised.
type Mode int

const (
	// Value: numbers by value. int/float/big forms of the same number are equal;
	// a big number equals the float64 nearest to it.
	Value Mode = iota
	// Typed: like Value but the number form (i/f/b) is part of the canon.
	Typed
)

// String returns the canonical form of v.
func String(v any, m Mode) string {
	var sb strings.Builder
	write(&sb, v, m)
	return sb.String()
}

// Equal compares by canonical form with numbers by value.
func Equal(a, b any) bool { return String(a, Value) == String(b, Value) }

func writeFloat(sb *strings.Builder, f float64, m Mode) {
	if m == Typed {
		sb.WriteString("f:")
		sb.WriteString(strconv.FormatFloat(f, 'g', -1, 64))
		return
	}
	if f == math.Trunc(f) && math.Abs(f) < 9.2e18 {
		sb.WriteString("n:")
		sb.WriteString(strconv.FormatInt(int64(f), 10))
		return
	}
	sb.WriteString("n:")
	sb.WriteString(strconv.FormatFloat(f, 'g', -1, 64))
}

func writeInt(sb *strings.Builder, i int64, m Mode) {
	if m == Typed {
		sb.WriteString("i:")
	} else {
		sb.WriteString("n:")
	}
	sb.WriteString(strconv.FormatInt(i, 10))
}

func writeBig(sb *strings.Builder, s string, m Mode) {
	if m == Typed {
		sb.WriteString("b:")
		sb.WriteString(s)
		return
	}
	if i, err := strconv.ParseInt(s, 10, 64); err == nil {
		writeInt(sb, i, m)
		return
	}
	if f, err := strconv.ParseFloat(s, 64); err == nil && !math.IsInf(f, 0) {
		// an integer-valued float beyond int64 keeps the float spelling
		writeFloat(sb, f, m)
		return
	}
	if f, err := strconv.ParseFloat(s, 64); err != nil && math.IsInf(f, 0) {
		writeFloat(sb, f, m) // overflow: same canon as a parser that returns ±Inf
		return
	}
	if r, ok := new(big.Rat).SetString(s); ok && len(s) < 4000 {
		sb.WriteString("n:R")
		sb.WriteString(r.RatString())
		return
	}
	sb.WriteString("n:?")
	sb.WriteString(s)
}

// writeZone: in the typed form a time is the instant and the offset of its location (an exact
// copy keeps both); in the value form the instant alone.
func writeZone(sb *strings.Builder, t time.Time, m Mode) {
	if m != Typed {
		return
	}
	if _, off := t.Zone(); off != 0 {
		sb.WriteByte('@')
		sb.WriteString(strconv.Itoa(off))
	}
}

func write(sb *strings.Builder, v any, m Mode) {
	switch tv := v.(type) {
	case nil:
		sb.WriteString("null")
	case bool:
		if tv {
			sb.WriteString("true")
		} else {
			sb.WriteString("false")
		}
	case gen.Bool:
		write(sb, bool(tv), m)
	case int64:
		writeInt(sb, tv, m)
	case int:
		writeInt(sb, int64(tv), m)
	case int8:
		writeInt(sb, int64(tv), m)
	case int16:
		writeInt(sb, int64(tv), m)
	case int32:
		writeInt(sb, int64(tv), m)
	case uint:
		writeUint(sb, uint64(tv), m)
	case uint8:
		writeInt(sb, int64(tv), m)
	case uint16:
		writeInt(sb, int64(tv), m)
	case uint32:
		writeInt(sb, int64(tv), m)
	case uint64:
		writeUint(sb, tv, m)
	case gen.Int:
		writeInt(sb, int64(tv), m)
	case float64:
		writeFloat(sb, tv, m)
	case float32:
		writeFloat(sb, float64(tv), m)
	case gen.Float:
		writeFloat(sb, float64(tv), m)
	case json.Number:
		writeBig(sb, string(tv), m)
	case gen.Big:
		writeBig(sb, string(tv), m)
	case string:
		sb.WriteString("s:")
		sb.WriteString(strconv.Quote(tv))
	case gen.String:
		sb.WriteString("s:")
		sb.WriteString(strconv.Quote(string(tv)))
	case time.Time:
		sb.WriteString("t:")
		sb.WriteString(strconv.FormatInt(tv.UnixNano(), 10))
		writeZone(sb, tv, m)
	case gen.Time:
		sb.WriteString("t:")
		sb.WriteString(strconv.FormatInt(time.Time(tv).UnixNano(), 10))
		writeZone(sb, time.Time(tv), m)
	case []any:
		sb.WriteByte('[')
		for i, e := range tv {
			if i > 0 {
				sb.WriteByte(',')
			}
			write(sb, e, m)
		}
		sb.WriteByte(']')
	case gen.Array:
		sb.WriteByte('[')
		for i, e := range tv {
			if i > 0 {
				sb.WriteByte(',')
			}
			write(sb, e, m)
		}
		sb.WriteByte(']')
	case map[string]any:
		keys := make([]string, 0, len(tv))
		for k := range tv {
			keys = append(keys, k)
		}
		sort.Strings(keys)
		sb.WriteByte('{')
		for i, k := range keys {
			if i > 0 {
				sb.WriteByte(',')
			}
			sb.WriteString(strconv.Quote(k))
			sb.WriteByte(':')
			write(sb, tv[k], m)
		}
		sb.WriteByte('}')
	case gen.Object:
		keys := make([]string, 0, len(tv))
		for k := range tv {
			keys = append(keys, k)
		}
		sort.Strings(keys)
		sb.WriteByte('{')
		for i, k := range keys {
			if i > 0 {
				sb.WriteByte(',')
			}
			sb.WriteString(strconv.Quote(k))
			sb.WriteByte(':')
			write(sb, tv[k], m)
		}
		sb.WriteByte('}')
	case Valuer:
		write(sb, tv.CanonValue(), m)
	default:
		writeReflect(sb, reflect.ValueOf(v), m)
	}
}

// Valuer lets harness wrapper types (Keyed/Indexed collections) expose the plain
// value they stand for.
type Valuer interface{ CanonValue() any }

func writeUint(sb *strings.Builder, u uint64, m Mode) {
	if u <= math.MaxInt64 {
		writeInt(sb, int64(u), m)
		return
	}
	writeBig(sb, strconv.FormatUint(u, 10), m)
}

func writeReflect(sb *strings.Builder, rv reflect.Value, m Mode) {
	switch rv.Kind() {
	case reflect.Invalid:
		sb.WriteString("null")
	case reflect.Ptr, reflect.Interface:
		if rv.IsNil() {
			sb.WriteString("null")
			return
		}
		if rv.Kind() == reflect.Interface {
			write(sb, rv.Elem().Interface(), m)
			return
		}
		writeReflect(sb, rv.Elem(), m)
	case reflect.Bool:
		write(sb, rv.Bool(), m)
	case reflect.Int, reflect.Int8, reflect.Int16, reflect.Int32, reflect.Int64:
		writeInt(sb, rv.Int(), m)
	case reflect.Uint, reflect.Uint8, reflect.Uint16, reflect.Uint32, reflect.Uint64, reflect.Uintptr:
		writeUint(sb, rv.Uint(), m)
	case reflect.Float32, reflect.Float64:
		writeFloat(sb, rv.Float(), m)
	case reflect.String:
		write(sb, rv.String(), m)
	case reflect.Slice, reflect.Array:
		sb.WriteByte('[')
		for i := 0; i < rv.Len(); i++ {
			if i > 0 {
				sb.WriteByte(',')
			}
			writeReflectElem(sb, rv.Index(i), m)
		}
		sb.WriteByte(']')
	case reflect.Map:
		type kv struct {
			k string
			v reflect.Value
		}
		var kvs []kv
		it := rv.MapRange()
		for it.Next() {
			kvs = append(kvs, kv{fmt.Sprint(it.Key().Interface()), it.Value()})
		}
		sort.Slice(kvs, func(i, j int) bool { return kvs[i].k < kvs[j].k })
		sb.WriteByte('{')
		for i, e := range kvs {
			if i > 0 {
				sb.WriteByte(',')
			}
			sb.WriteString(strconv.Quote(e.k))
			sb.WriteByte(':')
			writeReflectElem(sb, e.v, m)
		}
		sb.WriteByte('}')
	case reflect.Struct:
		if rv.Type() == reflect.TypeOf(time.Time{}) && rv.CanInterface() {
			write(sb, rv.Interface(), m)
			return
		}
		type kv struct {
			k string
			v reflect.Value
		}
		var kvs []kv
		for i := 0; i < rv.NumField(); i++ {
			f := rv.Type().Field(i)
			if f.PkgPath != "" {
				continue
			}
			name := f.Name
			if tag := f.Tag.Get("json"); tag != "" {
				if j := strings.IndexByte(tag, ','); j >= 0 {
					tag = tag[:j]
				}
				if tag != "" && tag != "-" {
					name = tag
				}
			}
			kvs = append(kvs, kv{name, rv.Field(i)})
		}
		sort.Slice(kvs, func(i, j int) bool { return kvs[i].k < kvs[j].k })
		sb.WriteByte('{')
		for i, e := range kvs {
			if i > 0 {
				sb.WriteByte(',')
			}
			sb.WriteString(strconv.Quote(e.k))
			sb.WriteByte(':')
			writeReflectElem(sb, e.v, m)
		}
		sb.WriteByte('}')
	default:
		fmt.Fprintf(sb, "?%s:%v", rv.Type(), rv)
	}
}

func writeReflectElem(sb *strings.Builder, rv reflect.Value, m Mode) {
	if rv.CanInterface() {
		write(sb, rv.Interface(), m)
		return
	}
	writeReflect(sb, rv, m)
}

// Copy makes a deep copy of a simple or gen tree.
func Copy(v any) any {
	switch tv := v.(type) {
	case []any:
		out := make([]any, len(tv))
		for i, e := range tv {
			out[i] = Copy(e)
		}
		return out
	case map[string]any:
		out := make(map[string]any, len(tv))
		for k, e := range tv {
			out[k] = Copy(e)
		}
		return out
	case gen.Array:
		out := make(gen.Array, len(tv))
		for i, e := range tv {
			if e != nil {
				out[i] = Copy(e).(gen.Node)
			}
		}
		return out
	case gen.Object:
		out := make(gen.Object, len(tv))
		for k, e := range tv {
			if e != nil {
				out[k] = Copy(e).(gen.Node)
			} else {
				out[k] = nil
			}
		}
		return out
	}
	return v
}
