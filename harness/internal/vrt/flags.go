package vrt

import (
	"flag"
	"strconv"
)

func flagSet(name, val string) error { return flag.Set(name, val) }

// InitRapid pins rapid's seed, disables its fail files (failures are saved as
// Case files by the harness instead) and bounds shrinking time.
func InitRapid() {
	_ = flag.Set("rapid.seed", strconv.FormatUint(Seed(), 10))
	_ = flag.Set("rapid.nofailfile", "true")
	_ = flag.Set("rapid.shrinktime", "20s")
}
