// Package vrt is the runtime shared by every property package: case files,
// statistics / evidence counters, the known-finding classifier registry, panic
// capture and the rapid front door.
package vrt

import (
	"encoding/json"
	"fmt"
	"hash/fnv"
	"os"
	"path/filepath"
	"runtime"
	"runtime/debug"
	"sort"
	"strconv"
	"strings"
	"sync"
	"sync/atomic"
	"syscall"
	"testing"
	"time"

	"pgregory.net/rapid"
)

// Disc is one discrepancy between the implementation and the oracle.
type Disc struct {
	Kind   string   `json:"kind"`   // stable discrepancy class, e.g. "accept-invalid"
	Where  string   `json:"where"`  // entry point, e.g. "oj.Validator"
	Detail string   `json:"detail"` // human readable
	Tags   []string `json:"tags,omitempty"`
	Known  string   `json:"known,omitempty"` // known-finding id it was attributed to
}

// Ctx is handed to every Run function. It collects classes, feature tags and
// discrepancies of one case evaluation.
type Ctx struct {
	classes    []string
	tags       map[string]bool
	discs      []Disc
	nontrivial bool
	key        []byte
	skip       string
	sample     any
}

func (c *Ctx) Class(name string)         { c.classes = append(c.classes, name) }
func (c *Ctx) Classf(f string, a ...any) { c.classes = append(c.classes, fmt.Sprintf(f, a...)) }
func (c *Ctx) Tag(name string) {
	if c.tags == nil {
		c.tags = map[string]bool{}
	}
	c.tags[name] = true
}
func (c *Ctx) HasTag(name string) bool { return c.tags[name] }
func (c *Ctx) NonTrivial()             { c.nontrivial = true }
func (c *Ctx) SetKey(b []byte)         { c.key = b }
func (c *Ctx) Sample(v any)            { c.sample = v }

// DontCare records that (part of) the case fell into a documented don't-care zone.
func (c *Ctx) DontCare(zone string) { c.classes = append(c.classes, "dontcare:"+zone) }

// Fail records a discrepancy.
func (c *Ctx) Fail(kind, where, detail string, tags ...string) {
	if len(detail) > 600 {
		detail = detail[:600] + "…"
	}
	c.discs = append(c.discs, Disc{Kind: kind, Where: where, Detail: detail, Tags: tags})
}
func (c *Ctx) Failf(kind, where, f string, a ...any) {
	c.Fail(kind, where, fmt.Sprintf(f, a...))
}
func (c *Ctx) Discs() []Disc { return c.discs }

// Classifier attributes a discrepancy to a known finding.
type Classifier struct {
	ID    string
	Match func(d Disc, c *Ctx) bool
}

// Violation is what gets written to the stats file for the driver.
type Violation struct {
	Prop  string          `json:"prop"`
	Case  json.RawMessage `json:"case"`
	Discs []Disc          `json:"discs"`
}

// Suite holds the per-process state of one property package.
type Suite struct {
	Property string
	Rule     string
	mu       sync.Mutex

	evals       int64
	nontrivial  map[uint64]struct{}
	ntCapped    bool
	classes     map[string]int64
	known       map[string]int64 // discrepancies attributed per known id
	knownWhat   map[string]string
	knownWit    map[string]string
	witnessOK   map[string]bool // witness replay still fails as classified
	samples     []any
	sampleEvery int64
	violations  []Violation
	vioSigs     map[string]bool
	classifiers []Classifier
	listed      map[string]bool
	lastFail    *Violation
	passedN     map[string]int
	wantN       map[string]int
	notes       []string
	extra       map[string]any
	floors      []floor
	replayers   map[string]func(raw json.RawMessage, c *Ctx) error
	triage      map[string]*TriageRec
}

// TriageRec counts discrepancies by signature (kind@where|tags), known or not.
type TriageRec struct {
	Count   int64  `json:"count"`
	Known   string `json:"known,omitempty"`
	Example string `json:"example"`
}

type floor struct {
	class string
	min   float64 // fraction of evaluations (if <1) or absolute count (>=1)
	of    string  // denominator class ("" = evaluations)
}

const ntCap = 4_000_000

func NewSuite(property, rule string) *Suite {
	s := &Suite{
		Property:    property,
		Rule:        rule,
		nontrivial:  map[uint64]struct{}{},
		classes:     map[string]int64{},
		known:       map[string]int64{},
		knownWhat:   map[string]string{},
		knownWit:    map[string]string{},
		witnessOK:   map[string]bool{},
		vioSigs:     map[string]bool{},
		listed:      map[string]bool{},
		passedN:     map[string]int{},
		wantN:       map[string]int{},
		extra:       map[string]any{},
		replayers:   map[string]func(json.RawMessage, *Ctx) error{},
		sampleEvery: 1,
		triage:      map[string]*TriageRec{},
	}
	s.loadFindings()
	return s
}

func Root() string {
	if r := os.Getenv("VERIF_ROOT"); r != "" {
		return r
	}
	return "/verif"
}

func Tier() string {
	if t := os.Getenv("VERIF_TIER"); t != "" {
		return t
	}
	return "quick"
}

func Thorough() bool { return Tier() == "thorough" }

// Seed returns the non-zero seed for this process (already shard-adjusted by the driver).
func Seed() uint64 {
	v, _ := strconv.ParseUint(os.Getenv("VERIF_PSEED"), 10, 64)
	if v == 0 {
		v = 20260926
	}
	return v
}

// Shard returns (index, count) for splitting enumerations across processes.
func Shard() (int, int) {
	p := strings.Split(os.Getenv("VERIF_SHARD"), "/")
	if len(p) == 2 {
		i, _ := strconv.Atoi(p[0])
		n, _ := strconv.Atoi(p[1])
		if 0 < n && 0 <= i && i < n {
			return i, n
		}
	}
	return 0, 1
}

// Workers runs f(i, n) in parallel so that enumerations are split over n =
// processShards*goroutines slices; i is the slice index.
func Workers(f func(i, n int)) {
	si, sn := Shard()
	w := runtime.GOMAXPROCS(0)
	if sn > 1 {
		w = 2
	}
	var wg sync.WaitGroup
	for k := 0; k < w; k++ {
		wg.Add(1)
		go func(k int) {
			defer wg.Done()
			f(si*w+k, sn*w)
		}(k)
	}
	wg.Wait()
}

// Scale multiplies a quick-tier case count for the thorough tier (per shard).
func Scale(quick, thorough int) int {
	if Thorough() {
		return thorough
	}
	return quick
}

func (s *Suite) loadFindings() {
	// findings/known_findings.txt, one record per line:
	//   known: property=<ID> id=<ID-Kn> witness=<path under /verif> <what fails>
	//   fixed: property=<ID> <commit> <what failed>        (suppresses nothing)
	data, err := os.ReadFile(filepath.Join(Root(), "findings", "known_findings.txt"))
	if err != nil {
		return
	}
	for _, line := range strings.Split(string(data), "\n") {
		line = strings.TrimSpace(line)
		if !strings.HasPrefix(line, "known:") {
			continue
		}
		f := strings.Fields(line[len("known:"):])
		if len(f) < 3 || f[0] != "property="+s.Property || !strings.HasPrefix(f[1], "id=") || !strings.HasPrefix(f[2], "witness=") {
			continue
		}
		id := strings.TrimPrefix(f[1], "id=")
		s.listed[id] = true
		s.knownWhat[id] = strings.Join(f[3:], " ")
		s.knownWit[id] = strings.TrimPrefix(f[2], "witness=")
	}
}

// Register adds classifiers. A classifier is only consulted when its id is listed
// in findings/known_findings.jsonl.
func (s *Suite) Register(cs ...Classifier) { s.classifiers = append(s.classifiers, cs...) }

// Floor demands that class occurs in at least frac of the cases counted under
// class `of` ("" = all evaluations); otherwise the run is "generator starved".
func (s *Suite) Floor(class string, min float64, of string) {
	s.floors = append(s.floors, floor{class, min, of})
}

func (s *Suite) Note(f string, a ...any) {
	s.mu.Lock()
	if len(s.notes) < 30 {
		s.notes = append(s.notes, fmt.Sprintf(f, a...))
	}
	s.mu.Unlock()
}

func (s *Suite) Extra(k string, v any) {
	s.mu.Lock()
	s.extra[k] = v
	s.mu.Unlock()
}

func (s *Suite) AddExtra(k string, n int64) {
	s.mu.Lock()
	if cur, ok := s.extra[k].(int64); ok {
		s.extra[k] = cur + n
	} else {
		s.extra[k] = n
	}
	s.mu.Unlock()
}

// Finish folds the outcome of one evaluation into the statistics. It returns the
// unattributed discrepancies (nil if the case passed).
func (s *Suite) Finish(prop string, c *Ctx, caseJSON func() []byte) []Disc {
	var bad []Disc
	for i := range c.discs {
		d := &c.discs[i]
		for _, cl := range s.classifiers {
			if s.listed[cl.ID] && cl.Match(*d, c) {
				d.Known = cl.ID
				break
			}
		}
		if d.Where == "harness" || d.Kind == "oracle-defect" {
			// a fault of the machinery itself is never a violation: exit 2
			s.Note("harness fault: %s: %s", d.Kind, d.Detail)
			s.Extra("harness_error", true)
			continue
		}
		if d.Known == "" {
			bad = append(bad, *d)
		}
	}
	s.mu.Lock()
	defer s.mu.Unlock()
	s.evals++
	for _, cl := range c.classes {
		s.classes[cl]++
	}
	for t := range c.tags {
		s.classes["tag:"+t]++
	}
	for _, d := range c.discs {
		if d.Known != "" {
			s.known[d.Known]++
		}
		sig := d.Kind + "@" + d.Where
		if len(d.Tags) > 0 {
			sig += "|" + strings.Join(d.Tags, "|")
		}
		if tr := s.triage[sig]; tr != nil {
			tr.Count++
		} else if len(s.triage) < 2000 {
			s.triage[sig] = &TriageRec{Count: 1, Known: d.Known, Example: d.Detail}
		}
	}
	if c.nontrivial {
		s.classes["nontrivial"]++
		if len(s.nontrivial) < ntCap {
			key := c.key
			if key == nil {
				key = caseJSON()
			}
			h := fnv.New64a()
			h.Write([]byte(prop))
			h.Write([]byte{0})
			h.Write(key)
			s.nontrivial[h.Sum64()] = struct{}{}
		} else {
			s.ntCapped = true
		}
		if len(s.samples) < 12 && s.evals%s.sampleEvery == 0 {
			var sm any = c.sample
			if sm == nil {
				var v any
				if json.Unmarshal(caseJSON(), &v) == nil {
					sm = v
				}
			}
			s.samples = append(s.samples, map[string]any{"prop": prop, "case": sm})
			s.sampleEvery *= 3
		}
	}
	if len(bad) > 0 {
		v := Violation{Prop: prop, Case: caseJSON(), Discs: bad}
		s.lastFail = &v
	}
	return bad
}

// recordViolation stores a violation (deduplicated by discrepancy signature).
func (s *Suite) recordViolation(v Violation) {
	s.mu.Lock()
	defer s.mu.Unlock()
	sig := v.Prop
	for _, d := range v.Discs {
		sig += "|" + d.Kind + "@" + d.Where
	}
	if s.vioSigs[sig] || len(s.violations) >= 20 {
		return
	}
	s.vioSigs[sig] = true
	s.violations = append(s.violations, v)
}

// ---- watchdog: termination is observed, not proved ----

type watchSlot struct {
	start time.Time
	cpu   time.Duration // CPU time of the process when the case started
	prop  string
	js    func() []byte
}

// cpuTime is the CPU time (user + system) the process has used so far.
func cpuTime() time.Duration {
	var ru syscall.Rusage
	if err := syscall.Getrusage(syscall.RUSAGE_SELF, &ru); err != nil {
		return 0
	}
	return time.Duration(ru.Utime.Nano() + ru.Stime.Nano())
}

var (
	watchCur   atomic.Pointer[watchSlot]
	watchOnce  sync.Once
	WatchLimit = 30 * time.Second
)

func (s *Suite) watch(prop string, js func() []byte) {
	watchOnce.Do(func() {
		go func() {
			for {
				time.Sleep(500 * time.Millisecond)
				w := watchCur.Load()
				// a case is taken for a hang when it has not returned after WatchLimit of wall clock
				// time AND the process has burnt that much CPU since (a loop that spins), or after ten
				// times the limit whatever the CPU (a wait for something that never comes). Wall clock
				// alone is not enough: with the thorough tier's processes and other jobs on the same
				// cores a case of a few seconds took more than 30 s twice, and was no hang.
				if w != nil && time.Since(w.start) > WatchLimit && (cpuTime()-w.cpu > WatchLimit || time.Since(w.start) > 10*WatchLimit) {
					// the case did not return: record it as a hang and stop the process
					// (the goroutine that is stuck cannot be cancelled)
					s.recordViolation(Violation{Prop: w.prop, Case: w.js(), Discs: []Disc{{Kind: "hang", Where: "watchdog",
						Detail: fmt.Sprintf("case did not return within %v", WatchLimit)}}})
					s.Write()
					os.Exit(1)
				}
			}
		}()
	})
	watchCur.Store(&watchSlot{start: time.Now(), cpu: cpuTime(), prop: prop, js: js})
	if journalPath != "" {
		// journal mode (the driver runs a worker again this way after the process died): the
		// case about to run is on disk before it runs
		var b []byte
		b = append(b, `{"prop":`...)
		b = append(b, strconv.Quote(prop)...)
		b = append(b, `,"case":`...)
		b = append(b, js()...)
		b = append(b, '}', '\n')
		_ = os.WriteFile(journalPath, b, 0o644)
	}
}

var journalPath = os.Getenv("VERIF_JOURNAL")

func unwatch() { watchCur.Store(nil) }

// Extend gives the case that is running d more before the watchdog takes it for a hang (for a
// case that hands its input to a child process under a time limit of its own: the watchdog
// measures wall clock time, and a busy machine stretches a CPU bound case).
func Extend(d time.Duration) {
	if w := watchCur.Load(); w != nil {
		watchCur.Store(&watchSlot{start: w.start.Add(d), cpu: w.cpu, prop: w.prop, js: w.js})
	}
}

// Eval runs one directly enumerated case (no rapid). Returns true if it passed.
func Eval[C any](s *Suite, prop string, cs C, run func(C, *Ctx)) bool {
	c := &Ctx{}
	s.watch(prop, func() []byte { b, _ := json.Marshal(cs); return b })
	Guard(c, "harness", func() { run(cs, c) })
	unwatch()
	bad := s.Finish(prop, c, func() []byte { b, _ := json.Marshal(cs); return b })
	if len(bad) > 0 {
		b, _ := json.Marshal(cs)
		s.recordViolation(Violation{Prop: prop, Case: b, Discs: bad})
		return false
	}
	return true
}

// Guard runs f and converts an escaping panic into a discrepancy of kind "panic".
func Guard(c *Ctx, where string, f func()) {
	defer func() {
		if r := recover(); r != nil {
			st := string(debug.Stack())
			c.Fail("panic", where, fmt.Sprintf("%v\n%s", r, trimStack(st)))
		}
	}()
	f()
}

// Catch runs f and returns the recovered panic value (nil if none) and a short stack.
func Catch(f func()) (pv any, stack string) {
	defer func() {
		if r := recover(); r != nil {
			pv = r
			stack = trimStack(string(debug.Stack()))
		}
	}()
	f()
	return nil, ""
}

func trimStack(st string) string {
	lines := strings.Split(st, "\n")
	var out []string
	for _, l := range lines {
		if strings.Contains(l, "/repo/") || strings.Contains(l, "ojg/") {
			out = append(out, strings.TrimSpace(l))
			if len(out) >= 6 {
				break
			}
		}
	}
	return strings.Join(out, " <- ")
}

// Rapid drives a property through rapid: draw a case, run it, fail the rapid
// test when an unattributed discrepancy remains. The shrunk case is recorded as
// a violation.
func Rapid[C any](t *testing.T, s *Suite, prop string, checks int, draw func(*rapid.T) C, run func(C, *Ctx)) {
	t.Helper()
	SetRapidChecks(checks)
	s.mu.Lock()
	s.lastFail = nil
	s.wantN[prop] = checks
	s.mu.Unlock()
	n := 0
	ok := t.Run(prop, func(t *testing.T) {
		rapid.Check(t, func(rt *rapid.T) {
			cs := draw(rt)
			c := &Ctx{}
			s.watch(prop, func() []byte { b, _ := json.Marshal(cs); return b })
			Guard(c, "harness", func() { run(cs, c) })
			unwatch()
			bad := s.Finish(prop, c, func() []byte { b, _ := json.Marshal(cs); return b })
			if len(bad) > 0 && os.Getenv("VERIF_SURVEY") == "" {
				rt.Fatalf("discrepancy: %s@%s: %s", bad[0].Kind, bad[0].Where, bad[0].Detail)
			}
			n++
		})
	})
	s.mu.Lock()
	s.passedN[prop] = n
	lf := s.lastFail
	s.mu.Unlock()
	if !ok {
		if lf != nil {
			s.recordViolation(*lf)
		} else {
			s.Note("rapid property %s failed without a recorded case (harness problem)", prop)
			s.Extra("harness_error", true)
		}
	}
}

// SetRapidChecks sets -rapid.checks for subsequent rapid.Check calls.
func SetRapidChecks(n int) {
	_ = flagSet("rapid.checks", strconv.Itoa(n))
}

// RegisterReplay registers how to replay a saved case for a property function.
func RegisterReplay[C any](s *Suite, prop string, run func(C, *Ctx)) {
	s.replayers[prop] = func(raw json.RawMessage, c *Ctx) error {
		var cs C
		if err := json.Unmarshal(raw, &cs); err != nil {
			return err
		}
		s.watch(prop, func() []byte { return raw })
		Guard(c, "harness", func() { run(cs, c) })
		unwatch()
		return nil
	}
}

// ReplayFile re-runs a saved case file, bypassing rapid. Returns all discrepancies.
func (s *Suite) ReplayFile(path string) ([]Disc, error) {
	data, err := os.ReadFile(path)
	if err != nil {
		return nil, err
	}
	var v Violation
	if err = json.Unmarshal(data, &v); err != nil {
		return nil, err
	}
	rp := s.replayers[v.Prop]
	if rp == nil {
		return nil, fmt.Errorf("no replayer for prop %q", v.Prop)
	}
	c := &Ctx{}
	if err = rp(v.Case, c); err != nil {
		return nil, err
	}
	bad := s.Finish(v.Prop, c, func() []byte { return v.Case })
	if len(bad) > 0 {
		s.recordViolation(Violation{Prop: v.Prop, Case: v.Case, Discs: bad})
	}
	return c.discs, nil
}

// ReplayAll runs the committed regression corpus (replays/<ID>/*.json) and the
// witnesses of listed known findings. If VERIF_REPLAY is set, only that file runs.
func (s *Suite) ReplayAll(t *testing.T) {
	if p := os.Getenv("VERIF_REPLAY"); p != "" {
		discs, err := s.ReplayFile(p)
		if err != nil {
			s.Note("replay %s: %v", p, err)
			s.Extra("harness_error", true)
			return
		}
		for _, d := range discs {
			t.Logf("replay discrepancy: %+v", d)
		}
		return
	}
	dir := filepath.Join(Root(), "replays", s.Property)
	files, _ := filepath.Glob(filepath.Join(dir, "*.json"))
	sort.Strings(files)
	for _, f := range files {
		if _, err := s.ReplayFile(f); err != nil {
			s.Note("replay %s: %v", f, err)
		}
		s.AddExtra("replayed_regression_cases", 1)
	}
	ids := make([]string, 0, len(s.listed))
	for id := range s.listed {
		ids = append(ids, id)
	}
	sort.Strings(ids)
	for _, id := range ids {
		w := s.knownWit[id]
		if w == "" {
			continue
		}
		discs, err := s.ReplayFile(filepath.Join(Root(), w))
		if err != nil {
			s.Note("witness %s: %v", w, err)
			continue
		}
		for _, d := range discs {
			if d.Known == id {
				s.witnessOK[id] = true
			}
		}
	}
}

type statsFile struct {
	Property    string                `json:"property"`
	Rule        string                `json:"rule"`
	Evaluations int64                 `json:"evaluations"`
	Distinct    int                   `json:"distinct_nontrivial_local"`
	Capped      bool                  `json:"nontrivial_capped"`
	Classes     map[string]int64      `json:"classes"`
	Known       map[string]int64      `json:"known"`
	KnownWhat   map[string]string     `json:"known_what"`
	WitnessOK   map[string]bool       `json:"witness_ok"`
	Samples     []any                 `json:"samples"`
	Violations  []Violation           `json:"violations"`
	Passed      map[string]int        `json:"rapid_passed"`
	Wanted      map[string]int        `json:"rapid_wanted"`
	Notes       []string              `json:"notes"`
	Extra       map[string]any        `json:"extra"`
	Starved     []string              `json:"starved"`
	HashFile    string                `json:"hash_file"`
	Triage      map[string]*TriageRec `json:"triage"`
}

// Write dumps the statistics for the driver (path from VERIF_STATS).
func (s *Suite) Write() {
	path := os.Getenv("VERIF_STATS")
	if path == "" {
		path = filepath.Join(os.TempDir(), "verif-stats-"+s.Property+".json")
	}
	if os.Getenv("VERIF_FUZZ") != "" {
		worker := false
		for _, a := range os.Args {
			if strings.HasPrefix(a, "-test.fuzzworker") {
				worker = true
			}
		}
		if !worker {
			return
		}
		path += "." + strconv.Itoa(os.Getpid())
	}
	s.mu.Lock()
	defer s.mu.Unlock()
	sf := statsFile{
		Property: s.Property, Rule: s.Rule, Evaluations: s.evals, Distinct: len(s.nontrivial),
		Capped: s.ntCapped, Classes: s.classes, Known: s.known, KnownWhat: s.knownWhat,
		WitnessOK: s.witnessOK, Samples: s.samples, Violations: s.violations,
		Passed: s.passedN, Wanted: s.wantN, Notes: s.notes, Extra: s.extra, Triage: s.triage,
	}
	for _, f := range s.floors {
		den := float64(s.evals)
		if f.of != "" {
			den = float64(s.classes[f.of])
		}
		have := float64(s.classes[f.class])
		if f.min >= 1 {
			if have < f.min {
				sf.Starved = append(sf.Starved, fmt.Sprintf("%s: %d < %d", f.class, int64(have), int64(f.min)))
			}
		} else if den > 0 && have/den < f.min {
			sf.Starved = append(sf.Starved, fmt.Sprintf("%s: %.4f < %.4f of %s", f.class, have/den, f.min, f.of))
		}
	}
	// hashes of distinct non-trivial cases, for cross-shard merging
	hf := path + ".hashes"
	buf := make([]byte, 0, 8*len(s.nontrivial))
	for h := range s.nontrivial {
		buf = append(buf, byte(h), byte(h>>8), byte(h>>16), byte(h>>24), byte(h>>32), byte(h>>40), byte(h>>48), byte(h>>56))
	}
	if os.WriteFile(hf, buf, 0o644) == nil {
		sf.HashFile = hf
	}
	b, _ := json.Marshal(sf)
	_ = os.WriteFile(path, b, 0o644)
}

// Main is the TestMain body for property packages.
func Main(m *testing.M, s *Suite) {
	code := m.Run()
	s.Write()
	// The driver decides the verdict from the stats file; a non-zero go test
	// status with no recorded violation means the harness itself broke.
	os.Exit(code)
}
