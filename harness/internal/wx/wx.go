// Package wx holds what the writer properties (C04, C10, C15, C18) share: option
// records, recording io.Writers, and tree <-> JSON-safe case encoding.
package wx

import (
	"encoding/base64"
	"encoding/json"
	"fmt"
	"math"
	"sort"
	"strconv"
	"time"
	"unicode/utf8"

	"github.com/ohler55/ojg"
	"pgregory.net/rapid"
)

// Opt is a serialisable record of formatting options.
type Opt struct {
	Indent    int  `json:"indent,omitempty"`
	Tab       bool `json:"tab,omitempty"`
	Sort      bool `json:"sort,omitempty"`
	OmitNil   bool `json:"omitnil,omitempty"`
	OmitEmpty bool `json:"omitempty,omitempty"`
	HTMLSafe  bool `json:"htmlsafe,omitempty"`
	WriteLim  int  `json:"writelimit,omitempty"`
	InitSize  int  `json:"initsize,omitempty"`
	Width     int  `json:"width,omitempty"`
	MaxDepth  int  `json:"maxdepth,omitempty"`
	Align     bool `json:"align,omitempty"`
	// KeepsEmpty is set by a check for the writers that keep an empty, non-nil container under
	// OmitNil alone (the oj writers on simple and gen data); it is not part of a case
	KeepsEmpty bool `json:"-"`
}

func (w Opt) Options() ojg.Options {
	o := ojg.DefaultOptions
	o.Indent = w.Indent
	o.Tab = w.Tab
	o.Sort = w.Sort
	o.OmitNil = w.OmitNil
	o.OmitEmpty = w.OmitEmpty
	o.HTMLUnsafe = !w.HTMLSafe
	o.WriteLimit = w.WriteLim
	o.InitSize = w.InitSize
	return o
}

// DrawOpt draws an option record. omit: also draw OmitNil/OmitEmpty.
func DrawOpt(t *rapid.T, omit bool) Opt {
	o := Opt{
		Indent:   rapid.SampledFrom([]int{0, 0, 1, 2, 4, 9, 64, 200}).Draw(t, "indent"),
		Tab:      rapid.IntRange(0, 5).Draw(t, "tab") == 0,
		Sort:     rapid.Bool().Draw(t, "sort"),
		HTMLSafe: rapid.IntRange(0, 2).Draw(t, "html") == 0,
		WriteLim: rapid.SampledFrom([]int{0, 1, 2, 3, 7, 16, 100, 1024}).Draw(t, "wl"),
		InitSize: rapid.SampledFrom([]int{0, 0, 1, 16, 4096}).Draw(t, "init"),
		Width:    rapid.SampledFrom([]int{80, 1, 2, 5, 10, 20, 40, 120, 200}).Draw(t, "width"),
		MaxDepth: rapid.SampledFrom([]int{3, 1, 2, 4, 6}).Draw(t, "maxdepth"),
		Align:    rapid.IntRange(0, 2).Draw(t, "align") == 0,
	}
	if omit {
		o.OmitNil = rapid.IntRange(0, 2).Draw(t, "omitnil") == 0
		o.OmitEmpty = rapid.IntRange(0, 3).Draw(t, "omitempty") == 0
	}
	return o
}

// Rec is an io.Writer that records every Write call.
type Rec struct {
	Buf    []byte
	Writes int
	Max    int
}

func (r *Rec) Write(p []byte) (int, error) {
	r.Buf = append(r.Buf, p...)
	r.Writes++
	if len(p) > r.Max {
		r.Max = len(p)
	}
	return len(p), nil
}

// ---- JSON-safe encoding of simple trees (strings may hold invalid UTF-8, ints must stay ints) ----

// Enc turns a simple tree into a structure that survives encoding/json:
// {"i":"123"} int64, {"f":"1.5"} float64 (strconv 'g' -1), {"s":"base64"} string,
// {"a":[...]} array, {"o":[[key64, value]...]} object (sorted), null, true/false.
func Enc(v any) any {
	switch tv := v.(type) {
	case nil:
		return nil
	case bool:
		return tv
	case int64:
		return map[string]any{"i": strconv.FormatInt(tv, 10)}
	case int:
		return map[string]any{"i": strconv.Itoa(tv)}
	case float64:
		return map[string]any{"f": strconv.FormatFloat(tv, 'g', -1, 64)}
	case time.Time:
		if _, off := tv.Zone(); off != 0 {
			return map[string]any{"time": strconv.FormatInt(tv.UnixNano(), 10), "zone": strconv.Itoa(off)}
		}
		return map[string]any{"time": strconv.FormatInt(tv.UnixNano(), 10)}
	case json.Number:
		return map[string]any{"num": string(tv)}
	case string:
		if utf8.ValidString(tv) {
			return map[string]any{"t": tv}
		}
		return map[string]any{"s": base64.StdEncoding.EncodeToString([]byte(tv))}
	case []any:
		out := make([]any, len(tv))
		for i, e := range tv {
			out[i] = Enc(e)
		}
		return map[string]any{"a": out}
	case map[string]any:
		keys := make([]string, 0, len(tv))
		for k := range tv {
			keys = append(keys, k)
		}
		sort.Strings(keys)
		out := make([]any, 0, len(keys))
		for _, k := range keys {
			out = append(out, []any{Enc(k), Enc(tv[k])})
		}
		return map[string]any{"o": out}
	}
	panic(fmt.Sprintf("wx.Enc: unsupported %T", v))
}

// Dec is the inverse of Enc (after a JSON round trip).
func Dec(v any) any {
	switch tv := v.(type) {
	case nil:
		return nil
	case bool:
		return tv
	case map[string]any:
		if s, ok := tv["i"].(string); ok {
			i, _ := strconv.ParseInt(s, 10, 64)
			return i
		}
		if s, ok := tv["f"].(string); ok {
			f, _ := strconv.ParseFloat(s, 64)
			return f
		}
		if s, ok := tv["t"].(string); ok {
			return s
		}
		if s, ok := tv["time"].(string); ok {
			n, _ := strconv.ParseInt(s, 10, 64)
			if z, ok := tv["zone"].(string); ok {
				off, _ := strconv.Atoi(z)
				return time.Unix(0, n).In(time.FixedZone("", off))
			}
			return time.Unix(0, n).UTC()
		}
		if s, ok := tv["num"].(string); ok {
			return json.Number(s)
		}
		if s, ok := tv["s"].(string); ok {
			b, _ := base64.StdEncoding.DecodeString(s)
			return string(b)
		}
		if a, ok := tv["a"].([]any); ok {
			out := make([]any, len(a))
			for i, e := range a {
				out[i] = Dec(e)
			}
			return out
		}
		if o, ok := tv["o"].([]any); ok {
			out := make(map[string]any, len(o))
			for _, kv := range o {
				p, _ := kv.([]any)
				if len(p) == 2 {
					k, _ := Dec(p[0]).(string)
					out[k] = Dec(p[1])
				}
			}
			return out
		}
		if _, ok := tv["a"]; ok {
			return []any{}
		}
		if _, ok := tv["o"]; ok {
			return map[string]any{}
		}
	}
	return nil
}

// ReplaceInvalid replaces every invalid UTF-8 byte by U+FFFD (one per byte).
func ReplaceInvalid(s string) string {
	if utf8.ValidString(s) {
		return s
	}
	out := make([]byte, 0, len(s)+8)
	for i := 0; i < len(s); {
		r, n := utf8.DecodeRuneInString(s[i:])
		if r == utf8.RuneError && n == 1 {
			out = append(out, "�"...)
		} else {
			out = append(out, s[i:i+n]...)
		}
		i += n
	}
	return string(out)
}

// IsZeroNum reports whether v is a zero number or false.
func IsZeroNum(v any) bool {
	switch tv := v.(type) {
	case int64:
		return tv == 0
	case float64:
		return tv == 0 || math.IsNaN(tv)
	case bool:
		return !tv
	}
	return false
}
